"""C13 — background (threaded) event loop: no deadlock, no use-after-free, clean shutdown.

Proof: lean/VncModel/Props/C13.lean about the interleaving model lean/VncModel/Threads/*.lean
(threads: application, listener, per-client input/output; atomic steps at the LOCK/UNLOCK/WAIT/
TSIGNAL/iterator/free/join points).
Tie (every run):
  T0   tools/consts/c13.py regenerates the synchronisation skeleton of the anchored functions from
       the working tree; `skeleton_matches` (decide) compares it with the skeleton the model was
       built from.
  CC   harness/c13.c runs the REAL threaded server under a deterministic cooperative scheduler
       (link-level interposition of pthread_* / select / usleep / read / write ..., seeded PRNG:
       uniform, sticky, PCT priorities; virtual time) and emits an event trace; the Lean driver
       drv_c13 checks trace inclusion (every observed trace is a path of the model).
  Direct oracles (no model): deadlock / hang with holders, ASan/UBSan/LSan, mutex misuse,
       clientGoneHook exactly once, final picture of staying clients == server framebuffer,
       library threads alive / never joined at the end, resource counters over connect cycles.
"""
import json, os, re, collections
from .. import common, build

PROPS_MOD = "VncModel.Props.C13"
EXTRA_TARGETS = ["drv_c13"]
CORPUS = os.path.join(common.VERIF, "corpus", "C13")

# ------------------------------------------------------------------------------------------------
# known-defect table: id -> (what, how the unchanged tree shows it).  `fixed_if` is a predicate on
# the T0 skeleton of the tree (fix applied?) used only to choose generator exclusions; the verdict
# never depends on it (an unfixed defect is always reported, tagged with its finding id).
FINDINGS = {
    "writeexact-lock-leak": "rfbWriteExact returns with outputMutex held when cl->sock is already invalid; the client's input thread then blocks forever in rfbClientConnectionGone",
    "cututf8-sendmutex-leak": "rfbSendServerCutTextUTF8 leaves sendMutex locked for a client without extended clipboard when no Latin-1 fallback is given",
    "iterator-ref-race": "client iterator / rfbShutdownServer use a client record that is not (or no longer) protected by a reference: use after free against a self-terminating client thread",
    "shutdown-request-lost": "rfbCloseClient's RFB_SHUTDOWN in cl->state is overwritten by the handshake code (or the wake-up is lost): the client thread never stops, rfbShutdownServer never returns",
    "newfb-membership-race": "rfbNewFramebuffer locks every client's sendMutex in one pass and unlocks in a second pass over the then current list: a client leaving in between keeps its sendMutex locked forever, one arriving gets an unlocked mutex unlocked",
    "shutdown-accept-race": "rfbShutdownServer disconnects the clients before it stops the listener thread: a connection accepted in between is joined with an invalid thread handle or survives shutdown and is freed under its running threads",
    "send-during-handshake": "rfbSendBell / rfbSendServerCutText[UTF8] write to clients that are still in the handshake; the message lands in the middle of the handshake stream",
    "client-thread-unjoined": "the thread of a client that disconnects on its own is joinable and never joined (only rfbShutdownServer joins, and only clients still in the list): one thread's resources stay allocated per past connection",
    "teardown-outlives-shutdown": "rfbShutdownServer does not wait for client threads that are already tearing themselves down; they may still run when the application calls rfbScreenCleanup",
    "copyrect-inflight-race": "rfbDoCopyRect/rfbScheduleCopyRect while an output thread is between taking its update region and sending it: the client copies source pixels it has already received in their new state; its picture stays wrong",
    "stale-descriptor-write": "rfbWriteExact reads cl->sock before it takes outputMutex and clientInput closes the socket without that mutex: an application-thread writer (rfbSendBell, rfbSendServerCutText ...) that holds a reference on a leaving client writes to the descriptor number after it was closed; if a new connection arrived in between the bytes go into that client's socket or notify pipe (which makes its input thread shut the innocent client down)",
    "extclip-reply-unlocked": "the input thread sends the ExtendedClipboard capability message and its answers to the client's Request / Peek without sendMutex (and reads cl->extClipboardData, which rfbSendServerCutTextUTF8 replaces under sendMutex): the message lands in the middle of a framebuffer update the output thread is sending, the viewer's stream is corrupted",
    "onhold-client-joined": "rfbShutdownServer (threaded) calls pthread_join on the client_thread of every client in the list, also of a client the application put on hold (RFB_CLIENT_ON_HOLD) and never started: its thread handle is zero (undefined behaviour, crash in glibc), and nobody runs rfbClientConnectionGone for it",
    "newfb-latecomer": "a client that connects while the application is inside rfbNewFramebuffer is not among the clients locked and refreshed by that call: if its first update was taken from the old framebuffer it keeps showing the old contents until something else marks the screen (and its output thread may still read the old buffer when the application releases it)",
    "softcursor-pollutes-others": "a client without cursor-shape updates has the cursor drawn into the shared framebuffer while it sends; other clients' output threads capture those pixels",
}


def tree_flags(repo):
    """which of the proposed fixes are present in the tree (only used to pick exclusions)"""
    import importlib.util
    spec = importlib.util.spec_from_file_location("c13_t0", os.path.join(common.VERIF, "tools", "consts", "c13.py"))
    m = importlib.util.module_from_spec(spec)
    spec.loader.exec_module(m)
    fl = {}
    try:
        cache = {}
        sk = {}
        for path, fn in m.FUNCS:
            if path not in cache:
                with open(os.path.join(repo, path), errors="replace") as f:
                    cache[path] = m.active_text(m.strip_comments(f.read()))
            sk[fn] = m.skeleton(m.body_of(cache[path], fn))
        fl["send_state_check"] = "cl->state!=RFB_NORMAL" in sk["rfbSendBell"]
        fl["iter_atomic"] = sk["rfbClientIteratorNext"].index("rfbIncrClientRef") < sk["rfbClientIteratorNext"].index("UNLOCK rfbClientListMutex") \
            if "rfbIncrClientRef" in sk["rfbClientIteratorNext"] and "UNLOCK rfbClientListMutex" in sk["rfbClientIteratorNext"] else False
        fl["listener_first"] = sk["rfbShutdownServer"].index("pthread_join") < sk["rfbShutdownServer"].index("rfbCloseClient")
        fl["skeleton"] = sk
    except Exception as e:       # noqa: the T0 step reports the breakage; here we only lose the hints
        fl["error"] = repr(e)
    return fl


# ------------------------------------------------------------------------------------------------
# scenario generator
def gen_scenario(rng, guards, soft_ok=False, listen=None, allow_null_fallback=False):
    w = rng.choice([16, 32, 48]); h = rng.choice([8, 16, 24])
    defer = rng.choice([1, 2, 5]); lis = rng.randint(0, 1) if listen is None else listen
    maxwait = rng.choice([100, 300, 1000]); seed = rng.getrandbits(40)
    mode = rng.choice([0, 1, 1, 2, 2]); d = rng.randint(1, 5); stick = rng.choice([50, 80, 95])
    cpr = rng.choice([300, 1000, 3000, 10000])
    L = ["cfg %d %d %d %d %d %d %d %d %d %d %d %d" % (w, h, defer, lis, maxwait, seed, mode, d, 400000, stick, cpr, guards)]
    npeers = rng.randint(1, 4)
    has_abandon = False
    for k in range(npeers):
        kind = rng.choice(["stay", "stay", "leave", "abrupt", "slow", "abandon"])
        has_abandon = has_abandon or kind == "abandon"
        if kind == "stay": p1, p2 = 0, 0
        elif kind in ("leave", "abrupt"): p1, p2 = rng.randint(0, 4), 0
        elif kind == "slow": p1, p2 = rng.choice([1, 5, 20]), rng.choice([16, 64, 512])
        else: p1, p2 = rng.randint(0, 3), rng.randint(0, 1)
        soft = 1 if (soft_ok and kind in ("leave", "abrupt", "slow") and rng.random() < 0.6) else 0
        # capability class: a quarter of the clients do not announce NewFBSize (the framebuffer only
        # ever changes to one of the same size in these scenarios)
        if rng.random() < 0.25: soft |= 2
        L.append("peer %d %s %d %d %d" % (k, kind, p1, p2, soft))
    if not has_abandon and rng.random() < 0.15:
        # deferUpdateTime 0: the output thread polls with usleep(0) until the handshake is over; with an
        # abandoned handshake that is a busy loop which only burns the step budget
        t = L[0].split(); t[3] = "0"; L[0] = " ".join(t)
    pending = list(range(npeers)); rng.shuffle(pending)
    connected = [pending.pop()]
    L.append("connect %d" % connected[0])
    for _ in range(rng.randint(3, 14)):
        r = rng.random()
        if pending and r < 0.25:
            connected.append(pending.pop()); L.append("connect %d" % connected[-1])
        elif r < 0.29:
            L.append("drop %d" % rng.choice(connected))
        elif r < 0.32:
            ks = rng.sample(connected, rng.randint(1, min(2, len(connected))))
            L.append("iterhold %d %d %s" % (rng.randint(0, 2), rng.choice([5, 60]), " ".join(map(str, ks))))
        elif r < 0.45: L.append("sleep %d" % rng.choice([0, 1, 3, 10, 50, 200]))
        elif r < 0.62:
            x, y = rng.randrange(w), rng.randrange(h)
            L.append("mark %d %d %d %d %d" % (x, y, rng.randint(1, w - x), rng.randint(1, h - y), rng.getrandbits(24)))
        elif r < 0.70:
            ww, hh = rng.randint(1, w // 2), rng.randint(1, h // 2)
            x, y = rng.randint(0, w - ww), rng.randint(0, h - hh)
            L.append("copy %d %d %d %d %d %d" % (x, y, ww, hh, rng.randint(-4, 4), rng.randint(-4, 4)))
        elif r < 0.78: L.append("bell")
        elif r < 0.84: L.append("cut %d" % rng.choice([0, 5, 300]))
        elif r < 0.90: L.append("cututf8 %d %d" % (rng.choice([0, 5, 300]), 0 if (allow_null_fallback and rng.random() < 0.5) else 1))
        elif r < 0.95: L.append("iter")
        else: L.append("newfb %d %d %d" % (w, h, rng.getrandbits(24)))
    for k in pending:
        if rng.random() < 0.5: L.append("connect %d" % k)
    L.append("settle %d" % rng.choice([2000, 8000]))
    L.append("shutdown")
    L.append("cleanup")
    return "\n".join(L) + "\n"


def _cfg(rng, w, h, defer, lis, maxwait, guards, sndbuf=0, sharing=0):
    return "cfg %d %d %d %d %d %d %d %d 400000 %d %d %d %d %d" % (
        w, h, defer, lis, maxwait, rng.getrandbits(40), rng.choice([0, 1, 2]), rng.randint(1, 4), rng.choice([50, 80, 95]),
        rng.choice([300, 1000, 3000]), guards, sndbuf, sharing)


def fam_nonshared(rng, guards):
    """a second client sends ClientInit shared=0 (or the screen is neverShared) while a first one is
    served: with dontDisconnect the new client is refused, otherwise the old one is closed (both by a
    client iterator in the new client's input thread); afterwards the first client leaves or the server
    shuts down: every reference taken by that iterator must have been given back"""
    out = []
    for lis in (0, 1):
        for sharing, flag in ((1, 4), (3, 0), (0, 4), (2, 0), (4, 4), (5, 4)):
            for leave in ("drop", "stay"):
                L = ["# noinclusion (the input thread of a client walks the client list: not in the model)",
                     _cfg(rng, 16, 8, rng.choice([1, 2, 5]), lis, 300, guards, 0, sharing),
                     "peer 0 stay 0 0 0", "peer 1 stay 0 0 %d" % flag, "connect 0", "sleep 200", "connect 1", "sleep 300",
                     "mark 1 1 4 4 %d" % rng.getrandbits(20), "sleep 100"]
                if leave == "drop": L += ["drop 0", "sleep 300"]
                L += [rng.choice(["bell", "iter", "sleep 5"]), "settle 2000", "shutdown", "cleanup"]
                out.append(("fam-nonshared", "\n".join(L) + "\n", None))
    return out


def fam_inflight(rng, guards):
    """a slow reader has a large Raw update in flight (more than one update buffer, socket buffer full),
    its connection is half-closed, and inside that window the application replaces the framebuffer
    (the harness frees the old one) / a new client connects; then the reader drains.  Oracles: ASan on
    the old framebuffer, no descriptor closed while another thread waits on it, no client thread
    writing to another client's socket"""
    out = []
    for lis in (0, 1):
        for (w, h) in ((128, 128), (96, 96)):
            for gap in (100, 1000):
                L = [_cfg(rng, w, h, 2, lis, rng.choice([300, 1000]), guards, 2048),
                     "peer 0 stall 3000 1 0", "peer 1 stay 0 0 0"]
                L += ["connect 0", "sleep 300"] if rng.random() < 0.5 else ["connect 1", "connect 0", "sleep 300"]
                L += ["halfclose 0", "sleep %d" % gap, "newfb %d %d %d" % (w, h, rng.getrandbits(20)), "sleep 6000", "settle 4000", "shutdown", "cleanup"]
                out.append(("fam-inflight", "\n".join(L) + "\n", None))
    # descriptor re-use: the output thread of the leaving client is not scheduled while the input thread
    # tears the connection down and the next client arrives
    for lis in (0, 0, 1):
        for role in ("O",):
            for gap in (50, 200):
                L = [_cfg(rng, 128, 128, 2, lis, 300, guards, 2048),
                     "peer 0 stall 20000 0 0", "peer 1 stay 0 0 0", "connect 0", "sleep 300",
                     "suspend %s 0" % role, "halfclose 0", "sleep %d" % gap, "connect 1", "sleep 100", "resume %s 0" % role,
                     "sleep 6000", "mark 1 1 5 5 %d" % rng.getrandbits(20), "settle 4000", "shutdown", "cleanup"]
                out.append(("fam-inflight", "\n".join(L) + "\n", None))
    return out


def fam_stall(rng, guards):
    """slow reader / stalled writer: a client stops reading with more than a socket buffer queued, for
    less or more than maxClientWait + one 5 s retry step of rfbWriteExact; afterwards every thread of
    the client must be gone and no mutex may be left locked"""
    out = []
    for lis in (0, 1):
        for ms, after in ((1000, 1), (8000, 0), (8000, 1), (12000, 1)):
            for extra in ("none", "bell", "mark"):
                L = [_cfg(rng, 64, 48, 2, lis, rng.choice([100, 1000]), guards, 2048),
                     "peer 0 stall %d %d 0" % (ms, after), "peer 1 stay 0 0 0"]
                order = [0, 1] if rng.random() < 0.5 else [1, 0]
                L += ["connect %d" % order[0], "connect %d" % order[1], "sleep 200", "mark 0 0 64 48 %d" % rng.getrandbits(20)]
                if extra == "bell": L += ["sleep 2000", "bell"]
                elif extra == "mark": L += ["sleep 2000", "mark 5 5 20 20 %d" % rng.getrandbits(20)]
                L += ["sleep %d" % (ms + 1000), "mark 3 3 10 10 %d" % rng.getrandbits(20), "settle 4000", "shutdown", "cleanup"]
                out.append(("fam-stall", "\n".join(L) + "\n", None))
    return out


def fam_iterhold(rng, guards):
    """an application iterator rests on a client while that client and / or its list neighbours
    disconnect in every order, then advances; the list is (last connected) ... (first connected)"""
    import itertools
    out = []
    combos = []
    for n in (2, 3):
        seqs = [p for r in range(1, n + 1) for p in itertools.permutations(range(n), r)]
        allc = [(n, h, sq) for h in range(n) for sq in seqs]
        combos += allc if n == 2 else rng.sample(allc, 16)
    for n, h, sq in combos:
        lis = rng.randint(0, 1)
        L = [_cfg(rng, 16, 8, rng.choice([1, 2, 5]), lis, 300, guards)]
        L += ["peer %d stay 0 0 %d" % (k, rng.choice([0, 0, 2])) for k in range(n)]
        for k in range(n): L += ["connect %d" % k, "sleep 100"]
        L += ["iterhold %d %d %s" % (h, rng.choice([5, 60]), " ".join(map(str, sq)))]
        L += [rng.choice(["bell", "iter", "cut 5", "sleep 20"]), "mark 1 1 4 4 %d" % rng.getrandbits(20), "settle 2000", "shutdown", "cleanup"]
        out.append(("fam-iterhold", "\n".join(L) + "\n", None))
    return out


def fam_newfb(rng, guards):
    """rfbNewFramebuffer with idle (waiting) and busy output threads, clients of each capability class
    (with / without NewFBSize), and NO rfbMarkRectAsModified afterwards: every client that stays must
    end up showing the new framebuffer"""
    out = []
    for lis in (0, 1):
        for idle in (300, 0):
            for pre in ("none", "mark"):
                for defer in (1, 5):
                    w, h = rng.choice([(16, 8), (32, 16)])
                    L = [_cfg(rng, w, h, defer, lis, 300, guards),
                         "peer 0 stay 0 0 2", "peer 1 stay 0 0 0", "peer 2 slow %d 64 2" % rng.choice([1, 5])]
                    ks = [0, 1, 2]; rng.shuffle(ks)
                    L += ["connect %d" % k for k in ks[:rng.randint(2, 3)]]
                    L += ["sleep 300"]
                    if pre == "mark": L += ["mark 1 1 6 6 %d" % rng.getrandbits(20)]
                    if idle: L += ["sleep %d" % idle]
                    L += ["newfb %d %d %d" % (w, h, rng.getrandbits(20)), "settle 4000", "shutdown", "cleanup"]
                    out.append(("fam-newfb", "\n".join(L) + "\n", None))
    # NewFBSize-capable clients only: the size changes as well
    for lis in (0, 1):
        L = [_cfg(rng, 16, 8, 2, lis, 300, guards), "peer 0 stay 0 0 0", "peer 1 stay 0 0 0", "connect 0", "connect 1", "sleep 300",
             "newfb 32 16 %d" % rng.getrandbits(20), "settle 4000", "shutdown", "cleanup"]
        out.append(("fam-newfb", "\n".join(L) + "\n", None))
    return out


def fam_round3(rng, guards):
    """(a) two listening sockets (in the place of the IPv4 and the IPv6 one): two connections arrive on
    different sockets while the listener thread is busy with a silent third one, so that one select()
    round reports both; every connection must be served.  (b) UTF-8 clipboard broadcast to
    ExtendedClipboard clients that must be notified (their Caps allow no unsolicited text), with and
    without clients asking for the text (Request) from their input thread meanwhile"""
    out = []
    for order in ((1, 2), (2, 1)):
        for gap in (0, 30):
            L = [_cfg(rng, 16, 8, 2, 2, 300, guards),
                 "peer 0 abandon 0 0 0", "peer 1 stay 0 0 0", "peer 2 stay 0 0 32", "peer 3 stay 0 0 32",
                 "connect 0", "sleep 20", "connect %d" % order[0]]
            if gap: L += ["sleep %d" % gap]
            L += ["connect %d" % order[1], "sleep 400", "connect 3", "mark 1 1 5 5 %d" % rng.getrandbits(20), "settle 4000", "shutdown", "cleanup"]
            out.append(("fam-round3", "\n".join(L) + "\n", None))
    for lis in (0, 1):
        for flags in (8, 24):
            for n in (5, 300):
                L = [_cfg(rng, 16, 8, 2, lis, 300, guards, 0, 8),
                     "peer 0 stay 0 0 %d" % flags, "peer 1 stay 0 0 0", "peer 2 leave 3 0 %d" % flags,
                     "connect 0", "connect 1", "connect 2", "sleep 300", "cututf8 %d 1" % n, "sleep 50", "cututf8 %d 1" % (n + 1),
                     "mark 1 1 5 5 %d" % rng.getrandbits(20), "cututf8 3 1", "bell", "settle 3000", "shutdown", "cleanup"]
                out.append(("fam-round3", "# noinclusion (clipboard answers written by the input thread)\n" + "\n".join(L) + "\n", None))
    return out


def gen_cycles(rng, guards, n):
    seed = rng.getrandbits(40)
    L = ["cfg 16 8 %d %d 300 %d %d %d 400000 80 3000 %d" % (rng.choice([1, 2]), rng.randint(0, 1), seed, rng.choice([0, 1, 2]), rng.randint(1, 4), guards),
         "peer 0 stay 0 0 0", "connect 0", "sleep 20", "cycle %d" % n, "mark 1 1 5 5 77", "settle 2000", "shutdown", "cleanup"]
    return "\n".join(L) + "\n"


# ------------------------------------------------------------------------------------------------
LIBFRAMES_SKIP = {"touch", "pthread_mutex_lock", "pthread_mutex_unlock", "pthread_cond_wait", "pthread_cond_signal",
                  "cond_wake", "cond_wait_common", "pthread_mutex_destroy", "pthread_cond_destroy", "pthread_join",
                  "write", "read", "select", "close", "is_notify_pipe", "is_client_sock"}


def run_harness(h, script, timeout=200):
    """one schedule of one scenario on the real code -> (rc, stdout, stderr); the sanitizer report is
    kept whole (the classification of known defects reads its stacks).
    The scheduler, its virtual clock and its step / virtual-time budgets are independent of the load of
    the machine; the two real-time limits (the harness' own alarm and this subprocess time-out) are not
    verdicts: a run that trips one is repeated ALONE (one confirmation at a time across all checks of
    this tree) with three times the limits, and only a second expiry is reported."""
    import subprocess
    e = dict(os.environ)
    e["ASAN_OPTIONS"] = "detect_leaks=1:abort_on_error=0:print_legend=0:allocator_may_return_null=1"
    e["UBSAN_OPTIONS"] = "print_stacktrace=1"

    def once(limit, alarm_s):
        e["C13_ALARM_S"] = str(alarm_s)
        try:
            r = subprocess.run([h], input=script, stdout=subprocess.PIPE, stderr=subprocess.PIPE, text=True,
                               timeout=limit, env=e, errors="replace")
            return r.returncode, r.stdout, r.stderr[:30000]
        except subprocess.TimeoutExpired as ex:
            so = ex.stdout.decode(errors="replace") if isinstance(ex.stdout, bytes) else (ex.stdout or "")
            return 124, so, "TIMEOUT after %ss" % limit

    rc, out, err = once(timeout, timeout // 2)
    if rc == 124 or "res realtime-watchdog" in out:
        with build.Lock("confirm-hang"):
            rc, out, err = once(3 * timeout, 3 * timeout // 2)
        if rc == 124 or "res realtime-watchdog" in out:
            rc, err = 124, (err or "") + "\nreal-time limit exceeded twice (second time alone, %ss)" % (3 * timeout)
    return rc, out, err


def parse(out):
    evs, res = [], []
    for l in out.splitlines():
        if l.startswith("ev "): evs.append(l[3:])
        elif l.startswith("res "): res.append(l[4:])
    return evs, res


def model_trace(evs):
    """the part of the trace the model speaks about: library threads only (A, L, I<c>, O<c>), the
    six lock classes and two condition variables, create/join/exit, hook events"""
    out = []
    for e in evs:
        t = e.split()
        if t[0][0] == "P": continue
        if t[1] in ("minit", "mdestroy", "cinit", "cdestroy", "note", "close", "start", "wfail"): continue
        if t[1] in ("lock", "unlock", "wait", "wake", "signal", "bcast") and t[2].startswith("?"): continue
        if t[1] in ("create", "join") and t[2][0] == "P": continue
        out.append(e)
    return out


def asan_info(err):
    m = re.search(r"ERROR: AddressSanitizer: (\S+)", err)
    if not m: return None
    blocks = re.split(r"\n\s*\n", err[m.start():])
    def frames(b):
        return [f for f in re.findall(r"#\d+ \S+ in (\w+)", b) if f not in LIBFRAMES_SKIP]
    acc = frames(blocks[0]) if blocks else []
    freed = []
    for b in blocks[1:]:
        if "freed by thread" in b: freed = frames(b); break
    return {"kind": m.group(1), "access": acc[:6], "freed": freed[:4]}


def ti_role_app(evs, what):
    """the stale write was made by the application thread (holding outputMutex of the leaving client inside
    rfbWriteExact), after that client's input thread had closed the socket"""
    m = re.search(r"holds=O(\d+)", what)
    if not m: return False
    c = m.group(1)
    closed = [i for i, e in enumerate(evs) if e.split() == ["I" + c, "sock", c]]
    return bool(closed) and any(e.split() == ["A", "lock", "O" + c] for e in evs[:closed[0]] + evs[closed[0]:]) and \
        any(e.split()[0] == "A" and e.split()[1:] == ["unlock", "O" + c] for e in evs[closed[0]:])


def during_newfb(evs, cid):
    """client `cid` was created / sent its first update between `A call newfb` and the matching `A ret newfb`"""
    wins, start = [], None
    for i, e in enumerate(evs):
        if e.startswith("A call newfb"): start = i
        elif e.startswith("A ret newfb") and start is not None: wins.append((start, i)); start = None
    if start is not None: wins.append((start, len(evs)))
    marks = [i for i, e in enumerate(evs) if e.split()[1:] in (["newcl", cid], ["alloc", cid]) or e.split() == ["O" + cid, "start"]
             or e.split()[1:] == ["create", "I" + cid] or e.split()[1:] == ["create", "O" + cid]]
    return any(a < i < b for i in marks for a, b in wins)


def analyse(script, rc, out, err):
    """-> (list of problems: dict(what, finding|None, detail), stats dict)"""
    evs, res = parse(out)
    probs = []
    ops = [l.split() for l in script.splitlines() if l.strip() and not l.startswith("#")]
    has_soft = any(o[0] == "peer" and (int(o[5]) & 1) for o in ops)
    null_fb = any(o[0] == "cututf8" and o[2] == "0" for o in ops)
    cfgl = ops[0]; listen = cfgl[4] in ("1", "2"); guards = int(cfgl[12]) if len(cfgl) > 12 else 0
    ended = [r for r in res if r.startswith("end ")]
    st = {"events": len(evs), "wfail": sum(1 for e in evs if " wfail " in e), "waits": sum(1 for e in evs if " wait " in e),
          "clients": 0, "steps": 0, "mode": cfgl[7], "listen": int(listen)}
    for r in res:
        if r.startswith("stats "):
            kv = dict(x.split("=") for x in r.split()[1:]); st["steps"] = int(kv["steps"]); st["clients"] = int(kv["clients"])

    def add(what, finding=None, detail=None):
        probs.append({"what": what, "finding": finding, "detail": detail})

    def held_outside_bracket(cls):
        """a thread performed another event while holding <cls><c> taken for a write / send"""
        hold = {}
        for e in evs:
            t = e.split()
            if t[1] == "lock" and t[2].startswith(cls): hold[(t[0], t[2])] = True
            elif t[1] == "unlock" and t[2].startswith(cls): hold.pop((t[0], t[2]), None)
        return hold

    threads = [r for r in res if r.startswith("thread ")]
    def tinfo():
        d = {}
        for r in threads:
            t = r.split(); kv = dict(x.split("=", 1) for x in t[2:] if "=" in x); d[t[1]] = kv
        return d
    ti = tinfo()
    a = asan_info(err)
    if a:
        acc = set(a["access"]); fin = None
        if a["kind"] in ("heap-use-after-free", "double-free", "attempting"):
            if "rfbClientConnectionGone" in a["freed"] or a["kind"] == "double-free":
                if acc & {"rfbClientIteratorNext", "rfbIncrClientRef", "rfbDecrClientRef", "rfbReleaseClientIterator", "rfbClientIteratorHead"}:
                    fin = "iterator-ref-race"
                elif "rfbShutdownServer" in a["access"][:3]:
                    fin = "iterator-ref-race"
                elif acc & {"rfbMarkRegionAsModified", "rfbScheduleCopyRegion", "rfbSendBell", "rfbSendServerCutText",
                            "rfbSendServerCutTextUTF8", "rfbNewFramebuffer", "rfbNewTCPOrUDPClient"} and "clientInput" in a["freed"]:
                    # the body of a client loop working on a client the iterator handed out after it was freed
                    fin = "iterator-ref-race"
                elif "rfbScreenCleanup" in a["access"][:3] and listen:
                    fin = "shutdown-accept-race"
        add("sanitizer: %s in %s (freed in %s)" % (a["kind"], "<".join(a["access"][:4]), "<".join(a["freed"][:2])), fin, err[-2500:])
    elif "LeakSanitizer" in err:
        add("sanitizer: memory leak at exit", None, err[-2500:])
    elif "runtime error" in err:
        add("sanitizer: undefined behaviour", None, err[-2500:])
    elif rc == 124:
        add("harness exceeded its real-time limit twice, the second time running alone with three times the limit", None, None)
    elif rc != 0:
        add("harness exit code %d" % rc, None, err[-1500:])
    for r in res:
        t = r.split()
        if t[0] in ("deadlock", "hang"):
            fin = None
            blocked = {k: v for k, v in ti.items() if v.get("state") in ("mutex", "cond", "join")}
            # precise signatures of the known defects
            for k, v in blocked.items():
                if v.get("state") == "mutex" and v.get("on", "").startswith("S") and v.get("owner") == "A":
                    if k == "A" and null_fb: fin = "cututf8-sendmutex-leak"
                    elif k != "A": fin = fin or "newfb-membership-race"
                if v.get("state") == "mutex" and v.get("on", "").startswith("O") and v.get("owner") not in (None, k):
                    own = ti.get(v["owner"], {})
                    if own.get("at") != "mutex_unlock" or True:
                        fin = fin or "writeexact-lock-leak"
            if fin is None and any(v.get("state") == "join" and v.get("target", "").startswith("O")
                                   and ti.get(v.get("target"), {}).get("state") == "cond" for k, v in ti.items() if k.startswith("I")):
                fin = "shutdown-request-lost"
            if fin is None and "A" in blocked and blocked["A"].get("state") == "join":
                tg = blocked["A"].get("target", "")
                tv = ti.get(tg, {})
                if tg.startswith("I") and tv.get("state") in ("select", "join"):
                    c = tg[1:]
                    if any(e.split()[1:] == ["pipew", c] for e in evs):
                        fin = "shutdown-request-lost"
            add("%s: %s" % (t[0], " ".join(t[1:])), fin, "\n".join(threads))
        elif t[0] == "misuse":
            fin = None
            what = " ".join(t[1:])
            if "join-of-unknown-thread" in what and len(cfgl) > 14 and int(cfgl[14]) & 16: fin = "onhold-client-joined"
            elif "join-of-unknown-thread" in what and listen: fin = "shutdown-accept-race"
            elif "unlock-by-non-owner S" in what: fin = "newfb-membership-race"
            elif "write-inside-foreign-send" in what and re.search(r"writer=I(\d+) sender=(O\1|A)\b", what) and len(cfgl) > 14 and int(cfgl[14]) & 8:
                fin = "extclip-reply-unlocked"
            elif "write-on-stale-descriptor" in what and ti_role_app(evs, what): fin = "stale-descriptor-write"
            elif ("destroy-locked-mutex" in what or "unlock-by-non-owner U" in what) and ti.get("A", {}).get("at") in ("mutex_unlock", "write"):
                fin = "iterator-ref-race"
            elif "destroy-cond-with-waiters" in what and any(v.get("state") == "join" and v.get("target", "").startswith("O")
                                                              and ti.get(v.get("target"), {}).get("state") == "cond" for v in ti.values()):
                # an output thread that was never woken is still waiting when the record is torn down
                fin = "shutdown-request-lost"
            elif "lock-of-destroyed-mutex" in what or "destroy-locked-mutex" in what:
                # a sync object of a client that rfbClientConnectionGone has already torn down
                fin = "iterator-ref-race"
            add("mutex/thread misuse: " + what, fin, "\n".join(threads))
        elif t[0] == "sanitizer-abort" and not a:
            add("sanitizer abort without report", None, err[-1500:])
        elif t[0] == "fd-leak":
            # threads that are still alive keep their descriptors: reported through the thread oracle
            if not any(r.startswith("threads ") and "lib_alive=0" not in r for r in res):
                add("descriptors are still open after rfbShutdownServer + rfbScreenCleanup: " + " ".join(t[1:]), None, None)
        elif t[0] == "unserved":
            if len(cfgl) > 14 and int(cfgl[14]) & 16: continue      # the application itself keeps every client on hold
            add("a connection was accepted at socket level but never served: " + " ".join(t[1:]), None, None)
        elif t[0] in ("harness-error", "peer-stuck", "gone-unknown-client"):
            add(" ".join(t), None, None)
        elif t[0] == "proto":
            add("malformed stream at peer: " + " ".join(t[1:]), "extclip-reply-unlocked" if any(x.startswith("misuse write-inside-foreign-send") for x in res) and len(cfgl) > 14 and int(cfgl[14]) & 8 else "send-during-handshake" if not (guards & 1) and any(o[0] in ("bell", "cut", "cututf8") for o in ops) else None, None)
        elif t[0] == "gone" and t[2] != "count=1":
            if ended and ended[0] == "end ok":
                add("clientGoneHook ran %s times for client %s" % (t[2].split("=")[1], t[1].split("=")[1]), None, None)
        elif t[0] == "pic" and t[3] == "differs":
            peer = t[1].split("=")[1]
            dl = [x for x in res if x.startswith("picdiff peer=%s " % peer)]
            fin = None
            m = re.search(r"ndiff=(\d+) first=(-?\d+),(-?\d+) last=(-?\d+),(-?\d+)", dl[0]) if dl else None
            if m:
                nd, fx, fy, lx, ly = map(int, m.groups())
                if during_newfb(evs, t[2].split("=")[1]): fin = "newfb-latecomer"
                elif has_soft and lx < 5 and ly < 4: fin = "softcursor-pollutes-others"
                else:
                    # inside the destination of a copy whose memmove ran while an output thread was busy.
                    # (The harness guard bit 4 only narrows that window — seed 6 of the quick tier still
                    # hit it in a guarded script — so the tag does not depend on the guard.)
                    for o in ops:
                        if o[0] == "copy":
                            x, y, ww, hh = map(int, o[1:5])
                            if x <= fx and y <= fy and lx < x + ww and ly < y + hh: fin = "copyrect-inflight-race"
            if fin is None and int(t[4].split("=")[1]) == 0 and not (guards & 1) and any(o[0] in ("bell", "cut", "cututf8") for o in ops):
                fin = "send-during-handshake"
            add("client %s stayed connected but does not show the final framebuffer (%s)" % (peer, dl[0] if dl else "?"), fin, None)
        elif t[0] == "threads":
            kv = dict(x.split("=") for x in t[1:])
            alive, unj = int(kv["lib_alive"]), int(kv["lib_unjoined"])
            if alive:
                # which threads: input/output threads of self-terminated clients still tearing down
                al = [k for k, v in ti.items() if k[0] in "IOL" and v.get("state") != "exited"]
                fin = None
                if all(k[0] in "IO" for k in al) and not (guards & 2):
                    fin = "teardown-outlives-shutdown"
                blocked_on = [(k, ti[k].get("on"), ti[k].get("owner")) for k in al if ti[k].get("state") == "mutex"]
                for k, on, own in blocked_on:
                    if on and on.startswith("O") and own: fin = "writeexact-lock-leak"
                    if on and on.startswith("S") and own == "A": fin = "cututf8-sendmutex-leak" if null_fb else "newfb-membership-race"
                if listen and fin is None and any(k[0] in "IO" for k in al):
                    # client accepted during shutdown
                    cids = {k[1:] for k in al}
                    sh = [i for i, e in enumerate(evs) if e == "A call shutdown 0"]
                    if sh and any(e.split()[1] == "newcl" and e.split()[2] in cids and i > sh[0] for i, e in enumerate(evs)):
                        fin = "shutdown-accept-race"
                add("library threads still alive after shutdown+cleanup: %s" % ",".join(al), fin, "\n".join(threads))
            if unj:
                # exactly the input threads of clients that terminated on their own
                joined = {e.split()[2] for e in evs if e.split()[1] == "join"}
                exited_i = {e.split()[0] for e in evs if e.split()[1] == "exit" and e.split()[0][0] == "I"}
                others = {e.split()[0] for e in evs if e.split()[1] == "exit" and e.split()[0][0] in "OL"} - joined
                fin = "client-thread-unjoined" if (len(exited_i - joined) == unj and not others) else None
                add("%d library thread(s) exited but never joined" % unj, fin, None)
        elif t[0] == "held-at-end":
            pass      # reported through the blocked thread / alive thread above
        elif t[0] == "exit-holding":
            add("thread %s ended while it still owned mutex %s (nobody can unlock it any more)" % (t[1], t[2]),
                "writeexact-lock-leak" if t[2].startswith("O") else None, "\n".join(threads))
        elif t[0] == "cycle":
            kv = dict(x.split("=") for x in t[1:])
            n = int(kv["n"]); grow = int(kv["unjoined_after"]) - int(kv["unjoined_before"])
            st["cycle"] = kv
            stuck = int(kv["alive_after"]) - int(kv["alive_before"])
            # threads of a cycle whose output thread missed its wake-up are still alive (input thread in
            # pthread_join, output thread in the condition wait)
            lostwake = [k for k, v in ti.items() if k.startswith("I") and v.get("state") == "join"
                        and ti.get(v.get("target", ""), {}).get("state") == "cond"]
            if grow > 0:
                add("%d connect-disconnect cycles left %d unjoined threads (maps %s -> %s, VmSize %s -> %s kB)" % (
                    n, grow, kv["maps_before"], kv["maps_after"], kv["vmsize_kb_before"], kv["vmsize_kb_after"]),
                    "client-thread-unjoined" if grow + len(lostwake) == n and 2 * len(lostwake) == max(stuck, 0) else None, None)
            if stuck > 0:
                add("live library threads grew over %d cycles: %s -> %s" % (n, kv["alive_before"], kv["alive_after"]),
                    "shutdown-request-lost" if lostwake and 2 * len(lostwake) == stuck else None, "\n".join(threads))
    if not ended and not probs:
        add("harness produced no end marker", None, err[-1500:])
    # lock leak signatures visible in the trace even when the run ended otherwise well
    # (writer returned with outputMutex held)
    return probs, st, evs


def inclusion(ctx, drv, evs):
    """trace inclusion through the Lean driver -> None or message"""
    mt = model_trace(evs)
    rc, out, err = ctx.run_lines(drv, "\n".join(mt) + "\nend\n", timeout=300)
    if rc != 0:
        return "model driver exit %d: %s" % (rc, err[-300:]), mt
    last = out[-1] if out else ""
    if last.startswith("accept"):
        return None, mt
    return (last or "no verdict from driver"), mt


def run(ctx):
    h = ctx.harness("c13")
    drv = ctx.driver("drv_c13")
    fl = tree_flags(build.REPO)
    base_guards = 2 | 4 | (0 if fl.get("send_state_check") else 1)
    scripts = []     # (name, script, expect)
    if ctx.replay:
        rec = json.load(open(ctx.replay))
        scripts.append(("replay", "\n".join(rec.get("script", [])) + "\n", None))
    else:
        for f in sorted(os.listdir(CORPUS)) if os.path.isdir(CORPUS) else []:
            if f.endswith(".ops"):
                txt = open(os.path.join(CORPUS, f)).read()
                m = re.search(r"^# expect: (\S+)", txt, re.M)
                scripts.append(("corpus/" + f, txt, m.group(1) if m else "ok"))
        # deterministic scenario families (parameter grids; only the scheduler seed / mode is drawn)
        reps = 1 if ctx.tier == "quick" else 6
        for _ in range(reps):
            scripts += fam_stall(ctx.rng, base_guards) + fam_iterhold(ctx.rng, base_guards) + fam_newfb(ctx.rng, base_guards)
            scripts += fam_nonshared(ctx.rng, base_guards) + fam_inflight(ctx.rng, base_guards) + fam_round3(ctx.rng, base_guards)
        n = 2000 if ctx.tier == "quick" else 40000
        for k in range(n):
            r = ctx.rng.random()
            if r < 0.80: scripts.append(("gen", gen_scenario(ctx.rng, base_guards), None))
            elif r < 0.86: scripts.append(("gen-soft", gen_scenario(ctx.rng, base_guards, soft_ok=True), None))
            elif r < 0.93: scripts.append(("gen-unguarded", gen_scenario(ctx.rng, base_guards & 1), None))
            else: scripts.append(("gen-cycles", gen_cycles(ctx.rng, base_guards, ctx.rng.choice([3, 8, 20])), None))

    def one(item):
        name, sc, exp = item
        return run_harness(h, sc)
    results = common.pmap(one, scripts)
    fails, samples, seen = [], [], set()
    dist = {"kinds": collections.Counter(), "modes": collections.Counter(), "listen": collections.Counter(),
            "clients": collections.Counter(), "steps_total": 0, "events_total": 0, "wfail_runs": 0, "wait_runs": 0,
            "ops": collections.Counter(), "outcomes": collections.Counter(), "inclusion_checked": 0, "inclusion_events": 0}
    incl_jobs = []
    for (name, sc, exp), (rc, out, err) in zip(scripts, results):
        probs, st, evs = analyse(sc, rc, out, err)
        dist["kinds"][name.split("/")[0]] += 1; dist["modes"][st["mode"]] += 1; dist["listen"][st["listen"]] += 1
        dist["clients"][st["clients"]] += 1; dist["steps_total"] += st["steps"]; dist["events_total"] += st["events"]
        dist["wfail_runs"] += 1 if st["wfail"] else 0; dist["wait_runs"] += 1 if st["waits"] else 0
        for l in sc.splitlines():
            if l.strip() and not l.startswith("#"): dist["ops"][l.split()[0]] += 1
        if st["clients"] >= 2 and st["waits"] and st["events"] > 150: seen.add(sc)
        if len(samples) < 3 and name.startswith("gen"): samples.append({"script": sc.splitlines(), "result": [l for l in out.splitlines() if l.startswith("res ")][:12]})
        got = sorted({p["finding"] or "VIOLATION" for p in probs})
        dist["outcomes"][",".join(got) if got else "ok"] += 1
        if exp is not None and exp != "ok" and not probs:
            # a witness of a known defect no longer fails: the defect is fixed in this tree
            dist["outcomes"]["witness-now-passes:" + exp] += 1
        for p in probs:
            fails.append({"kind": "oracle", "what": "C13 %s [%s]" % (p["what"], name), "finding": p["finding"],
                          "detail": p["detail"], "script": sc.splitlines(), "impl": [l for l in out.splitlines() if l.startswith("res ")][:40],
                          "trace_tail": evs[-60:]})
        # trace inclusion for every run that ended well; an exited-but-unjoined client thread (known
        # finding) does not make the trace unusable
        if ctx.driver_ok and evs and all(p["finding"] == "client-thread-unjoined" for p in probs) and "# noinclusion" not in sc:
            incl_jobs.append((name, sc, evs))
    # trace inclusion (only traces of runs without a failure: a failing run is already reported)
    if ctx.driver_ok:
        res2 = common.pmap(lambda j: inclusion(ctx, drv, j[2]), incl_jobs)
        for (name, sc, evs), (msg, mt) in zip(incl_jobs, res2):
            dist["inclusion_checked"] += 1; dist["inclusion_events"] += len(mt)
            if msg:
                fails.append({"kind": "exact", "what": "trace inclusion: observed trace is not a path of the model [%s]: %s" % (name, msg),
                              "script": sc.splitlines(), "impl": mt[:4000]})
    real = [f for f in fails if not f.get("finding")]
    for k in list(dist):
        if isinstance(dist[k], collections.Counter): dist[k] = dict(dist[k])
    return {
        "evaluations": len(scripts), "distinct_nontrivial": len(seen),
        "rule": "one evaluation = one seeded schedule of one scenario on the real threaded server; non-trivial = distinct scenario with >=2 clients, at least one condition wait and >150 synchronisation events",
        "samples": samples, "distribution": dist,
        "failures": ([f for f in real if f["kind"] != "exact"][:20] + [f for f in fails if f.get("finding")][:40] +
                     [f for f in real if f["kind"] == "exact"][:3]),
        "partial": PARTIAL, "assumptions": ASSUMPTIONS,
        "trusted_extra": ["deterministic scheduler in harness/c13.c (interposition of pthread_*/select/usleep/read/write): schedules are sampled, not enumerated",
                          "pthread mutex/condvar semantics as modelled (no spurious wake-ups injected)"],
        "correspondence": {"tree_flags": {k: v for k, v in fl.items() if k != "skeleton"}, "guards": base_guards},
    }


PARTIAL = [
    "full deadlock freedom (a reachable state in which no thread can step has only terminated threads) is not proved. Proved: lock order, no lock cycle, `mutex_waits_resolve` (whoever owns a mutex can step or waits for a higher owned mutex: no deadlock that involves mutexes only, no mutex left locked by an ended / sleeping thread), `waiters_hold_nothing`, `shutdown_wakeup_not_lost` + `output_join_cannot_hang` (clientInput's join of its output thread). Not proved: that the waits on deleteCond (rfbClientConnectionGone waiting for references) and the joins inside rfbShutdownServer are always eventually satisfied; lost wake-ups there are searched for by the scheduler's deadlock / hang detection on the explored schedules only",
    "shutdown_terminates / threads_reclaimed: not proved in Lean; the join structure (app joins listener and input threads, input joins output) is part of the model and checked by trace inclusion; unjoined client threads are a known finding",
    "the theorems are about the model's schedules; the real code is tied by the T0 skeleton and by trace inclusion over the sampled schedules only (deterministic scheduler preempts at synchronisation/IO calls, not between plain loads and stores)",
    "data-dependent behaviour (what rfbSendFramebufferUpdate sends, whether a client ends up with the right picture, e.g. a missing TSIGNAL after rfbNewFramebuffer) is outside the Lean model; it is covered by the final-picture oracle of the harness",
]
ASSUMPTIONS = [
    "application thread calls rfbShutdownServer then rfbScreenCleanup itself (not from a client callback)",
    "no TLS / WebSocket / file transfer / UDP / HTTP in the threaded workload",
    "data races on plain fields are outside the model except where a field is read as a guard (sock, state): those reads are separate model steps",
]

META = {
    "technique": "Lean 4 interleaving model of the threaded server + inductive invariants over all schedules; T0 synchronisation skeleton; real threaded code under a deterministic seeded scheduler with event-trace inclusion in the model and model-independent oracles",
    "level_text": "Proof: lean/VncModel/Threads is an interleaving transition system of the application, listener and per-client input/output threads with atomic steps at every LOCK/UNLOCK/WAIT/TSIGNAL/iterator/free/join point; Props/C13.lean proves, by inductive invariants over all schedules and any number of clients: no use-after-free and no double free (life-cycle invariant: referenced => linked => allocated, free only unlinked + unreferenced + output thread joined), exact reference counts, client-gone hook at most once / exactly once before the record is freed, exact mutex ownership per program counter, lock-order acyclicity, no lock cycle, every mutex wait resolves (owner can run or waits for a higher mutex), waiters hold nothing, the shutdown wake-up of the output thread is never lost. Tied to the code on every run by the regenerated synchronisation skeleton (decide) and by running the real threaded server under a deterministic scheduler whose event traces are replayed through the model (trace inclusion), plus direct oracles (deadlock/hang, ASan, hook counts, final pictures, thread reclamation).",
    "level_note": "Trusted: Lean kernel; harness scheduler/interposers; pthread semantics as modelled; schedules are sampled (seeded PCT/random), not enumerated. The theorems are about the model's schedules; real-schedule exploration validates the model. Not modelled: TLS/WebSocket/file-transfer threads, rfbProcessEvents mode, client-callback-initiated shutdown.",
    "design_ref": "DESIGN.md section 7, C13",
}
