"""C05 — password-protected screens admit exactly the clients that prove the password.

Proof: lean/VncModel/Props/C05.lean over the process model lean/VncModel/Auth/Model.lean (all
interleaved traces of any number of connections on any screens; `enc`, the password-file decoder and
the version parser are parameters) + lean/VncModel/Des (executable FIPS 46-3 DES, the VNC key rule).
Tie: (1) correspondence run harness/c05.c (real server, several screens/connections in one process,
challenge source interposed so that scripts are deterministic) vs Driver/C05.lean: every byte the
server writes, state, open/closed, viewOnly after every op; (2) DES stream: encrypt_rfbdes /
decrypt_rfbdes / rfbEncryptBytes / rfbEncryptAndStorePasswd / rfbDecryptPasswdFromFile of the
compiled back-end vs the Lean DES, plus OpenSSL's DES as a third party; (3) a direct oracle in the
property's words, which computes the expected responses with OpenSSL (never with the code under
test, never with the model).
"""
import ctypes, ctypes.util, json, os, re, glob
from .. import common, build

PROPS_MOD = "VncModel.Props.C05"
EXTRA_TARGETS = ["drv_c05"]

FIXEDKEY = bytes([23, 82, 107, 6, 35, 78, 88, 7])     # the VNC password-file key (vncauth.c)
SI_NAME = b"LibVNCServer"
REASON_FAIL = b"password check failed!"

# ------------------------------------------------------------------ reference DES (OpenSSL)
_crypto = ctypes.CDLL(ctypes.util.find_library("crypto") or "libcrypto.so.3")


def _rev(b):
    return int("{:08b}".format(b)[::-1], 2)


def des_blocks(key8, data, enc=True):
    ks = ctypes.create_string_buffer(128)
    _crypto.DES_set_key_unchecked(bytes(key8), ks)
    out = b""
    for i in range(0, len(data) - len(data) % 8, 8):
        o = ctypes.create_string_buffer(8)
        _crypto.DES_ecb_encrypt(bytes(data[i:i + 8]), o, ks, 1 if enc else 0)
        out += o.raw
    return out


def vnc_key(pw):
    return bytes(_rev(b) for b in (bytes(pw) + b"\0" * 8)[:8])


def vnc_response(pw, chal):
    """VNC authentication: DES-ECB of the challenge under the bit-reversed first 8 password bytes"""
    return des_blocks(vnc_key(pw), chal)


def file_content(pw):
    return des_blocks(bytes(_rev(b) for b in FIXEDKEY), (bytes(pw) + b"\0" * 8)[:8])


def file_password(content):
    if content is None or len(content) < 8:
        return None
    p = des_blocks(bytes(_rev(b) for b in FIXEDKEY), content[:8], enc=False)
    return p.split(b"\0")[0]


def hx(b):
    return bytes(b).hex() if len(b) else "-"


def unhx(s):
    return b"" if s == "-" else bytes.fromhex(s)


def server_init(sid):
    w = 16 + sid
    return (bytes([w >> 8, w & 255, 0, 8, 32, 32, 0, 0xff, 0, 255, 0, 255, 0, 255, 0, 8, 16, 0, 0, 0])
            + len(SI_NAME).to_bytes(4, "big") + SI_NAME)


# ------------------------------------------------------------------ weak keys
def refused_keys():
    p = os.path.join(common.LEAN, "VncModel", "Gen", "C05.lean")
    txt = open(p).read()
    m = re.search(r"def gcryRefusedKeys[^\n]*:= \[(.*?)\]\]", txt, re.S)
    if not m:
        return [bytes(8)]
    return [bytes(int(x) for x in row.split(",")) for row in re.findall(r"\[([0-9, ]+)", m.group(1) + "]")]


def weak_password(rng, key):
    """a C string whose VNC key is `key` up to parity bits (parity bit = top bit of the password byte)"""
    pw = bytearray(_rev(b) for b in key)
    for i in range(8):
        if rng.random() < 0.3:
            pw[i] ^= 0x80
        if pw[i] == 0:
            pw[i] = 0x80
    while pw and pw[-1] == 0x80 and rng.random() < 0.5:      # trailing zero key bytes: shorter password
        pw.pop()
    return bytes(pw)


# ------------------------------------------------------------------ generator
VERSIONS_STD = [b"RFB 003.003\n", b"RFB 003.007\n", b"RFB 003.008\n", b"RFB 003.889\n"]
VERSIONS_ODD = [b"RFB 003.005\n", b"RFB 003.006\n", b"RFB 003.004\n", b"RFB 003.014\n", b"RFB 003.016\n",
                b"RFB 003.000\n", b"RFB 003.009\n", b"RFB 003.999\n", b"RFB 003.888\n", b"RFB 003.890\n",
                b"RFB   3.  8\n", b"RFB 3.8\n\n\n\n\n", b"RFB 003.-01\n", b"RFB +03.+07\n", b"RFB 003.8\0\0\0",
                b"RFB 003.00a\n", b"RFB 3.1234\n\n", b"RFB 003.-00\n", b"RFB 003. -8\n", b"RFB 3.7\n\n\n\n\n",
                b"RFB 3.889 \n\n", b"RFB 003.7  \n"]
VERSIONS_BAD = [b"RFB 004.000\n", b"RFB 002.008\n", b"RFB 000.000\n", b"RFB 0003.08\n", b"RFB 003,008\n",
                b"RFB 003.   \n", b"RFB -03.008\n", b"RFB 003.+ 8\n", b"RFB xyz.008\n", b"RFB 003\n008\n",
                b"RFB \0 3.008\n"]
SECTYPES = [0, 1, 2, 5, 16, 18, 19, 30, 255, 3, 22]


def rand_pw(rng):
    r = rng.random()
    if r < 0.08:
        return b""
    if r < 0.75:
        n = rng.choice([1, 2, 3, 5, 6, 7, 8, 8, 8])
    else:
        n = rng.choice([9, 10, 12, 16])
    if rng.random() < 0.15:
        return bytes(rng.randint(1, 255) for _ in range(n))
    return bytes(rng.choice(b"abcdefghijklmnopqrstuvwxyzABCDEFXYZ0123456789!#_-. ") for _ in range(n))


def gen_screens(rng, weak):
    """-> list of dicts(kind, pws, fvo, content)"""
    n = rng.choice([1, 2, 2, 3, 3])
    scr = []
    for sid in range(n):
        r = rng.random()
        if r < 0.22 and sid > 0 or (sid == n - 1 and n > 1 and all(s["kind"] != "none" for s in scr) and r < 0.6):
            scr.append({"kind": "none"})
        elif r < 0.80:
            k = rng.choice([1, 1, 2, 2, 3, 4])
            pws = []
            for _ in range(k):
                q = rng.random()
                if q < 0.2:
                    pws.append(weak_password(rng, rng.choice(weak)))
                elif q < 0.3 and pws:
                    b = bytearray((pws[-1] + b"\0" * 8)[:8])          # same key up to parity bits / tail
                    b = bytearray(x if x else 0x80 for x in b)
                    b[rng.randrange(8)] ^= 0x80
                    pws.append(bytes(x if x else 0x80 for x in b) + rng.choice([b"", b"tail"]))
                else:
                    pws.append(rand_pw(rng))
            if rng.random() < 0.04:
                pws = []
            fvo = rng.choice([0, 1, 1, 1, 2, k - 1, k, k + 1, -1, 1])
            scr.append({"kind": "list", "pws": pws, "fvo": fvo})
        else:
            q = rng.random()
            if q < 0.08:
                scr.append({"kind": "file", "content": None, "pw": None})
            elif q < 0.16:
                c = bytes(rng.randint(0, 255) for _ in range(rng.choice([0, 3, 7])))
                scr.append({"kind": "file", "content": c, "pw": None})
            else:
                pw = weak_password(rng, rng.choice(weak)) if rng.random() < 0.2 else rand_pw(rng)
                c = file_content(pw) + (b"" if rng.random() < 0.9 else b"extra")
                scr.append({"kind": "file", "content": c, "pw": file_password(c)})
    if all(s["kind"] == "none" for s in scr):
        scr[0] = {"kind": "list", "pws": [rand_pw(rng)], "fvo": 1}
    return scr


def screen_pws(s):
    if s["kind"] == "list":
        return list(s["pws"])
    if s["kind"] == "file" and s.get("pw") is not None:
        return [s["pw"]]
    return []


def screen_line(sid, s):
    si = hx(server_init(sid))
    if s["kind"] == "none":
        return "screen %d none %s" % (sid, si)
    if s["kind"] == "list":
        return "screen %d list %d %s%s" % (sid, s["fvo"], si, "".join(" " + hx(p) for p in s["pws"]))
    return "screen %d file %s %s" % (sid, si, "missing" if s["content"] is None else hx(s["content"]))


def gen_response(rng, scr, sid, chal, others):
    """-> (tag, 16 bytes)"""
    pws = screen_pws(scr[sid])
    r = rng.random()
    if pws and r < 0.45:
        i = rng.randrange(len(pws))
        return "correct", vnc_response(pws[i], chal)
    if pws and r < 0.62:
        i = rng.randrange(len(pws))
        b = bytearray(vnc_response(pws[i], chal))
        bit = rng.choice([0, 7, 63, 64, 65, 100, 127, rng.randrange(128), 64 + rng.randrange(64)])
        b[bit // 8] ^= 1 << (bit % 8)
        return "flipbit", bytes(b)
    if r < 0.70:
        return "echo", bytes(chal)
    if r < 0.75:
        return "zeros", bytes(16)
    if r < 0.85:
        op = [p for j, s in enumerate(scr) if j != sid for p in screen_pws(s)]
        if op:
            return "otherscreen", vnc_response(rng.choice(op), chal)
    if r < 0.90 and others and pws:
        return "otherchal", vnc_response(rng.choice(pws), rng.choice(others))
    if r < 0.94 and pws:
        c = vnc_response(rng.choice(pws), chal)
        return "halfright", c[:8] + bytes(rng.randint(0, 255) for _ in range(8))
    if r < 0.97 and pws:
        return "unreversed", des_blocks((rng.choice(pws) + b"\0" * 8)[:8], chal)
    return "random", bytes(rng.randint(0, 255) for _ in range(16))


def gen_tight_client(rng, scr, sid, rev, chal, others, ver):
    """a client that chooses security type 16 (TightVNC): everything from the type byte to the response
    is one message, because the server reads it synchronously inside one rfbProcessClientMessage"""
    haspw = scr[sid]["kind"] != "none"
    tags = ["tight-client"]
    needauth = haspw and not rev
    r = rng.random()
    if not needauth:
        body = b"\x10" + (b"" if r < 0.7 else (2).to_bytes(4, "big"))
    elif r < 0.55:
        t, resp = gen_response(rng, scr, sid, chal, others)
        tags.append("tight-resp-" + t)
        body = b"\x10" + (2).to_bytes(4, "big") + resp
    elif r < 0.75:                                  # asks for "no authentication" inside the Tight negotiation
        a = rng.choice([1, 1, 0, 16, 3, 0x02000000, rng.randrange(2 ** 32)])
        tags.append("tight-authtype-other")
        body = b"\x10" + a.to_bytes(4, "big") + gen_response(rng, scr, sid, chal, others)[1]
    elif r < 0.9:                                   # short: the synchronous read runs into the time-out (100 ms)
        full = b"\x10" + (2).to_bytes(4, "big") + gen_response(rng, scr, sid, chal, others)[1]
        body = full[:rng.choice([1, 3, 5, 12, 20])]
        tags.append("tight-short")
    else:
        body = b"\x10" + bytes(rng.randint(0, 255) for _ in range(rng.choice([4, 20, 21])))
        tags.append("tight-garbage")
    msgs = [ver, body, bytes([rng.choice([0, 1])])]
    if rng.random() < 0.15:
        msgs = [ver + body] + msgs[2:]
    elif rng.random() < 0.1:
        msgs = [ver + body + msgs[2]]
    return msgs, tags


def gen_client(rng, scr, sid, rev, chal, others, tight=False):
    """the chunks one client writes, in order -> (list of bytes, tags)"""
    tags = []
    if tight and rng.random() < 0.5:
        ver = rng.choice([b"RFB 003.007\n", b"RFB 003.008\n", b"RFB 003.008\n", b"RFB 003.889\n", b"RFB 003.014\n"])
        return gen_tight_client(rng, scr, sid, rev, chal, others, ver)
    r = rng.random()
    if r < 0.70:
        ver = rng.choice(VERSIONS_STD)
        tags.append("ver-std")
    elif r < 0.90:
        ver = rng.choice(VERSIONS_ODD)
        tags.append("ver-odd")
    else:
        ver = rng.choice(VERSIONS_BAD)
        tags.append("ver-bad")
    haspw = scr[sid]["kind"] != "none"
    msgs = [ver]
    q = rng.random()
    if q < 0.55:                                   # plays by the rules of what is offered
        old = ver[:11] in (b"RFB 003.003", b"RFB 003.005", b"RFB 003.006", b"RFB 003.004", b"RFB 003.000") \
              or ver in (b"RFB 003.-01\n", b"RFB 003.00a\n", b"RFB 003.-00\n", b"RFB 003. -8\n")
        needauth = haspw and not rev
        if not old:
            msgs.append(bytes([2 if needauth else 1]))
        if needauth:
            t, resp = gen_response(rng, scr, sid, chal, others)
            tags.append("resp-" + t)
            msgs.append(resp)
        msgs.append(bytes([rng.choice([0, 1, 1, 7])]))
        tags.append("honest-order")
    elif q < 0.85:                                 # picks a type of its own, then carries on as if accepted
        t = rng.choice(SECTYPES + [1, 1, 1, 2, rng.randrange(256)])
        msgs.append(bytes([t]))
        tags.append("type-%d" % t if t in (0, 1, 2) else "type-other")
        if rng.random() < 0.5:
            tg, resp = gen_response(rng, scr, sid, chal, others)
            tags.append("resp-" + tg)
            msgs.append(resp)
        msgs.append(bytes([rng.choice([0, 1])]))
        if rng.random() < 0.3:
            msgs.append(bytes(rng.randint(0, 255) for _ in range(rng.choice([1, 4, 16]))))
    else:                                          # wrong order / garbage
        tags.append("disorder")
        k = rng.choice([1, 2, 3])
        for _ in range(k):
            c = rng.random()
            if c < 0.3:
                msgs.append(bytes([rng.choice([0, 1, 2])]))
            elif c < 0.6:
                msgs.append(gen_response(rng, scr, sid, chal, others)[1])
            elif c < 0.8:
                msgs.append(rng.choice(VERSIONS_STD))
            else:
                msgs.append(bytes(rng.randint(0, 255) for _ in range(rng.choice([1, 2, 12, 16, 17]))))
    if rng.random() < 0.10 and len(msgs) > 1:        # the client gives up early
        msgs = msgs[:rng.randrange(1, len(msgs))]
        tags.append("gives-up")
    # re-chunk: merge neighbours / split messages
    stream = b"".join(msgs)
    if "gives-up" in tags and rng.random() < 0.5 and len(stream) > 5:   # ... in the middle of a message
        stream = stream[:rng.randrange(4, len(stream))]
        msgs = [stream]
    c = rng.random()
    if c < 0.55:
        chunks = msgs
    elif c < 0.70:
        chunks = [stream]
    elif c < 0.85:
        chunks = [msgs[0] + b"".join(msgs[1:2])] + msgs[2:]
    else:
        cuts = sorted(set(rng.randrange(4, len(stream) + 1) for _ in range(rng.choice([1, 2, 4]))))
        chunks, a = [], 0
        for x in cuts + [len(stream)]:
            if x > a:
                chunks.append(stream[a:x])
                a = x
        tags.append("split")
    return [ch for ch in chunks if ch], tags


def gen_script(rng, weak, nconn=None):
    scr = gen_screens(rng, weak)
    lines = [screen_line(i, s) for i, s in enumerate(scr)]
    n = nconn or rng.choice([1, 2, 2, 3, 3, 4, 4])
    chals, conns, tags = [], [], []
    if rng.random() < 0.04:                       # the crypto back-end cannot provide DES at all
        lines.append("cryptofail 1")
        tags.append("cryptofail")
    # registered security handlers: the TightVNC extension (type 16) and application handlers
    use_tight = rng.random() < 0.35
    exts = []
    if rng.random() < 0.2:
        exts = rng.sample([5, 30, 1, 2, 16, 18, 77, 255], rng.choice([1, 1, 2]))
    regs = (["tight 1"] if use_tight else []) + ["ext %d" % t for t in exts]
    rng.shuffle(regs)
    lines += regs
    if regs:
        tags.append("registered-handlers")
    for cid in range(n):
        ch = bytes(rng.randint(0, 255) for _ in range(16))
        if rng.random() < 0.05:
            ch = bytes(16)
        chals.append(ch)
    pwsids = [i for i, s in enumerate(scr) if s["kind"] != "none"]
    for cid in range(n):
        sid = rng.choice(pwsids) if (rng.random() < 0.6 or cid == 0) else rng.randrange(len(scr))
        rev = 1 if rng.random() < 0.15 else 0
        chunks, tg = gen_client(rng, scr, sid, rev, chals[cid], [c for j, c in enumerate(chals) if j != cid],
                                tight=use_tight)
        real = bool(rev) and rng.random() < 0.6      # through the REAL rfbReverseConnection (loopback TCP)
        conns.append({"cid": cid, "sid": sid, "rev": rev, "chunks": chunks, "started": False, "real": real,
                      "abrupt": rng.choice([1, 1, 2, 3]) if (rng.random() < 0.10 and not real) else 0})
        tags += tg
        if rev:
            tags.append("reverse")
    pending = [c for c in conns]
    cur = None
    slow = rng.random() < 0.05
    tstate = use_tight
    while pending:
        if regs and rng.random() < 0.05:             # the application (un)registers a handler at run time
            if use_tight and rng.random() < 0.6:
                tstate = not tstate
                lines.append("tight %d" % (1 if tstate else 0))
            elif exts:
                t = rng.choice(exts)
                lines.append(rng.choice(["unext %d", "ext %d"]) % t)     # may be a bad-op: fine
            tags.append("runtime-registration")
        c = rng.choice(pending)
        if cur != chals[c["cid"]]:
            cur = chals[c["cid"]]
            lines.append("rand " + hx(cur))
        if not c["started"]:
            c["started"] = True
            first = c["chunks"][0]
            if rng.random() < 0.30:
                # the application tries a reverse connection (on any screen) and nobody listens there: this
                # must have no effect whatsoever on the connections that follow
                for _ in range(rng.choice([1, 1, 2])):
                    lines.append("rconn 63 %d %d -" % (rng.randrange(len(scr)), rng.choice([0, 0, 2])))
                tags.append("reverse-failed")
            op = "rconn" if c["real"] else "conn"
            mode = 1 if c["real"] else c["rev"]
            if c["real"]:
                tags.append("reverse-real")
            if slow and rng.random() < 0.5 or len(first) < 4 or first[:4] != b"RFB " or len(first) > 64:
                lines.append("%s %d %d %d -" % (op, c["cid"], c["sid"], mode))
                tags.append("slow-conn")
            else:
                c["chunks"].pop(0)
                lines.append("%s %d %d %d %s" % (op, c["cid"], c["sid"], mode, hx(first)))
        elif c["chunks"]:
            ch = c["chunks"].pop(0)
            if c.get("abrupt") and len(c["chunks"]) < c["abrupt"]:
                # the peer writes its last message(s) and closes at once: the server still finds the bytes
                # but every write to the peer fails (rfbWriteExact < 0 branches)
                lines.append("sendnp %d %s" % (c["cid"], hx(ch)))
                tags.append("abrupt")
            elif rng.random() < 0.06 and c["chunks"] and not c["real"]:
                lines.append("sendnp %d %s" % (c["cid"], hx(ch)))
                tags.append("sendnp")
            else:
                lines.append("send %d %s" % (c["cid"], hx(ch)))
        if not c["chunks"]:
            pending.remove(c)
            e = rng.random()
            if c.get("abrupt") or e < 0.10:
                lines.append("close %d" % c["cid"])
                tags.append("close")
                for _ in range(rng.choice([0, 1, 2, 3, 3])):     # cheap: reads on a closed peer return at once
                    lines.append("proc %d" % c["cid"])
            elif e < 0.5 and slow:
                lines.append("proc %d" % c["cid"])
                tags.append("proc-timeout")
        if rng.random() < 0.08:
            lines.append("state")
    lines.append("state")
    return "\n".join(lines) + "\n", tags


def gen_bypass_template(rng, weak):
    """the interleavings behind DESIGN 11-c, with random variations: X on a password screen, then Y on
    a password-less screen or as a reverse connection (so the global list changes), then X chooses."""
    pw = [rand_pw(rng) or b"x" for _ in range(rng.choice([1, 2]))]
    scr = [{"kind": "list", "pws": pw, "fvo": rng.choice([0, 1, 2])}]
    if rng.random() < 0.6:
        scr.append({"kind": "none"})
    else:
        scr.append({"kind": "list", "pws": [rand_pw(rng)], "fvo": 1})
    lines = [screen_line(i, s) for i, s in enumerate(scr)]
    chx = bytes(rng.randint(0, 255) for _ in range(16))
    vx = rng.choice([b"RFB 003.007\n", b"RFB 003.008\n", b"RFB 003.889\n"])
    vy = rng.choice(VERSIONS_STD[1:])
    yrev = 0 if scr[1]["kind"] == "none" else 1
    lines += ["rand " + hx(chx), "conn 0 0 0 " + hx(vx), "conn 1 1 %d %s" % (yrev, hx(vy))]
    tags = ["template-bypass"]
    k = rng.random()
    if k < 0.4:                      # the attack
        lines += ["send 0 01", "send 0 01"]
        tags.append("type-1")
    elif k < 0.8:                    # the honest client that was overtaken by Y
        resp = vnc_response(pw[rng.randrange(len(pw))], chx)
        lines += ["send 0 02", "send 0 " + hx(resp), "send 0 01"]
        tags += ["type-2", "resp-correct"]
    else:
        lines += ["send 1 01", "send 0 01" + hx(chx), "send 0 00"]
        tags.append("type-1")
    lines.append("state")
    return "\n".join(lines) + "\n", tags


def gen_reverse_template(rng, weak):
    """reverse-connection attempts of the application (failing: nobody listens; succeeding: the real
    rfbReverseConnection to a loopback listener), on the password screen or another one, followed by
    inbound viewers of a password screen who try to get in without the proof"""
    pw = [rand_pw(rng) or b"x" for _ in range(rng.choice([1, 2]))]
    scr = [{"kind": rng.choice(["list", "list", "file"]), "pws": pw[:1], "fvo": 1, "content": file_content(pw[0]),
            "pw": file_password(file_content(pw[0]))}]
    scr.append(rng.choice([{"kind": "none"}, {"kind": "list", "pws": [rand_pw(rng) or b"y"], "fvo": 1}]))
    lines = [screen_line(i, s) for i, s in enumerate(scr)]
    tags = ["template-reverse"]
    cid = 0
    for _ in range(rng.choice([1, 2, 3])):
        ch = bytes(rng.randint(0, 255) for _ in range(16))
        lines.append("rand " + hx(ch))
        k = rng.random()
        if k < 0.65:
            lines.append("rconn 63 %d %d -" % (rng.randrange(2), rng.choice([0, 0, 2])))
            tags.append("reverse-failed")
        else:
            v = rng.choice(VERSIONS_STD)
            lines.append("rconn %d %d 1 %s" % (cid, rng.randrange(2), hx(v)))
            if v != VERSIONS_STD[0]:
                lines.append("send %d 01" % cid)
            lines.append("send %d 01" % cid)
            tags.append("reverse-real")
            cid += 1
        # the inbound viewer of a password screen
        sid = 0 if (scr[1]["kind"] == "none" or rng.random() < 0.7) else 1
        v = rng.choice(VERSIONS_STD + [b"RFB 003.005\n"])
        lines.append("conn %d %d 0 %s" % (cid, sid, hx(v)))
        q = rng.random()
        if q < 0.6:                                       # tries to walk in
            if v[:11] not in (b"RFB 003.003", b"RFB 003.005"):
                lines.append("send %d 01" % cid)
            lines.append("send %d %02x" % (cid, rng.choice([0, 1])))
            tags.append("type-1")
        else:                                             # proves the password
            p = scr[sid]["pws"][0] if scr[sid]["kind"] == "list" else scr[sid]["pw"]
            if v[:11] not in (b"RFB 003.003", b"RFB 003.005"):
                lines.append("send %d 02" % cid)
            lines += ["send %d %s" % (cid, hx(vnc_response(p, ch))), "send %d 01" % cid]
            tags.append("resp-correct")
        cid += 1
    lines.append("state")
    return "\n".join(lines) + "\n", tags


def gen_registry_template(rng, weak):
    """the application registers, re-registers and unregisters security handlers (its own, incl. one of type
    1 = "None", and the TightVNC extension) in random order - head, middle, tail, already linked, not
    registered - while viewers connect and choose among those types"""
    pw = rand_pw(rng) or b"x"
    scr = [{"kind": "list", "pws": [pw], "fvo": 1}, {"kind": "none"}]
    lines = [screen_line(i, s) for i, s in enumerate(scr)]
    pool = rng.sample([1, 2, 5, 30, 77, 200, 255], rng.choice([2, 3, 4]))
    tight = False
    reg = []
    cid = 0
    tags = ["template-registry"]
    ch = bytes(rng.randint(0, 255) for _ in range(16))
    lines.append("rand " + hx(ch))
    for _ in range(rng.choice([6, 9, 12, 16])):
        k = rng.random()
        if k < 0.18:
            tight = not tight
            lines.append("tight %d" % (1 if tight else 0))
        elif k < 0.45:
            t = rng.choice(pool)
            lines.append("ext %d" % t)
            if t not in reg:
                reg.insert(0, t)
        elif k < 0.70:
            t = rng.choice(reg) if (reg and rng.random() < 0.8) else rng.choice(pool)
            lines.append("unext %d" % t)
            if t in reg:
                reg.remove(t)
        else:
            sid = rng.choice([0, 0, 1])
            v = rng.choice([b"RFB 003.007\n", b"RFB 003.008\n"])
            lines.append("conn %d %d 0 %s" % (cid, sid, hx(v)))
            c = rng.random()
            if c < 0.5:
                t = rng.choice(pool + [16])
                lines.append("send %d %02x" % (cid, t))
            elif c < 0.7 and sid == 0:
                lines += ["send %d 02" % cid, "send %d %s" % (cid, hx(vnc_response(pw, ch))), "send %d 01" % cid]
            elif c < 0.85:
                lines.append("send %d 10000000%02x%s01" % (cid, rng.choice([2, 2, 1]), hx(vnc_response(pw, ch))))
            cid += 1
    lines.append("conn %d 0 0 %s" % (cid, hx(b"RFB 003.008\n")))
    lines.append("send %d %02x" % (cid, rng.choice(pool + [16])))
    lines.append("state")
    return "\n".join(lines) + "\n", tags


def gen_brute(rng, weak):
    """many failed attempts in one process, then more attempts (catches 'accept after N failures')"""
    pw = rand_pw(rng) or b"pw"
    scr = [{"kind": rng.choice(["list", "file"]), "pws": [pw], "fvo": 1, "content": file_content(pw),
            "pw": file_password(file_content(pw))}]
    lines = [screen_line(0, scr[0])]
    n = rng.choice([5, 7, 9, 12])
    for cid in range(n):
        ch = bytes(rng.randint(0, 255) for _ in range(16))
        ver = rng.choice(VERSIONS_STD[:3])
        t, resp = gen_response(rng, scr, 0, ch, [])
        if cid < n - 1 and t == "correct":
            resp = bytes(16)
        lines += ["rand " + hx(ch), "conn %d 0 0 %s" % (cid, hx(ver))]
        if ver != VERSIONS_STD[0]:
            lines.append("send %d 02" % cid)
        lines += ["send %d %s" % (cid, hx(resp)), "send %d 01" % cid]
    lines.append("state")
    return "\n".join(lines) + "\n", ["template-brute"]


# ------------------------------------------------------------------ direct oracle
def parse_obs(line):
    m = re.match(r"c(\d+) (\w+) (open|closed) vo=(\d) out=(\S+)(?: caps=\d+)?$", line)
    if not m:
        return None
    return int(m.group(1)), m.group(2), m.group(3), int(m.group(4)), unhx(m.group(5))


TIGHT_CAP_VNC = (2).to_bytes(4, "big") + b"STDV" + b"VNCAUTH_"


def split_server_stream(out, si):
    """wire-format view of what the server wrote: -> dict(form, offered, challenge, result, si) or None.
    form: "3.3" (32-bit type), "3.7" (type list), "tight" (type list, then the TightVNC tunnelling and
    authentication capability messages)."""
    d = {"form": None, "offered": [], "challenge": None, "result": None, "si": False, "tight_nauth": None}
    if len(out) < 12:
        return d
    rest = out[12:]
    if not rest:
        return d
    if rest[:4] in (b"\0\0\0\1", b"\0\0\0\2"):
        d["form"] = "3.3"
        rest = rest[4:]
    else:
        cnt = rest[0]
        d["form"] = "3.7"
        d["offered"] = list(rest[1:1 + cnt])
        rest = rest[1 + cnt:]
        if cnt == 0:
            return d
        # TightVNC negotiation on a connection that has to authenticate: no tunnelling, exactly one auth
        # type, VNC.  (A connection that must authenticate and is told "no auth types" is not recognised
        # here; if it is admitted the oracle finds no challenge and reports it.)
        # (16 need not be in the list this client was offered: the application may have registered the
        # extension after the list was sent.)
        if rest[:24] == bytes(7) + b"\1" + TIGHT_CAP_VNC:
            d["form"] = "tight"
            d["tight_nauth"] = 1
            rest = rest[24:]
    if rest.endswith(si):
        d["si"] = True
        rest = rest[:-len(si)]
    tail = (1).to_bytes(4, "big") + len(REASON_FAIL).to_bytes(4, "big") + REASON_FAIL
    if len(rest) == 0:
        pass
    elif len(rest) == 4:
        d["result"] = int.from_bytes(rest, "big")
    elif len(rest) == 16:
        d["challenge"] = rest
    elif len(rest) == 20:
        d["challenge"], d["result"] = rest[:16], int.from_bytes(rest[16:], "big")
    elif len(rest) == 16 + len(tail) and rest.endswith(tail):
        d["challenge"], d["result"] = rest[:16], 1
    else:
        return None
    return d


def oracle(script, impl):
    """the property in its own words, on the implementation's observations only.
    -> (verdict or None, stats)"""
    ops = [l for l in script.splitlines() if l and not l.startswith("#")]
    stats = {"admitted_pw": 0, "refused_pw": 0, "viewonly": 0, "unparsed": 0, "complete_checked": 0}
    if len(ops) != len(impl):
        return None, stats        # crash / early exit is reported by the caller
    scr, conns = {}, {}
    cryptofail = False
    reg_ext, reg_tight = set(), False     # handlers registered right now, per the script
    registered = set()
    for op, ob in zip(ops, impl):
        t = op.split()
        if t[0] == "cryptofail" and t[1] == "1":
            cryptofail = True
        if ob == "ok" and t[0] == "ext":
            reg_ext.add(int(t[1]))
        if ob == "ok" and t[0] == "unext":
            reg_ext.discard(int(t[1]))
        if ob == "ok" and t[0] == "tight":
            reg_tight = t[1] == "1"
        registered = set(reg_ext) | ({16} if reg_tight else set())
        if t[0] == "screen" and ob == "ok":
            sid = int(t[1])
            if t[2] == "none":
                scr[sid] = {"kind": "none", "si": unhx(t[3]), "pws": []}
            elif t[2] == "list":
                scr[sid] = {"kind": "list", "fvo": int(t[3]), "si": unhx(t[4]), "pws": [unhx(x) for x in t[5:]]}
            else:
                c = None if t[4] == "missing" else unhx(t[4])
                p = file_password(c)
                scr[sid] = {"kind": "file", "si": unhx(t[3]), "pws": [] if p is None else [p], "fvo": 2}
        elif t[0] in ("conn", "rconn", "send", "sendnp", "proc", "close"):
            if t[0] == "rconn" and ob == "rc-failed":
                continue          # a failed reverse connection: no client record; must change nothing
            o = parse_obs(ob)
            if o is None:
                continue
            cid = o[0]
            if t[0] in ("conn", "rconn"):
                # `conn`: rev=0 an inbound viewer, rev=1 a reverse connection; `rconn` (mode 1): the client
                # record made by a successful rfbReverseConnection.  Only inbound viewers are judged.
                conns[cid] = {"sid": int(t[2]), "rev": 1 if t[0] == "rconn" else int(t[3]), "sent": unhx(t[4]), "out": b"", "states": [],
                              "vo": 0, "disturbed": t[4] == "-", "open": True, "bounds": [len(unhx(t[4]))]}
            c = conns.get(cid)
            if c is None:
                continue
            if t[0] in ("send", "sendnp"):
                c["sent"] += unhx(t[2])
                c["bounds"].append(len(c["sent"]))      # the server looked at its input at these points
            # what was registered when the server sent its type list / read the client's choice
            if "reg_offer" not in c and len(c["sent"]) >= 12 and t[0] != "sendnp":
                c["reg_offer"] = set(registered)
            if "reg_choice" not in c and len(c["sent"]) >= 13 and t[0] != "sendnp":
                c["reg_choice"] = set(registered)
            if t[0] in ("proc", "close", "sendnp"):
                c["disturbed"] = True
            c["out"] += o[4]
            c["states"].append(o[1])
            c["vo"] = o[3]
            c["open"] = o[2] == "open"
    # registered security types: a type without a currently registered handler is never offered and never
    # accepted (any screen, any connection); `ext 16` and the TightVNC extension share type 16
    for cid, c in sorted(conns.items()):
        s = scr.get(c["sid"])
        if s is None or c["disturbed"]:
            continue
        w = split_server_stream(c["out"], s["si"])
        builtin = 2 if (s["kind"] != "none" and not c["rev"]) else 1
        if w is not None and w["form"] in ("3.7", "tight") and "reg_offer" in c and w["offered"]:
            extra = [x for x in w["offered"][1:] if x not in c["reg_offer"]]
            if w["offered"][0] != builtin or extra:
                return ("connection %d on screen %d was offered the security types %s; built-in type %d, registered "
                        "handlers at that moment: %s - a type that is not registered was offered"
                        % (cid, c["sid"], w["offered"], builtin, sorted(c["reg_offer"])), stats)
        if (w is not None or True) and "reg_choice" in c and len(c["out"]) >= 13:
            cnt = c["out"][12]
            listed = 12 + 1 + cnt
            if c["out"][12:16] not in (b"\0\0\0\1", b"\0\0\0\2") and cnt > 0 and len(c["out"]) >= listed:
                chosen = c["sent"][12]
                if chosen != builtin and chosen not in c["reg_choice"]:
                    after = c["out"][listed:]
                    if after or c["open"] or c["states"][-1] != "sec":
                        return ("connection %d on screen %d chose security type %d, which is neither its built-in "
                                "type (%d) nor registered at that moment (%s), and was not simply closed: state %s, "
                                "%s, server wrote %s" % (cid, c["sid"], chosen, builtin, sorted(c["reg_choice"]),
                                                         c["states"][-1], "open" if c["open"] else "closed",
                                                         after.hex()), stats)
    for cid, c in sorted(conns.items()):
        s = scr.get(c["sid"])
        if s is None or s["kind"] == "none" or c["rev"]:
            continue
        w = split_server_stream(c["out"], s["si"])
        if w is None:
            stats["unparsed"] += 1
        admitted = any(x in ("init", "initsh", "normal") for x in c["states"]) or s["si"] in c["out"] or \
            (w is not None and w["result"] == 0)
        resp = None
        if w is not None and w["form"] == "3.3":
            resp = c["sent"][12:28]
        elif w is not None and w["form"] == "3.7":
            resp = c["sent"][13:29]
        elif w is not None and w["form"] == "tight":
            resp = c["sent"][17:33]                     # type byte, 32-bit auth type, response
        chal = w["challenge"] if w is not None else None
        match = None
        if chal is not None and resp is not None and len(resp) == 16:
            for j, pw in enumerate(s["pws"]):
                if vnc_response(pw, chal) == resp:
                    match = j
                    break
        if admitted:
            stats["admitted_pw"] += 1
            if match is None:
                return ("connection %d on password screen %d was admitted (states %s, result %s, ServerInit %s) "
                        "but never sent the DES response of a configured password to its challenge %s "
                        "(it sent %s)" % (cid, c["sid"], ",".join(c["states"]), None if w is None else w["result"],
                                          s["si"] in c["out"], None if chal is None else chal.hex(),
                                          c["sent"].hex()), stats)
            want_vo = 1 if (s["kind"] == "list" and match >= s["fvo"]) else 0
            stats["viewonly"] += want_vo
            if c["vo"] != want_vo:
                return ("connection %d authenticated with password #%d of screen %d (first view-only index %s): "
                        "viewOnly is %d, expected %d" % (cid, match, c["sid"], s.get("fvo"), c["vo"], want_vo), stats)
        else:
            stats["refused_pw"] += 1
        # completeness ("if"): judged by what the CLIENT did (RFB 3.3 handshake for minor < 7, security-type
        # handshake from 3.7 on), not by the form of the server's answer.  Not demanded when the script broke
        # the crypto back-end, nor for disturbed connections (forced reads, writes without processing, close).
        sent = c["sent"]
        mv = re.match(rb"RFB 003\.(\d\d\d)\n", sent[:12])
        minor = int(mv.group(1)) if mv else None
        if not cryptofail and not c["disturbed"] and s["pws"] and minor is not None:
            old = minor < 7
            # (1) every viewer that speaks 3.3..3.6, and every 3.7+ viewer that chooses VNC authentication,
            #     is sent a challenge
            if old or sent[12:13] == b"\2":
                if w is None or w["challenge"] is None:
                    return ("connection %d (RFB 3.%d) %s on password screen %d and was not sent a challenge "
                            "(state %s, server wrote %s)" % (
                                cid, minor, "connected" if old else "chose VNC authentication", c["sid"],
                                c["states"][-1], c["out"].hex()), stats)
            # (2) ... and is admitted when its response is the DES proof (its whole stream being exactly
            #     version [type 2] response ClientInit)
            off = 12 if old else 13
            if (w is not None and w["challenge"] is not None and (old or sent[12:13] == b"\2") and
                    len(sent) == off + 17):
                r2 = sent[off:off + 16]
                m2 = [j for j, pw in enumerate(s["pws"]) if vnc_response(pw, w["challenge"]) == r2]
                if m2:
                    stats["complete_checked"] += 1
                    if not (w["result"] == 0 and w["si"] and c["states"][-1] == "normal" and c["open"]):
                        return ("connection %d (RFB 3.%d) sent the correct response for password #%d of screen %d "
                                "but was not admitted (result %s, ServerInit %s, state %s)" % (
                                    cid, minor, m2[0], c["sid"], w["result"], w["si"], c["states"][-1]), stats)
            # TightVNC: type 16, auth type 2 and the response must be there when the server reads them
            if (minor >= 7 and w is not None and w["form"] == "tight" and match is not None and
                    sent[12:17] == b"\x10\0\0\0\2" and len(sent) == 34 and
                    not any(12 < b < 33 for b in c["bounds"])):
                stats["complete_checked"] += 1
                if not (w["result"] == 0 and w["si"] and c["states"][-1] == "normal" and c["open"]):
                    return ("connection %d sent the correct response for password #%d of screen %d through the "
                            "TightVNC security type but was not admitted (result %s, ServerInit %s, state %s)" % (
                                cid, match, c["sid"], w["result"], w["si"], c["states"][-1]), stats)
    for cid, c in sorted(conns.items()):
        s = scr.get(c["sid"])
        if s is None or s["kind"] == "none" or c["rev"] or c["disturbed"] or not s["pws"]:
            continue
        sent = c["sent"]
        # the same for a registered type: a client that was offered TightVNC (16) and chooses it with VNC
        # authentication inside, all in one write, must get its challenge -- unless the application itself
        # unregistered the extension in between (then the script contains `tight 0`)
        if (sent[:12] in (b"RFB 003.007\n", b"RFB 003.008\n") and sent[12:17] == b"\x10\0\0\0\2" and
                len(sent) >= 33 and not any(12 < b < 33 for b in c["bounds"]) and "tight 0" not in ops):
            w = split_server_stream(c["out"], s["si"])
            if w is not None and 16 in w["offered"] and w["challenge"] is None and \
                    not any(o.startswith("ext 16") for o in ops):
                return ("connection %d was offered security type 16 on password screen %d, chose it with VNC "
                        "authentication, and got no challenge (state %s): a registered handler vanished"
                        % (cid, c["sid"], c["states"][-1]), stats)
    return None, stats


# ------------------------------------------------------------------ DES stream
def gen_des_script(rng, weak, n):
    lines = []
    for k in weak:                                  # every refused key class, with and without parity bits
        for par in (0, 1):
            key = bytes(k) if par == 0 else bytes(b | rng.randint(0, 1) for b in k)
            munged = bytes(_rev(b) for b in key)     # encrypt_rfbdes reverses: pass the reversed key
            blk = bytes(rng.randint(0, 255) for _ in range(rng.choice([8, 16])))
            lines.append("des %s %s" % (hx(munged), hx(blk)))
            lines.append("undes %s %s" % (hx(munged), hx(blk)))
            lines.append("refdes %s %s" % (hx(key), hx(blk)))
            pw = weak_password(rng, k)
            lines.append("encb %s %s" % (hx(pw), hx(bytes(rng.randint(0, 255) for _ in range(16)))))
    for ln in range(0, 10):                         # passwords of length 0..9 (and a few longer)
        for _ in range(6):
            pw = bytes(rng.randint(1, 255) for _ in range(ln))
            ch = bytes(rng.randint(0, 255) for _ in range(16))
            lines.append("encb %s %s" % (hx(pw), hx(ch)))
            lines.append("store %s" % hx(pw))
            lines.append("load %s" % hx(file_content(pw)))
    for _ in range(12):
        lines.append("load %s" % hx(bytes(rng.randint(0, 255) for _ in range(rng.choice([0, 1, 7, 8, 8, 9, 20])))))
    for _ in range(n):
        key = bytes(rng.randint(0, 255) for _ in range(8))
        blk = bytes(rng.randint(0, 255) for _ in range(rng.choice([8, 8, 16])))
        r = rng.random()
        if r < 0.5:
            lines.append("des %s %s" % (hx(key), hx(blk)))
        elif r < 0.7:
            lines.append("undes %s %s" % (hx(key), hx(blk)))
        elif r < 0.85:
            lines.append("refdes %s %s" % (hx(key), hx(blk)))
        else:
            pw = rand_pw(rng)
            lines.append("encb %s %s" % (hx(pw), hx((blk + blk)[:16])))
    return "\n".join(lines) + "\n"


def des_oracle(script, impl):
    """the compiled back-end against OpenSSL (no model involved)"""
    ops = [l for l in script.splitlines() if l and not l.startswith("#")]
    if len(ops) != len(impl):
        return None
    cf = False
    for op, ob in zip(ops, impl):
        t = op.split()
        if t[0] == "cryptofail":
            cf = t[1] == "1"
            continue
        if cf:
            # the back-end cannot encrypt: nothing may come out as if it had, and above all the password
            # file must not be written with the plaintext
            if t[0] == "store" and ob != "store-failed nofile":
                return ("%s with a failing crypto back-end -> %s (padded plaintext: %s); expected failure "
                        "without a file" % (op, ob, hx((unhx(t[1]) + bytes(8))[:8])))
            if t[0] == "load" and ob != "null":
                return "%s with a failing crypto back-end -> %s, expected null" % (op, ob)
            continue
        if t[0] == "des":
            want = "1 " + hx(des_blocks(bytes(_rev(b) for b in unhx(t[1])), unhx(t[2])))
        elif t[0] == "undes":
            want = "1 " + hx(des_blocks(bytes(_rev(b) for b in unhx(t[1])), unhx(t[2]), enc=False))
        elif t[0] == "refdes":
            want = hx(des_blocks(unhx(t[1]), unhx(t[2])))
        elif t[0] == "encb":
            want = hx(vnc_response(unhx(t[1]), unhx(t[2])))
        elif t[0] == "store":
            want = hx(file_content(unhx(t[1])))
        elif t[0] == "load":
            p = file_password(unhx(t[1]))
            want = "null" if p is None else hx(p)
        else:
            continue
        if ob != want:
            return "%s -> %s, DES (OpenSSL) says %s" % (op, ob, want)
    return None


# ------------------------------------------------------------------ run
def run(ctx):
    h = ctx.harness("c05")
    d = ctx.driver("drv_c05")
    weak = refused_keys()
    fails, samples = [], []
    dist = {"ops": {}, "tags": {}, "final_states": {}, "oracle": {}, "screens": {}}
    nontrivial = set()

    def account(script, impl, tags):
        for l in script.splitlines():
            k = l.split()[0]
            dist["ops"][k] = dist["ops"].get(k, 0) + 1
            if k == "screen":
                kk = l.split()[2]
                dist["screens"][kk] = dist["screens"].get(kk, 0) + 1
        for t in tags:
            dist["tags"][t] = dist["tags"].get(t, 0) + 1
        if impl and ":" in impl[-1]:
            for x in impl[-1].split():
                p = x.split(":")
                if len(p) == 4:
                    k = p[1] + "/" + p[2] + ("/vo" if p[3] == "1" else "")
                    dist["final_states"][k] = dist["final_states"].get(k, 0) + 1

    def judge(script, res, tags, what):
        impl, model, f = res
        if f:
            fails.append(f)
        if not (f and f["kind"] == "crash"):
            o, st = oracle(script, impl)
            for k, v in st.items():
                dist["oracle"][k] = dist["oracle"].get(k, 0) + v
            if st["admitted_pw"] + st["refused_pw"] > 0 and any((" auth " in x) or (" sec closed" in x) for x in impl):
                nontrivial.add(script)
            if o:
                fails.append({"kind": "oracle", "what": "C05 authentication oracle (" + what + ")", "detail": o,
                              "script": script.splitlines(), "impl": impl})
            o = des_oracle(script, impl)
            if o:
                fails.append({"kind": "oracle", "what": "C05 DES back-end vs reference DES (" + what + ")",
                              "detail": o, "script": script.splitlines(), "impl": impl})
        account(script, impl, tags)
        if len(samples) < 4:
            samples.append({"script": script.splitlines()[:40], "impl": impl[:40]})

    scripts = []
    if ctx.replay:
        rec = json.load(open(ctx.replay))
        scripts = [("\n".join(rec.get("script", [])) + "\n", ["replay"], "replay")]
    else:
        for f in sorted(glob.glob(os.path.join(common.VERIF, "corpus", "C05", "*.ops"))):
            scripts.append((open(f).read(), ["corpus"], "corpus/" + os.path.basename(f)))
        n = 700 if ctx.tier == "quick" else 16000
        for k in range(n):
            r = ctx.rng.random()
            if r < 0.10:
                s, tg = gen_bypass_template(ctx.rng, weak)
            elif r < 0.14:
                s, tg = gen_reverse_template(ctx.rng, weak)
            elif r < 0.19:
                s, tg = gen_registry_template(ctx.rng, weak)
            elif r < 0.23:
                s, tg = gen_brute(ctx.rng, weak)
            else:
                s, tg = gen_script(ctx.rng, weak)
            scripts.append((s, tg, "generated"))
    results = common.pmap(lambda sc: common.compare_streams(ctx, sc[0], h, d, "auth.handshake", timeout=120), scripts)
    evals = 0
    for (script, tags, what), res in zip(scripts, results):
        evals += 1
        judge(script, res, tags, what)
        if len(fails) >= 6:
            break

    # DES stream
    des_evals = 0
    if not ctx.replay or any(l.split()[0] in ("des", "undes", "refdes", "encb", "store", "load")
                             for l in scripts[0][0].splitlines() if l.strip()):
        if ctx.replay:
            dscripts = [scripts[0][0]]
        else:
            per = 600 if ctx.tier == "quick" else 4000
            dscripts = [gen_des_script(ctx.rng, weak, per) for _ in range(2 if ctx.tier == "quick" else 4)]
        dres = common.pmap(lambda sc: common.compare_streams(ctx, sc, h, d, "des.backend", timeout=600), dscripts)
        for sc, (impl, model, f) in zip(dscripts, dres):
            des_evals += len(sc.splitlines())
            if f:
                if f.get("script"):
                    f["script"] = f["script"][:50]
                    if "line" in f:
                        f["script"] = [sc.splitlines()[f["line"]]]
                fails.append(f)
            if not (f and f["kind"] == "crash"):
                o = des_oracle(sc, impl)
                if o:
                    fails.append({"kind": "oracle", "what": "C05 DES back-end vs reference DES", "detail": o,
                                  "script": [o.split(" -> ")[0]], "impl": impl[:5]})
            for l in sc.splitlines():
                k = l.split()[0]
                dist["ops"][k] = dist["ops"].get(k, 0) + 1
    dist["des_lines"] = des_evals
    dist["weak_key_classes"] = len(weak)
    return {
        "evaluations": evals + des_evals, "distinct_nontrivial": len(nontrivial),
        "rule": "handshake scripts: 1..12 connections over 1..3 screens (password list / password file / none; "
                "reverse connections) interleaved; non-trivial = distinct script in which a connection to a "
                "password screen reached the challenge (state AUTHENTICATION observed) or had its security-type "
                "choice refused. DES stream lines are counted in evaluations only.",
        "samples": samples, "distribution": dist, "failures": fails,
        "partial": [],
        "assumptions": [
            "no application-registered security handlers / tightvnc-filetransfer extension (none by default)",
            "reverse connections are marked as rfbReverseConnection does (flag set right after rfbNewClient)",
            "single-threaded event loop; one rfbProcessClientMessage per complete message (plus forced short reads)",
            "rfbRandomBytes' random() is interposed in the harness so the challenge is the script's `rand` value; "
            "unpredictability of the challenge is not part of the property and not checked",
            "screens use alwaysShared (the shared-flag policy is C14)",
        ],
        "trusted_extra": ["OpenSSL libcrypto DES (DES_set_key_unchecked/DES_ecb_encrypt) as the reference DES of the "
                          "generator and of the direct oracle",
                          "T0 extractor tools/consts/c05.py asks the installed libgcrypt which DES keys it refuses"],
    }


META = {
    "technique": "Lean 4 theorems over a process-level model of the RFB handshake / VNC authentication (induction over "
                 "all interleaved event traces) + executable FIPS 46-3 DES in Lean; correspondence run against the real "
                 "server (multi-screen, multi-connection, byte-exact) and against the compiled crypto back-end",
    "level_text": "Proof: Props/C05.lean proves auth_sound (invariant over all traces of any number of connections on any "
                  "screens: admitted => own response = enc(pw, own challenge) for a configured pw, viewOnly iff index >= "
                  "firstViewOnly), auth_complete and reach_authentication (correct response always admitted, whatever "
                  "other connections do), for every encryption function / file decoder / version parser; the DES "
                  "reference is tied to the C back-end differentially.",
    "level_note": "Trusted: Lean kernel, harness/driver/generator (testing), OpenSSL DES as oracle reference. Not modelled: "
                  "application-registered security handlers (tight extension), TLS/WebSocket transports, threads.",
    "design_ref": "DESIGN.md section 7, C05; section 11 a, c",
}
