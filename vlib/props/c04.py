"""C04 — no client input can corrupt memory, crash, exhaust or wedge the server.

Proof : lean/VncModel/Props/C04.lean (guards / size computations / blocking structure of the
        client->server message handlers; models in lean/VncModel/Robust/).
Tie   : harness/c04.c runs the REAL server (rfbNewClient, rfbCheckFds, rfbProcessEvents) over
        socketpairs under ASan+UBSan with virtual time (interposed select), an allocation
        recorder and a file-system guard; Driver/C04.lean predicts for every scripted op
        open/closed + protocol state, number of handler rounds, read/write waits, virtual time and
        the allocation class.  Exact comparison of the two streams + a model-independent oracle
        (sanitizer/exit status, hang watchdog, allocation bound, wait bound, witness client output
        identical to its solo run).
"""
import json, os, struct, zlib
from .. import common

PROPS_MOD = "VncModel.Props.C04"
EXTRA_TARGETS = ["drv_c04"]
# misaligned loads (minilzo does them on purpose on x86) are not part of the property: the harness
# and the library are built without -fsanitize=alignment so that UBSan does not abort on them
HARNESS_EXTRA = ("-fno-sanitize=alignment",)

# ----------------------------------------------------------------------------- wire helpers
def u8(v): return struct.pack(">B", v & 0xFF)
def u16(v): return struct.pack(">H", v & 0xFFFF)
def u32(v): return struct.pack(">I", v & 0xFFFFFFFF)
def hx(b): return b.hex() if b else "-"

E_RAW, E_COPY, E_RRE, E_CORRE, E_HEX, E_ZLIB, E_TIGHT, E_ULTRA, E_ZRLE, E_ZYWRLE = 0, 1, 2, 4, 5, 6, 7, 9, 16, 17
E_TIGHTPNG = 0xFFFFFEFC
E_XCURSOR, E_RICH, E_PTRPOS, E_LASTRECT, E_NEWFB, E_EXTDS = 0xFFFFFF10, 0xFFFFFF11, 0xFFFFFF18, 0xFFFFFF20, 0xFFFFFF21, 0xFFFFFECC
E_XVP, E_EXTCLIP = 0xFFFFFECB, 0xC0A1E5CE
E_LED, E_SUPMSG, E_SUPENC, E_IDENT = 0xFFFE0000, 0xFFFE0001, 0xFFFE0002, 0xFFFE0003
E_APP = 0x43303400      # pseudo-encoding of the harness application's protocol extension
ENCODERS = [E_RAW, E_RRE, E_CORRE, E_HEX, E_ZLIB, E_TIGHT, E_ULTRA, E_ZRLE, E_ZYWRLE, E_TIGHTPNG]
PSEUDO = [E_COPY, E_XCURSOR, E_RICH, E_PTRPOS, E_LASTRECT, E_NEWFB, E_EXTDS, E_XVP, E_EXTCLIP, E_LED,
          E_SUPMSG, E_SUPENC, E_IDENT, E_APP, E_APP, 0xFFFFFF05, 0xFFFFFFE3, 0xFFFFFE32, 0xFFFFFD02, 0x12345678]

def m_spf(bpp=32, depth=24, be=0, tc=1, rmax=255, gmax=255, bmax=255, rs=16, gs=8, bs=0):
    return u8(0) + b"\0\0\0" + u8(bpp) + u8(depth) + u8(be) + u8(tc) + u16(rmax) + u16(gmax) + u16(bmax) + \
        u8(rs) + u8(gs) + u8(bs) + b"\0\0\0"
def m_fixcmap(): return u8(1) + b"\0" + u16(0) + u16(1)
def m_setenc(encs, n=None): return u8(2) + b"\0" + u16(len(encs) if n is None else n) + b"".join(u32(e) for e in encs)
def m_fbur(incr, x, y, w, h): return u8(3) + u8(incr) + u16(x) + u16(y) + u16(w) + u16(h)
def m_key(down, key): return u8(4) + u8(down) + b"\0\0" + u32(key)
def m_ptr(mask, x, y): return u8(5) + u8(mask) + u16(x) + u16(y)
def m_cut(length, payload): return u8(6) + b"\0\0\0" + u32(length) + payload
def m_ft(ctype, param, size, length, payload=b""): return u8(7) + u8(ctype) + u8(param) + b"\0" + u32(size) + u32(length) + payload
def m_scale(s, palm=False): return u8(15 if palm else 8) + u8(s) + b"\0\0"
def m_sinput(st): return u8(9) + u8(st) + b"\0\0"
def m_setsw(st, x, y): return u8(10) + u8(st) + u16(x) + u16(y)
def m_chat(length, payload=b""): return u8(11) + b"\0\0\0" + u32(length) + payload
def m_xvp(ver, code): return u8(250) + b"\0" + u8(ver) + u8(code)
def m_sds(w, h, n, screens): return u8(251) + b"\0" + u16(w) + u16(h) + u8(n) + b"\0" + screens
def screens(n, rng): return b"".join(u32(rng.getrandbits(32)) + u16(rng.getrandbits(16)) + u16(rng.getrandbits(16)) +
                                     u16(rng.getrandbits(16)) + u16(rng.getrandbits(16)) + u32(rng.getrandbits(32)) for _ in range(n))
# TightVNC file-transfer extension messages
def t_list(flags, name): return u8(130) + u8(flags) + u16(len(name)) + name
def t_dl(name, pos=0): return u8(131) + u8(0) + u16(len(name)) + u32(pos) + name
def t_ul(name, pos=0): return u8(132) + u8(0) + u16(len(name)) + u32(pos) + name
def t_uldata(level, real, comp, data): return u8(133) + u8(level) + u16(real) + u16(comp) + data
def t_dlcancel(reason): return u8(134) + b"\0" + u16(len(reason)) + reason
def t_ulfail(reason): return u8(135) + b"\0" + u16(len(reason)) + reason
def t_mkdir(name): return u8(136) + b"\0" + u16(len(name)) + name

LENS32 = [0, 1, 2, 3, 4, 5, 7, 8, 100, 4095, 4096, 4097, 65535, 65536, 65537, (1 << 20) - 1, 1 << 20, (1 << 20) + 1,
          (1 << 24), (1 << 31) - 1, 1 << 31, (1 << 31) + 1, 0xFFFFFFF0, 0xFFFFFFFC, 0xFFFFFFFD, 0xFFFFFFFE, 0xFFFFFFFF]

def rbytes(rng, n): return bytes(rng.getrandbits(8) for _ in range(n))

# ----------------------------------------------------------------------------- script builder
class Script:
    def __init__(self, rng, cfg):
        self.rng, self.cfg, self.lines, self.next_id, self.tags = rng, cfg, [], 1, {}
        self.lines.append("cfg " + " ".join("%s=%d" % kv for kv in sorted(cfg.items())))
        self.lines.append("start")
        self.tick()

    def tag(self, t): self.tags[t] = self.tags.get(t, 0) + 1
    def tick(self): self.lines.append("tick %d" % self.rng.getrandbits(31))
    def text(self): return "\n".join(self.lines) + "\n"

    def conn(self, pre=b"RFB 003.008\n"):
        i = self.next_id
        self.next_id = self.next_id % 14 + 1
        # half of the peers arrive through the listening socket (rfbProcessNewConnection), the other
        # half on a socketpair handed to rfbNewClient (what an inetd-style application does)
        self.lines.append("%s %d %s" % ("lconn" if self.rng.random() < 0.5 else "conn", i, hx(pre)))
        return i

    def send(self, i, data, cuts=None, eof=False, trickle=None):
        l = "send %d %s" % (i, hx(data))
        if trickle:
            l += " trickle=%d" % trickle
        if cuts:
            l += " c=" + ",".join(str(c) for c in sorted(set(cuts)))
        if eof:
            l += " eof"
        self.lines.append(l)

    def handshake(self, minor=8, via_tight=False):
        """a hostile client that completes the handshake honestly -> id in RFB_NORMAL"""
        c = self.cfg
        i = self.conn(b"RFB 003.%03d\n" % minor)
        if minor >= 7:
            if via_tight and c["tight"] and not c["pw"]:
                self.send(i, u8(16))
            elif c["pw"]:
                self.send(i, u8(2))
                self.lines.append("auth %d ok" % i)
            else:
                self.send(i, u8(1))
        elif c["pw"]:
            self.lines.append("auth %d ok" % i)
        if minor != 889 or c["pw"] or (via_tight and c["tight"]):
            self.send(i, u8(1))
        return i


def rand_cfg(rng, **over):
    dims = rng.choice([(64, 48), (32, 32), (20, 12), (8, 40), (40, 8), (128, 96), (16, 16), (100, 7)])
    cfg = {"w": dims[0], "h": dims[1], "bpp": rng.choice([4, 4, 4, 2, 1]), "pw": rng.choice([0, 0, 1]),
           "ft": rng.choice([0, 1]), "tight": rng.choice([0, 0, 1]), "xvp": rng.choice([0, 1]),
           "utf8": rng.choice([0, 1]), "sdh": rng.choice([0, 1, 2]),
           "wait": rng.choice([20000, 20000, 5000, 10000, 7000, 100, 15000]),
           "wenc": rng.choice([0, 5, 5, 2, 6, 16, 7]), "view": rng.choice([0] * 9 + [1]), "http": rng.choice([0, 0, 1])}
    cfg.update(over)
    return cfg


# ----------------------------------------------------------------------------- message generators
def valid_messages(rng, cfg):
    """one valid instance of every client->server message type (name, bytes)"""
    W, H = cfg["w"], cfg["h"]
    out = [
        ("spf", m_spf()),
        ("spf16", m_spf(16, 16, 0, 1, 31, 63, 31, 11, 5, 0)),
        ("spf8", m_spf(8, 8, 0, 1, 7, 7, 3, 0, 3, 6)),
        ("spfcm", m_spf(8, 8, 0, 0, 0, 0, 0, 0, 0, 0)),
        ("setenc", m_setenc([rng.choice(ENCODERS), E_COPY] + rng.sample(PSEUDO, 4))),
        ("fbur", m_fbur(rng.randint(0, 1), 0, 0, W, H)),
        ("key", m_key(1, 0x61)),
        ("ptr", m_ptr(rng.choice([0, 1]), rng.randrange(W), rng.randrange(H))),
        ("cut", m_cut(5, b"hello")),
        ("cut0", m_cut(0, b"")),
        ("scale", m_scale(rng.choice([1, 2, 3]))),
        ("palm", m_scale(2, True)),
        ("sinput", m_sinput(1)),
        ("setsw", m_setsw(1, 3, 4)),
        ("chat", m_chat(5, b"hello")),
        ("chatopen", m_chat(0xFFFFFFFF)),
        ("xvp", m_xvp(1, rng.choice([2, 3, 4]))),
        ("sds", m_sds(W, H, 2, screens(2, rng))),
        ("sds0", m_sds(W, H, 0, b"")),
    ]
    return out


def ft_messages(rng):
    p = [b"C:/nonexistent", b"a.txt", b"d", b"C:\\tmp\\x", b"new.bin", b"x" * 300, b"", b"d/sub"]
    out = []
    for name in p:
        out.append(("ft-dir", m_ft(1, 1, 0, len(name), name)))
        out.append(("ft-req", m_ft(3, 0, rng.choice([0, 1]), len(name), name)))
        out.append(("ft-offer", m_ft(8, 0, 10, len(name + b",1/1/2020 10:00"), name + b",1/1/2020 10:00" + u32(0))))
        out.append(("ft-mkdir", m_ft(10, 1, 0, len(name), name)))
        out.append(("ft-del", m_ft(10, 4, 0, len(name), name)))
        out.append(("ft-ren", m_ft(10, 5, 0, len(name + b"*ren"), name + b"*ren")))
    out += [("ft-drives", m_ft(1, 2, 0, 0)), ("ft-hdr", m_ft(4, 0, 1, 0)), ("ft-hdrerr", m_ft(4, 0, 0xFFFFFFFF, 0)),
            ("ft-pkt", m_ft(5, 0, 0, 4, b"data")), ("ft-pktz", m_ft(5, 0, 1, 12, zlib.compress(b"data"))),
            ("ft-pktbad", m_ft(5, 0, 1, 4, b"\xff\xff\xff\xff")),
            ("ft-eof", m_ft(6, 0, 0, 0)), ("ft-abort", m_ft(7, 0, 0, 0)), ("ft-abort1", m_ft(7, 1, 0, 0)),
            ("ft-other", m_ft(rng.choice([2, 9, 11, 12, 14, 0, 13, 200]), 0, 0, rng.choice([0, 5])))]
    return out


def tight_messages(rng):
    names = [b"/a.txt", b"/d", b"/nonexistent", b"/up.bin", b"/" + b"y" * 5000, b"/d/sub", b"/"]
    out = []
    for nm in names:
        out += [("t-list", t_list(rng.choice([0, 16]), nm)), ("t-dl", t_dl(nm)), ("t-ul", t_ul(nm)),
                ("t-mkdir", t_mkdir(nm))]
    out += [("t-uldata", t_uldata(0, 4, 4, b"abcd")), ("t-uldata-z", t_uldata(1, 4, 4, b"abcd")),
            ("t-uldone", t_uldata(0, 0, 0, u32(12345))), ("t-dlcancel", t_dlcancel(b"stop")),
            ("t-dlcancel0", t_dlcancel(b"")), ("t-ulfail", t_ulfail(b"oops")), ("t-ulfail0", t_ulfail(b""))]
    return out


def mutate_fields(rng, name, msg, cfg):
    """field-wise mutations of a valid message: every length/count field at its interesting values,
    payload present / short / absent"""
    out = []
    t = msg[0]
    if t == 6:      # cut text
        for L in rng.sample(LENS32, 8) + [(1 << 20), (1 << 20) + 1]:
            have = rng.choice([0, min(L, 5), min(L, 64)])
            if L in ((1 << 20), (1 << 20) - 1) and rng.random() < 0.3:
                have = L
            out.append(("cut-len", m_cut(L, rbytes(rng, have) if have < 4096 else b"a" * have)))
    elif t == 11:   # text chat
        for L in [0, 1, 4094, 4095, 4096, 4097, 0xFFFFFFFC, 0xFFFFFFFD, 0xFFFFFFFE, 0xFFFFFFFF, 1 << 31, rng.getrandbits(32)]:
            have = rng.choice([0, min(L, 4095), min(L, 10)]) if L < (1 << 31) else 0
            out.append(("chat-len", m_chat(L, b"c" * have)))
    elif t == 7:    # file transfer: length field x content types
        for L in rng.sample(LENS32, 6):
            ct = rng.choice([1, 3, 5, 8, 10, 4, 6, 7, 2])
            have = min(L, rng.choice([0, 3, 40]))
            out.append(("ft-len", m_ft(ct, rng.choice([0, 1, 2, 4, 5]), rng.choice([0, 1, 0xFFFFFFFF]), L, rbytes(rng, have))))
    elif t == 251:  # SetDesktopSize screens count
        for n in [0, 1, 2, 16, 254, 255]:
            have = rng.choice([n, n, max(0, n - 1), 0])
            out.append(("sds-n", m_sds(rng.getrandbits(16), rng.getrandbits(16), n, screens(have, rng))))
    elif t == 2:    # SetEncodings count vs list
        for n in [0, 1, 2, 3, 255, 256, 1000, 65535]:
            have = rng.choice([n, max(0, n - 1), min(n, 2)]) if n <= 1000 else rng.choice([0, 5])
            encs = [rng.choice(ENCODERS + PSEUDO + [rng.getrandbits(32)]) for _ in range(have)]
            out.append(("setenc-n", m_setenc(encs, n)))
    elif t in (8, 15):
        for s in [0, 1, 2, 5, 7, 10, 16, 33, 64, 100, 127, 128, 200, 255]:
            out.append(("scale-v", m_scale(s, t == 15)))
    elif t == 3:
        W, H = cfg["w"], cfg["h"]
        vals = [0, 1, W - 1, W, W + 1, H - 1, H, H + 1, 255, 256, 32767, 32768, 65535]
        for _ in range(10):
            out.append(("fbur-rect", m_fbur(rng.choice([0, 1, 2, 255]), rng.choice(vals), rng.choice(vals), rng.choice(vals), rng.choice(vals))))
    elif t == 0:
        for _ in range(8):
            out.append(("spf-f", rand_spf(rng)))
        for _ in range(10):
            out.append(("spf-edge", boundary_spf(rng)))
    elif t == 250:
        for v in [0, 1, 2, 255]:
            out.append(("xvp-v", m_xvp(v, rng.getrandbits(8))))
    elif t in (130, 131, 132, 136):   # tight: name length
        for L in [0, 1, 4094, 4095, 4096, 4097, 32767, 32768, 65535]:
            have = min(L, rng.choice([0, 6, L]))
            hdr = {130: lambda: u8(130) + u8(0) + u16(L), 131: lambda: u8(131) + u8(0) + u16(L) + u32(0),
                   132: lambda: u8(132) + u8(0) + u16(L) + u32(0), 136: lambda: u8(136) + u8(0) + u16(L)}[t]()
            out.append(("t-namelen", hdr + (b"/" + b"n" * (have - 1) if have else b"")))
    elif t == 133:
        for (r, c) in [(0, 0), (0, 5), (5, 0), (65535, 65535), (1, 65535), (4, 4)]:
            have = min(c, rng.choice([0, c]))
            out.append(("t-uldata-len", t_uldata(rng.choice([0, 1]), r, c, b"d" * have if (r or c) else u32(0))))
    elif t in (134, 135):
        for L in [0, 1, 65535, 300]:
            have = min(L, rng.choice([0, L]))
            out.append(("t-reason-len", u8(t) + b"\0" + u16(L) + b"r" * have))
    # generic byte flips / random tails
    for _ in range(2):
        b = bytearray(msg)
        k = rng.randrange(1, len(b)) if len(b) > 1 else 0
        b[k] = rng.getrandbits(8)
        out.append(("flip", bytes(b)))
    return out


def rand_spf(rng):
    bpp = rng.choice([8, 16, 32, 32, 24, 0, 1, 4, 15, 33, 64, 255])
    tc = rng.choice([1, 1, 1, 0, 2])
    mx = lambda: rng.choice([0, 1, 3, 7, 31, 63, 255, 256, 1023, 65535, rng.getrandbits(16)])
    sh = lambda: rng.choice([0, 3, 5, 8, 11, 16, 24, 30, 31, 32, 33, 63, 64, 128, 255, rng.getrandbits(8)])
    return m_spf(bpp, rng.choice([8, 16, 24, 32, 0, 255]), rng.choice([0, 1, 7]), tc, mx(), mx(), mx(), sh(), sh(), sh())


def boundary_spf(rng):
    """one channel exactly at / just beyond the edge of the pixel: shift bpp-1, bpp, bpp+1 with
    maximum 0, or the largest maximum that fits at that shift and the next larger one"""
    bpp = rng.choice([8, 16, 32, 32, 24])
    ch = [[255 if bpp >= 24 else 3, 0], [255 if bpp >= 24 else 3, 8 if bpp >= 24 else 2], [255 if bpp >= 24 else 3, 16 if bpp >= 24 else 4]]
    k = rng.randrange(3)
    sh = rng.choice([bpp - 1, bpp, bpp + 1, bpp - 8, 31, 32, 33, 0])
    sh = max(0, min(255, sh))
    room = max(0, bpp - sh)
    mx = rng.choice([0, (1 << room) - 1, 1 << room, 65535]) & 0xFFFF
    ch[k] = [mx, sh]
    return m_spf(bpp, rng.choice([bpp, 24]), rng.choice([0, 1]), 1, ch[0][0], ch[1][0], ch[2][0], ch[0][1], ch[1][1], ch[2][1])


def wellformed_spf(rng):
    """formats every client channel of which fits into the pixel (accepted by the fixed code)"""
    bpp = rng.choice([8, 16, 32, 24])
    if rng.random() < 0.25:
        return rng.choice([m_spf(), m_spf(16, 16, 0, 1, 31, 63, 31, 11, 5, 0), m_spf(8, 8, 0, 1, 7, 7, 3, 0, 3, 6),
                           m_spf(32, 24, 1, 1, 255, 255, 255, 0, 8, 16), m_spf(32, 24, 0, 1, 255, 255, 255, 24, 16, 8),
                           m_spf(16, 15, 1, 1, 31, 31, 31, 10, 5, 0), m_spf(8, 8, 0, 0), m_spf(32, 30, 0, 1, 1023, 1023, 1023, 20, 10, 0)])
    chans = []
    for _ in range(3):
        bits = rng.randint(0, min(16, bpp))
        sh = rng.randint(0, bpp - bits) if bits else rng.randint(0, bpp - 1)
        sh = min(sh, bpp - 1)
        chans.append(((1 << bits) - 1 if rng.random() < 0.8 else rng.randint(0, (1 << bits) - 1), sh))
    return m_spf(bpp, rng.choice([bpp, 24, 8]), rng.choice([0, 1]), 1, chans[0][0], chans[1][0], chans[2][0],
                 chans[0][1], chans[1][1], chans[2][1])


# ----------------------------------------------------------------------------- scenarios
def sc_mix(rng):
    """honest handshake, then batches of valid messages and field mutations, cut at random points"""
    cfg = rand_cfg(rng)
    s = Script(rng, cfg)
    i = s.handshake(rng.choice([8, 8, 7, 3, 889]), via_tight=rng.random() < 0.5)
    pool = valid_messages(rng, cfg)
    if cfg["tight"]:
        pool += tight_messages(rng)
    pool += ft_messages(rng)[:10]
    for _ in range(rng.randint(4, 10)):
        k = rng.randint(1, 4)
        batch = [rng.choice(pool) for _ in range(k)]
        if rng.random() < 0.5:
            nm, m = rng.choice(pool)
            muts = mutate_fields(rng, nm, m, cfg)
            batch.append(rng.choice(muts))
        data = b"".join(m for _, m in batch)
        for nm, _ in batch:
            s.tag(nm)
        cuts = [rng.randrange(1, len(data)) for _ in range(rng.choice([0, 0, 1, 2, 5]))] if len(data) > 1 else None
        s.send(i, data, cuts)
        if rng.random() < 0.4:
            s.tick()
        if rng.random() < 0.25:
            i = s.handshake(rng.choice([8, 7, 3]))
    s.tick()
    s.lines.append("end")
    return s


def sc_trunc(rng):
    """every proper prefix of one valid message (the peer then stays silent) and every 1-cut"""
    cfg = rand_cfg(rng, wait=rng.choice([20000, 5000, 7000, 100]))
    s = Script(rng, cfg)
    pool = valid_messages(rng, cfg) + (tight_messages(rng) if cfg["tight"] else []) + ft_messages(rng)
    for _ in range(3):
        nm, m = rng.choice(pool)
        s.tag("trunc:" + nm)
        ks = list(range(1, len(m))) if len(m) <= 24 else sorted(rng.sample(range(1, len(m)), 20))
        i = s.handshake(via_tight=True)
        for k in ks:                      # all 1-cuts on one connection (stays open if the message is harmless)
            s.send(i, m, [k])
        for k in ks[:14]:                 # every truncation costs one connection
            i = s.handshake(rng.choice([8, 3]), via_tight=True)
            pre = rng.choice(pool)[1] if rng.random() < 0.3 else b""
            s.send(i, pre + m[:k])
        s.tick()
    s.lines.append("end")
    return s


def sc_preauth(rng):
    """hostile bytes before authentication: version strings, security types, auth responses, init"""
    cfg = rand_cfg(rng)
    s = Script(rng, cfg)
    versions = [b"RFB 003.008\n", b"RFB 003.003\n", b"RFB 003.007\n", b"RFB 003.889\n", b"RFB 004.000\n",
                b"RFB 003.006\n", b"RFB 000.000\n", b"RFB 003.999\n", b"RFB 3.8\n    ", b"RFB 003.008\r", b"RFB 003-008\n",
                b"RFB  03.  8\n", b"RFB -03.008\n", b"RFB +03.+08\n", b"RFB 003.00\x00\n", b"RFB 003.\n\n\n\n", b"RFB 003,008\n",
                b"RFB \n\n\n\n\n\n\n\n", b"RFB 0x3.008\n", b"RFB 003.008"]
    for _ in range(rng.randint(6, 12)):
        kind = rng.random()
        if kind < 0.35:
            v = rng.choice(versions)
            if rng.random() < 0.3:
                b = bytearray(v); b[rng.randrange(4, len(b))] = rng.choice(b" \n\t+-.0123456789xA\0"); v = bytes(b)
            s.tag("version")
            i = s.conn(v)
            s.send(i, rbytes(rng, rng.randint(1, 24)))
        elif kind < 0.45:
            s.tag("conn-empty")
            i = s.conn(b"")
            s.send(i, b"RFB 003.008\n", [rng.randrange(1, 12)] if rng.random() < 0.5 else None)
            s.send(i, u8(rng.choice([1, 2, 16, 0, 5, 255])))
        elif kind < 0.7:
            s.tag("sectype")
            i = s.conn(b"RFB 003.%03d\n" % rng.choice([8, 7, 889, 3]))
            s.send(i, u8(rng.choice([1, 2, 16, 0, 3, 19, 255])) + rbytes(rng, rng.choice([0, 0, 4, 16, 20, 21, 30])))
            if rng.random() < 0.5:
                s.send(i, rbytes(rng, rng.randint(1, 20)))
        elif kind < 0.85 and cfg["pw"]:
            s.tag("auth")
            i = s.conn(b"RFB 003.%03d\n" % rng.choice([8, 7, 3]))
            s.send(i, u8(2))
            s.lines.append("auth %d %s" % (i, rng.choice(["bad", "short", "ok"])))
            s.send(i, rbytes(rng, rng.randint(1, 4)))
        else:
            s.tag("init")
            i = s.handshake(rng.choice([8, 7, 3]))
            s.send(i, rbytes(rng, rng.randint(1, 40)), [1] if rng.random() < 0.3 else None)
        if rng.random() < 0.3:
            s.tick()
    s.tick()
    s.lines.append("end")
    return s


def sc_pixfmt(rng):
    """SetPixelFormat sweep, then an update in that format with every encoder / cursor encoding"""
    cfg = rand_cfg(rng, wenc=rng.choice([0, 5]))
    s = Script(rng, cfg)
    for _ in range(rng.randint(3, 6)):
        if rng.random() < 0.4:       # application cursor around the update-buffer boundaries
            n = rng.choice([1, 7, 32, 64, 88, 89, 91, 100, 124, 127, 128, 170, 176, 182, 200])
            s.lines.append("app cursor %d %d" % (n, rng.choice([n, n, 1, 2 * n])))
        i = s.handshake()
        r = rng.random()
        fmt = rand_spf(rng) if r < 0.4 else (boundary_spf(rng) if r < 0.7 else wellformed_spf(rng))
        s.tag("spf")
        order = rng.random()
        encs = [rng.choice(ENCODERS)] + rng.sample([E_COPY, E_XCURSOR, E_RICH, E_PTRPOS, E_LASTRECT, E_NEWFB], rng.randint(0, 4))
        if order < 0.5:
            s.send(i, fmt + m_setenc(encs) + m_fbur(0, 0, 0, cfg["w"], cfg["h"]))
        else:
            s.send(i, m_setenc(encs) + m_fbur(0, 0, 0, cfg["w"], cfg["h"]))
            s.send(i, fmt + m_fbur(0, 0, 0, cfg["w"], cfg["h"]))
        s.tick()
        s.send(i, m_fbur(1, 0, 0, cfg["w"], cfg["h"]))
        s.tick()
    s.lines.append("end")
    return s


def sc_scale(rng):
    cfg = rand_cfg(rng)
    s = Script(rng, cfg)
    for _ in range(rng.randint(2, 5)):
        i = s.handshake()
        s.send(i, m_setenc([rng.choice(ENCODERS), E_COPY] + rng.sample([E_NEWFB, E_EXTDS, E_RICH, E_LASTRECT], rng.randint(0, 3))))
        for _ in range(rng.randint(1, 4)):
            sc = rng.choice([1, 2, 3, 4, 5, 7, 8, 9, 10, 12, 16, 20, 33, 40, 41, 64, 100, 128, 255, 0])
            s.tag("scale")
            s.send(i, m_scale(sc, rng.random() < 0.3) + m_fbur(rng.randint(0, 1), 0, 0, rng.choice([cfg["w"], 1, 65535, cfg["w"] // max(sc, 1)]),
                                                                rng.choice([cfg["h"], 1, 65535])))
            s.tick()
            s.send(i, m_ptr(rng.randint(0, 1), rng.getrandbits(16), rng.getrandbits(16)) + m_fbur(1, rng.getrandbits(4), rng.getrandbits(4), rng.getrandbits(16), rng.getrandbits(16)))
            s.tick()
    s.lines.append("end")
    return s


def sc_block(rng):
    """peers that stop reading / reset while the server is writing or reading"""
    cfg = rand_cfg(rng, wait=rng.choice([20000, 5000, 7000, 100, 12000]))
    s = Script(rng, cfg)
    for _ in range(rng.randint(2, 4)):
        i = s.handshake()
        kind = rng.choice(["stop-fbur", "stop-msg", "reset-mid", "eof-after", "stop-ft"])
        s.tag(kind)
        if kind == "stop-fbur":
            s.send(i, m_setenc([rng.choice(ENCODERS)] + rng.sample(PSEUDO, 3)))
            s.lines.append("stopread %d" % i)
            s.send(i, m_fbur(0, 0, 0, cfg["w"], cfg["h"]))
        elif kind == "stop-msg":
            s.lines.append("stopread %d" % i)
            m = rng.choice([m_xvp(2, 1), m_scale(2), m_spf(8, 8, 0, 0), m_setenc([E_XVP, E_XVP, E_EXTCLIP, E_EXTCLIP]),
                            m_ft(1, 2, 0, 0), m_ft(3, 0, 0, 5, b"a.txt"), m_ft(7, 0, 0, 0), m_chat(3, b"abc"),
                            m_key(1, 5) + m_fbur(0, 0, 0, 1, 1)])
            s.send(i, m)
        elif kind == "reset-mid":
            nm, m = rng.choice(valid_messages(rng, cfg) + ft_messages(rng))
            s.send(i, m[:rng.randrange(1, len(m))] if len(m) > 1 else m, eof=True)
        elif kind == "eof-after":
            nm, m = rng.choice(valid_messages(rng, cfg) + ft_messages(rng))
            s.send(i, m + m_fbur(0, 0, 0, cfg["w"], cfg["h"]), eof=True)
        else:
            s.lines.append("stopread %d" % i)
            s.send(i, m_ft(3, 0, 1, 5, b"a.txt") + m_ft(4, 0, 1, 0))
        s.tick()
        if rng.random() < 0.5:
            s.lines.append("reset %d" % i)
    s.tick()
    s.lines.append("end")
    return s


def sc_ft(rng):
    cfg = rand_cfg(rng, ft=rng.choice([1, 1, 0]), tight=rng.choice([0, 1]))
    s = Script(rng, cfg)
    i = s.handshake(via_tight=True)
    pool = ft_messages(rng) + (tight_messages(rng) if cfg["tight"] else [])
    if cfg["tight"] and not cfg["pw"]:      # stateful: upload in progress, then data blocks with hostile sizes
        for _ in range(rng.randint(1, 3)):
            s.send(i, t_ul(b"/r%d.bin" % rng.randrange(4)))
            for _ in range(rng.randint(1, 4)):
                real, comp = rng.choice([0, 1, 4, 5000, 60000, 65535]), rng.choice([0, 1, 4, 5000, 65535])
                s.tag("t-uldata-state")
                s.send(i, t_uldata(rng.choice([0, 0, 0, 1]), real, comp, b"d" * comp if (real or comp) else u32(7)))
            if rng.random() < 0.5:
                s.send(i, rng.choice([t_uldata(0, 0, 0, u32(9)), t_ulfail(b"stop"), t_dl(b"/r0.bin"), t_dlcancel(b"c")]))
    for _ in range(rng.randint(6, 16)):
        nm, m = rng.choice(pool)
        if rng.random() < 0.3:
            nm, m = rng.choice(mutate_fields(rng, nm, m, cfg))
        s.tag(nm)
        s.send(i, m, [rng.randrange(1, len(m))] if rng.random() < 0.3 and len(m) > 1 else None)
        if rng.random() < 0.3:
            s.tick()
        if rng.random() < 0.3:
            i = s.handshake(via_tight=True)
    s.tick()
    s.lines.append("end")
    return s


def sc_clip(rng):
    """extended clipboard: caps / request / peek / notify / provide with valid and invalid zlib data"""
    cfg = rand_cfg(rng, utf8=1)
    s = Script(rng, cfg)
    i = s.handshake()
    s.send(i, m_setenc([E_RAW, E_EXTCLIP]))
    def ext(flags, body):
        data = u32(flags) + body
        return m_cut((-len(data)) & 0xFFFFFFFF, data)
    for _ in range(rng.randint(4, 10)):
        k = rng.random()
        if k < 0.2:
            fl = (1 << 24) | rng.choice([1, 3, 0, 0x1f])
            nf = bin(fl & 0xFFFF).count("1")
            m = ext(fl, b"".join(u32(rng.getrandbits(20)) for _ in range(rng.choice([nf, nf, max(0, nf - 1), nf + 1]))))
        elif k < 0.35:
            m = ext(rng.choice([1 << 25, 1 << 26, 1 << 27]) | 1, b"")
        elif k < 0.7:
            txt = rbytes(rng, rng.choice([1, 10, 1000, 70000]))
            z = zlib.compress(u32(len(txt)) + txt)
            if rng.random() < 0.4:
                z = z[:rng.randrange(0, len(z))]
            m = ext((1 << 28) | rng.choice([1, 1, 3, 0x11, 0]), z)
        elif k < 0.8:
            z = zlib.compress(u32(rng.choice([(1 << 20) + 1, 0xFFFFFFFF, 1 << 20])) + b"xx")
            m = ext((1 << 28) | 1, z)
        elif k < 0.9:
            m = ext((1 << 28) | rng.getrandbits(5), rbytes(rng, rng.randint(0, 40)))
        else:
            L = rng.choice([1, 2, 3])       # extended message shorter than its flags word
            m = m_cut((-L) & 0xFFFFFFFF, rbytes(rng, L))
        s.tag("extclip")
        s.send(i, m)
        if rng.random() < 0.3:
            s.tick()
        if rng.random() < 0.3:
            i = s.handshake()
            s.send(i, m_setenc([E_RAW, E_EXTCLIP]))
    s.tick()
    s.lines.append("end")
    return s


def sc_unknown(rng):
    """every message type byte 0..255 (with random tails)"""
    cfg = rand_cfg(rng)
    s = Script(rng, cfg)
    types = rng.sample(range(256), 14)
    for t in types:
        i = s.handshake(via_tight=rng.random() < 0.5)
        s.tag("type")
        s.send(i, u8(t) + rbytes(rng, rng.choice([0, 1, 3, 7, 11, 19, 40])))
    s.tick()
    s.lines.append("end")
    return s


def sc_fields(rng):
    """boundary sweep: ALL field mutations of one message kind, each on its own connection, each
    followed by a key event (shows whether the stream is still in sync)"""
    kind = rng.choice(["cut", "cutext", "chat", "ft", "sds", "setenc", "scale", "fbur", "spf", "xvp", "tight"])
    over = {}
    if kind == "cutext":
        over["utf8"] = 1
    if kind == "ft":
        over["ft"] = rng.choice([1, 1, 0])
    if kind == "tight":
        over["tight"] = 1
        over["pw"] = 0
    cfg = rand_cfg(rng, **over)
    s = Script(rng, cfg)
    base = {"cut": m_cut(5, b"hello"), "cutext": m_cut(5, b"hello"), "chat": m_chat(5, b"hello"),
            "ft": m_ft(3, 0, 0, 5, b"a.txt"), "sds": m_sds(1, 1, 1, screens(1, rng)), "setenc": m_setenc([0]),
            "scale": m_scale(2, rng.random() < 0.3), "fbur": m_fbur(0, 0, 0, 1, 1), "spf": m_spf(), "xvp": m_xvp(1, 1),
            "tight": rng.choice([t_list(0, b"/d"), t_dl(b"/x"), t_ul(b"/x"), t_mkdir(b"/x"), t_uldata(0, 1, 1, b"x"),
                                 t_dlcancel(b"r"), t_ulfail(b"r")])}[kind]
    muts = mutate_fields(rng, kind, base, cfg)
    if kind == "tight":      # every message of the extension, every length field value
        muts = []
        for b in [t_list(0, b"/d"), t_dl(b"/x"), t_ul(b"/x"), t_mkdir(b"/x"), t_uldata(0, 1, 1, b"x"),
                  t_dlcancel(b"r"), t_ulfail(b"r")]:
            muts += mutate_fields(rng, kind, b, cfg)
    if kind == "setenc":     # a count larger than the list, the application's pseudo-encoding last
        for n in [3, 4, 7, 300]:
            muts.append(("setenc-short", m_setenc([rng.choice(ENCODERS), E_APP], n)))
            muts.append(("setenc-short", m_setenc([E_APP, E_APP, E_XVP][:rng.randint(1, 3)], n)))
    if kind in ("cut", "cutext"):
        for L in [(1 << 20) - 1, 1 << 20]:
            if rng.random() < 0.15:
                muts.append(("cut-full", m_cut(L, b"a" * L)))
        if kind == "cutext":   # the same lengths in the extended (negative) encoding
            for L in [3, 4, 8, (1 << 20) - 1, 1 << 20, (1 << 20) + 1, (1 << 31) - 1, 1 << 31]:
                have = min(L, rng.choice([0, 4, 8, 12]))
                fl = rng.choice([1 << 24 | 1, 1 << 25, 1 << 26, 1 << 27, 0, 1 << 28])
                muts.append(("cutext-len", m_cut((-L) & 0xFFFFFFFF, (u32(fl) + b"\0" * 8)[:have])))
    if kind == "chat":
        muts.append(("chat-full", m_chat(4095, b"c" * 4095)))
        muts.append(("chat-full", m_chat(4096, b"c" * 4096)))
    for nm, m in muts:
        i = s.handshake(rng.choice([8, 8, 3]), via_tight=(kind == "tight"))
        if kind == "cutext":
            s.send(i, m_setenc([E_RAW, E_EXTCLIP]))
        s.tag(nm)
        tail = b"" if nm.endswith("-short") else m_key(1, 0x41)
        s.send(i, m + tail, [rng.randrange(1, len(m + tail))] if rng.random() < 0.3 and len(m + tail) > 1 else None)
        if rng.random() < 0.1:
            s.tick()
    s.tick()
    s.lines.append("end")
    return s


WS_REQ = (b"GET / HTTP/1.1\r\nHost: localhost\r\nUpgrade: websocket\r\nConnection: Upgrade\r\n"
          b"Sec-WebSocket-Key: dGhlIHNhbXBsZSBub25jZQ==\r\nOrigin: http://localhost\r\n"
          b"Sec-WebSocket-Protocol: binary\r\nSec-WebSocket-Version: 13\r\n\r\n")


def ws_frame(rng, payload, opcode=2, fin=1, masked=True):
    hdr = u8((0x80 if fin else 0) | opcode)
    L = len(payload)
    mbit = 0x80 if masked else 0
    if L < 126:
        hdr += u8(mbit | L)
    elif L < 65536:
        hdr += u8(mbit | 126) + u16(L)
    else:
        hdr += u8(mbit | 127) + struct.pack(">Q", L)
    if not masked:
        return hdr + payload
    mask = rbytes(rng, 4)
    return hdr + mask + bytes(b ^ mask[k & 3] for k, b in enumerate(payload))


def sc_ws(rng):
    """WebSocket entry point, smoke only (the decoder itself is C09's subject): whole frames that
    carry the RFB handshake and hostile RFB messages, plus a few malformed but complete frames.
    The model does not predict these connections (`?`); the oracle does all the work."""
    cfg = rand_cfg(rng, pw=0, tight=0)
    s = Script(rng, cfg)
    pool = valid_messages(rng, cfg)
    for _ in range(rng.randint(1, 3)):
        i = s.conn(WS_REQ)
        s.tag("ws")
        s.send(i, ws_frame(rng, b"RFB 003.008\n"))
        s.send(i, ws_frame(rng, u8(1)) + ws_frame(rng, u8(1)))
        for _ in range(rng.randint(2, 6)):
            nm, m = rng.choice(pool)
            if rng.random() < 0.4:
                nm, m = rng.choice(mutate_fields(rng, nm, m, cfg))
            if len(m) > 100000:
                m = m[:100000]
            k = rng.random()
            if k < 0.6:
                data = ws_frame(rng, m)
            elif k < 0.75:      # one RFB message spread over two frames
                c = rng.randrange(1, len(m)) if len(m) > 1 else 1
                data = ws_frame(rng, m[:c]) + ws_frame(rng, m[c:])
            elif k < 0.85:
                data = ws_frame(rng, m, opcode=rng.choice([0, 1, 9, 10, 3, 15]))
            elif k < 0.93:
                data = ws_frame(rng, m, masked=False)
            elif k < 0.95:
                data = ws_frame(rng, b"", opcode=8)
            elif k < 0.97:
                data = rng.choice(ws_malformed(rng))[1]
            else:
                data = ws_frame(rng, b"p" * rng.choice([126, 3000]), opcode=rng.choice([9, 10, 8]))
            cuts = [rng.randrange(1, len(data)) for _ in range(rng.choice([1, 2, 4]))] if rng.random() < 0.3 and len(data) > 1 else None
            s.send(i, data, cuts)
            if rng.random() < 0.3:
                s.tick()
    if rng.random() < 0.5:
        nm, rq = rng.choice(ws_handshakes())
        i = s.conn(rq)
        s.send(i, ws_frame(rng, b"RFB 003.008\n"))
    s.tick()
    s.lines.append("end")
    return s


def sc_listen(rng):
    """random on top of core_listen: floods of random size, faults at random messages, trickling peers"""
    cfg = rand_cfg(rng, http=1)
    s = Script(rng, cfg)
    wait = cfg["wait"] or 20000
    pool = valid_messages(rng, cfg)
    for _ in range(rng.randint(3, 8)):
        k = rng.random()
        if k < 0.2:
            s.lines.append("lflood %d" % rng.randint(4, 60))
            s.tag("flood")
        elif k < 0.5:
            i = s.handshake(rng.choice([8, 3]))
            s.lines.append("fault %d %s" % (i, rng.choice(["rd_eintr", "rd_reset", "sel_err", "wr_eintr", "wr_zero", "wsel_err", "wsel_eintr"])))
            s.tag("fault")
            nm, m = rng.choice(pool)
            s.send(i, m[:rng.randrange(1, len(m) + 1)])
            s.send(i, m_key(1, 3))
        elif k < 0.8:
            i = s.handshake()
            nm, m = rng.choice(pool)
            data = m if len(m) < 60 else m[:60]
            if rng.random() < 0.3:
                data = data[:rng.randrange(1, len(data) + 1)]
            s.tag("trickle")
            s.send(i, data, trickle=rng.choice([wait - 1, wait // 2, 1]))
        else:
            rq = rng.choice([b"GET /index.vnc HTTP/1.0\r\n\r\n", b"GET /" + rbytes(rng, rng.randint(0, 300)) + b"\r\n\r\n",
                             rbytes(rng, rng.randint(1, 200)), b"GET /a.txt HTTP/1.1\r\n" + b"X: y\r\n" * rng.randint(0, 400) + b"\r\n"])
            s.tag("http")
            s.lines.append("http %s%s" % (hx(rq), " eof" if rng.random() < 0.5 else ""))
        if rng.random() < 0.3:
            s.tick()
    s.tick()
    s.lines.append("end")
    return s


def sc_copyrects(rng):
    """application schedules a many-rectangle copy region while a CopyRect client is connected (finding h)"""
    cfg = rand_cfg(rng, w=128, h=96, wenc=0)
    s = Script(rng, cfg)
    i = s.handshake()
    s.send(i, m_setenc([E_RAW, E_COPY]) + m_fbur(0, 0, 0, 128, 96))
    s.tick()
    s.send(i, m_fbur(1, 0, 0, 128, 96))
    s.lines.append("app copyrects %d" % rng.choice([10, 100, 2000, 2729, 2730, 2731, 3000, 5000]))
    s.tag("copyrects")
    s.tick()
    s.lines.append("end")
    return s


# ----------------------------------------------------------------------------- deterministic core
# Run in EVERY quick/thorough run, independent of the seed: each guard at limit-1 / limit / limit+1,
# the request-rectangle boundary grid followed by an update so that the encoder really runs.
CORE_CFGS = [
    {"w": 64, "h": 48, "bpp": 4, "pw": 0, "ft": 1, "tight": 1, "xvp": 1, "utf8": 1, "sdh": 1, "wait": 7000, "wenc": 0, "view": 0},
    {"w": 40, "h": 8, "bpp": 2, "pw": 1, "ft": 0, "tight": 0, "xvp": 0, "utf8": 0, "sdh": 0, "wait": 20000, "wenc": 5, "view": 0},
]


def axis_values(size):
    pos = [0, 1, size - 1, size, size + 1, 65535]
    out = []
    for p in pos:
        for l in [0, 1, size - p, size - p + 1, 65535 - p, 65536 - p, 65535]:
            if 0 <= l <= 65535 and (p, l) not in out:
                out.append((p, l))
    return out


def core_rect(cfg, enc):
    """FramebufferUpdateRequest boundary grid: x,w over the grid with the full height, y,h over the
    grid with the full width, the corner combinations, incremental and not; every request is
    followed by an update (the application draws, the witness and the hostile client are served)"""
    import random
    rng = random.Random(4004)
    s = Script(rng, dict(cfg))
    W, H = cfg["w"], cfg["h"]
    i = s.handshake()
    s.send(i, m_setenc([enc, E_COPY]) + m_fbur(0, 0, 0, W, H))
    s.tick()
    rects = [(x, 0, w, H) for x, w in axis_values(W)] + [(0, y, W, h) for y, h in axis_values(H)]
    rects += [(x, y, w, h) for (x, w) in [(8, 65530), (W - 1, 65535), (1, 65535), (W, 65535)]
              for (y, h) in [(8 % H, 65536 - 8 % H), (H - 1, 65535), (1, 65535), (H, 65535)]]
    k = 0
    for incr in (0, 1):
        for (x, y, w, h) in rects:
            s.tag("core-rect")
            s.send(i, m_fbur(incr, x, y, w, h))
            k += 1
            if incr or k % 4 == 0:
                s.tick()
    s.tick()
    s.lines.append("end")
    return s


def core_guards(cfg):
    """every length / count / value guard at limit-1, limit, limit+1 (full payload where the
    message is accepted), each on its own connection, followed by a key event"""
    import random
    rng = random.Random(4005)
    s = Script(rng, dict(cfg))
    W, H = cfg["w"], cfg["h"]
    M = 1 << 20
    cases = []
    for L in (M - 1, M):
        cases.append(("cut", m_cut(L, b"a" * L), False))
    cases.append(("cut", m_cut(M + 1, b"a" * 16), False))
    cases.append(("cut", m_cut(0, b""), False))
    for L in (M - 1, M):      # extended format (negative length), flags word = Request
        cases.append(("cutext", m_cut((-L) & 0xFFFFFFFF, u32(1 << 25) + b"\0" * (L - 4)), True))
    cases.append(("cutext", m_cut((-(M + 1)) & 0xFFFFFFFF, u32(1 << 25)), True))
    for L in (3, 4):
        cases.append(("cutext", m_cut((-L) & 0xFFFFFFFF, u32(1 << 25)[:L]), True))
    for n in (M - 1, M, M + 1, 0xFFFFFFFF, 0):     # Provide: declared (inflated) size at the 1 MiB guard
        z = zlib.compress(u32(n) + b"t" * min(n, M + 1))
        body = u32((1 << 28) | 1) + z
        cases.append(("cutext-provide", m_cut((-len(body)) & 0xFFFFFFFF, body), True))
    for L in (1, 4094, 4095):
        cases.append(("chat", m_chat(L, b"c" * L), False))
    for L in (0, 4096, 4097, 0xFFFFFFFC, 0xFFFFFFFD, 0xFFFFFFFE, 0xFFFFFFFF):
        cases.append(("chat", m_chat(L, b"c" * 8), False))
    for n in (0, 1, 254, 255):
        cases.append(("sds", m_sds(W, H, n, screens(n, rng)), False))
    for n in (0, 1, 65535):
        cases.append(("setenc", m_setenc([rng.choice(ENCODERS + PSEUDO) for _ in range(n)]), False))
    cases.append(("setenc-short", m_setenc([E_RAW, E_APP], 4), False))
    for sc in (0, 1, 2, W - 1, W, W + 1, H - 1, H, H + 1, 255):
        cases.append(("scale", m_scale(sc & 0xFF) + m_fbur(0, 0, 0, W, H), False))
    for L in (0, 1, (1 << 31) - 1, 1 << 31, 0xFFFFFFFF):
        for ct in (3, 5):
            cases.append(("ft", m_ft(ct, 0, 0, L, b"a.txt"[:min(L, 5)]), False))
    for bpp in (8, 16, 32):
        for sh in (bpp - 1, bpp, bpp + 1):
            for mx in (0, 1):
                cases.append(("spf", m_spf(bpp, bpp, 0, 1, mx, 1, 1, sh, 0, 1) + m_setenc([E_ZRLE]) + m_fbur(0, 0, 0, W, H), False))
        cases.append(("spf", m_spf(bpp, bpp, 0, 1, (1 << (bpp // 2)) - 1, 1, 1, bpp // 2, 0, 1) + m_setenc([E_TIGHT]) + m_fbur(0, 0, 0, W, H), False))
        cases.append(("spf", m_spf(bpp, bpp, 0, 1, (1 << (bpp // 2)), 1, 1, bpp // 2, 0, 1), False))
    for b in (0, 1, 4, 7, 9, 15, 17, 24, 31, 33):
        cases.append(("spf", m_spf(b, b, 0, 1, 1, 1, 1, 0, 1, 2), False))
    cases.append(("xvp", m_xvp(0, 1), False))
    cases.append(("xvp", m_xvp(1, 2), False))
    if cfg["tight"] and not cfg["pw"]:
        for L in (1, 4095, 4096, 32767, 32768, 65535):
            nm = b"/" + b"n" * (L - 1)
            cases += [("tight", t_list(0, nm), False), ("tight", t_dl(nm), False), ("tight", t_ul(nm), False)]
        for L in (4093, 4094, 4095, 65535):
            cases.append(("tight", t_mkdir(b"/" + b"n" * (L - 1)), False))
        for L in (0, 1, 65535):
            cases += [("tight", t_dlcancel(b"r" * L), False), ("tight", t_ulfail(b"r" * L), False)]
        cases += [("tight", t_uldata(0, 65535, 65535, b"d" * 65535), False), ("tight", t_uldata(0, 0, 0, u32(7)), False)]
    for nm, m, ext in cases:
        i = s.handshake(via_tight=(nm == "tight"))
        if ext:
            s.send(i, m_setenc([E_RAW, E_EXTCLIP]))
        s.tag("core-" + nm)
        s.send(i, m + (b"" if nm.endswith("-short") else m_key(1, 0x41)))
        if nm in ("scale", "spf"):
            s.tick()
    s.tick()
    s.lines.append("end")
    return s


def core_trunc(cfg):
    """every message type cut off after its first byte and one byte before its end; peers that
    stop reading (write wait) and that hang up"""
    import random
    rng = random.Random(4006)
    s = Script(rng, dict(cfg))
    pool = valid_messages(rng, cfg) + ft_messages(rng)[:8] + (tight_messages(rng)[:8] if cfg["tight"] and not cfg["pw"] else [])
    for nm, m in pool:
        for k in sorted(set([1, len(m) - 1])):
            if 0 < k < len(m):
                i = s.handshake(via_tight=nm.startswith("t-"))
                s.tag("core-trunc")
                s.send(i, m[:k])
    # SetEncodings resets useNewFBSize: a later scale request is answered at once (the write blocks) unless
    # the client asked for NewFBSize in its LAST SetEncodings
    for encs in ([E_RAW], [E_RAW, E_NEWFB], [E_NEWFB, E_RAW]):
        i = s.handshake()
        s.send(i, m_setenc([E_RAW, E_NEWFB]) + m_setenc(encs) + (m_setenc([E_HEX]) if encs[0] == E_NEWFB else b""))
        s.lines.append("stopread %d" % i)
        s.send(i, m_scale(2))
    for m in (m_fbur(0, 0, 0, cfg["w"], cfg["h"]), m_xvp(2, 1)):
        i = s.handshake()
        s.lines.append("stopread %d" % i)
        s.send(i, m)
        i = s.handshake()
        s.send(i, m, eof=True)
    s.tick()
    s.lines.append("end")
    return s


def core_ws(cfg):
    """WebSocket smoke: an oversized control frame (3000-byte ping) before and after the RFB
    handshake must close the connection, not wedge the server (C09's finding, recorded under C04)"""
    import random
    rng = random.Random(4007)
    s = Script(rng, dict(cfg, pw=0, tight=0))
    for stage in (0, 1, 2):
        for op in (9, 10, 8):
            i = s.conn(WS_REQ)
            if stage >= 1:
                s.send(i, ws_frame(rng, b"RFB 003.008\n"))
            if stage >= 2:
                s.send(i, ws_frame(rng, u8(1)) + ws_frame(rng, u8(1)))
            s.tag("core-ws")
            s.send(i, ws_frame(rng, b"p" * 3000, opcode=op))
            s.send(i, ws_frame(rng, m_key(1, 0x41)))
    s.tick()
    s.lines.append("end")
    return s


def ws_raw(b1, lenfield, mask=b"\x01\x02\x03\x04", payload=b""):
    """a frame from raw header fields (lets the length encoding be wrong on purpose)"""
    return u8(b1) + lenfield + (mask or b"") + payload


def ws_malformed(rng):
    """complete but malformed frames / header encodings (decoder itself: C09)"""
    mk = lambda p, m=b"\x01\x02\x03\x04": bytes(b ^ m[k & 3] for k, b in enumerate(p))
    key = m_key(1, 0x41)
    return [
        ("ws-len126-small", ws_raw(0x82, u8(0x80 | 126) + u16(8), payload=mk(key))),          # non-minimal 16-bit length
        ("ws-len127-small", ws_raw(0x82, u8(0x80 | 127) + struct.pack(">Q", 8), payload=mk(key))),
        ("ws-len127-huge", ws_raw(0x82, u8(0x80 | 127) + struct.pack(">Q", 1 << 40))),
        ("ws-len127-topbit", ws_raw(0x82, u8(0x80 | 127) + struct.pack(">Q", (1 << 63) | 5))),
        ("ws-len127-max", ws_raw(0x82, u8(0x80 | 127) + struct.pack(">Q", (1 << 64) - 1))),
        ("ws-len126-max", ws_raw(0x82, u8(0x80 | 126) + u16(65535), payload=mk(b"z" * 100))),
        ("ws-unmasked", ws_raw(0x82, u8(8), mask=None, payload=key)),
        ("ws-rsv", ws_raw(0xF2, u8(0x80 | 8), payload=mk(key))),
        ("ws-cont-first", ws_raw(0x80, u8(0x80 | 8), payload=mk(key))),                      # continuation without start
        ("ws-frag", ws_raw(0x02, u8(0x80 | 4), payload=mk(key[:4])) + ws_raw(0x80, u8(0x80 | 4), payload=mk(key[4:]))),
        ("ws-frag-ctl", ws_raw(0x02, u8(0x80 | 4), payload=mk(key[:4])) + ws_raw(0x89, u8(0x80 | 2), payload=mk(b"hi")) +
         ws_raw(0x80, u8(0x80 | 4), payload=mk(key[4:]))),
        ("ws-ctl-nofin", ws_raw(0x09, u8(0x80 | 2), payload=mk(b"hi"))),
        ("ws-ping", ws_raw(0x89, u8(0x80 | 125), payload=mk(b"p" * 125))),
        ("ws-ping126", ws_raw(0x89, u8(0x80 | 126) + u16(126), payload=mk(b"p" * 126))),
        ("ws-close-payload", ws_raw(0x88, u8(0x80 | 2), payload=mk(u16(1000)))),
        ("ws-text", ws_raw(0x81, u8(0x80 | 8), payload=mk(key))),
        ("ws-zero", ws_raw(0x82, u8(0x80))),
        ("ws-reserved-op", ws_raw(0x83, u8(0x80 | 8), payload=mk(key))),
    ]


def ws_handshakes():
    """requests for webSocketsHandshake: over-long (limit 4096 -1/0/+1), missing fields, Hixie keys"""
    def req(lines):
        return b"GET / HTTP/1.1\r\n" + b"".join(l + b"\r\n" for l in lines) + b"\r\n"
    base = [b"Host: h", b"Origin: http://h", b"Sec-WebSocket-Key: dGhlIHNhbXBsZSBub25jZQ==", b"Sec-WebSocket-Version: 13"]
    out = [("ws-hs-nokey", req([base[0], base[1], base[3]])),
           ("ws-hs-noversion", req(base[:3])),
           ("ws-hs-nohost", req(base[1:])),
           ("ws-hs-noorigin", req([base[0], base[2], base[3]])),
           ("ws-hs-secorigin", req([base[0], b"Sec-WebSocket-Origin: http://h", base[2], base[3]])),
           ("ws-hs-base64", req(base + [b"Sec-WebSocket-Protocol: base64"])),
           ("ws-hs-hixie", req([base[0], base[1], b"Sec-WebSocket-Key1: 4 @1  46546xW%0l 1 5", b"Sec-WebSocket-Key2: 12998 5 Y3 1  .P00"]) + b"12345678"),
           ("ws-hs-two-gets", b"GET /a HTTP/1.1\r\n" + req(base)),
           ("ws-hs-stall", b"GET / HTTP/1.1\r\nHost: h\r\nSec-WebSocket-K"),
           ("ws-hs-shortget", b"GET /\r\n\r\n"),
           ("ws-hs-lf-only", b"GET / HTTP/1.1\nHost: h\n\n")]
    for total in (4094, 4095, 4096, 4097, 5000):
        r0 = req(base + [b"X-Pad: "])
        pad = total - len(r0)
        out.append(("ws-hs-long%d" % total, req(base + [b"X-Pad: " + b"p" * pad])))
    return out


def core_listen(cfg):
    """peers arriving through the listening socket (rfbProcessNewConnection): normal, hang-up before
    the version string, every webSocketsCheck arm, a connection flood against the fd quota, then a
    normal client again; injected read/select/write errors; the EBADF arm after a failed reply;
    slow-trickle peers; HTTP smoke"""
    import random
    rng = random.Random(4008)
    s = Script(rng, dict(cfg, http=1))
    W, H = cfg["w"], cfg["h"]
    wait = cfg["wait"] or 20000
    def lconn(pre, eof=False):
        i = s.next_id
        s.next_id = s.next_id % 14 + 1
        s.lines.append("lconn %d %s%s" % (i, hx(pre), " eof" if eof else ""))
        return i
    def hs():
        i = lconn(b"RFB 003.008\n")
        if cfg["pw"]:
            s.send(i, u8(2)); s.lines.append("auth %d ok" % i)
        else:
            s.send(i, u8(1))
        s.send(i, u8(1))
        return i
    for pre in (b"", b"RFB 003.008\n", b"ABCD", b"GET garbage\r\n\r\n", b"\x16\x03\x01\x00\x05hello", b"\x80\x80\x01\x03", b"RFB "):
        s.tag("core-listen")
        i = lconn(pre)
        s.send(i, b"RFB 003.008\n" if pre == b"" else u8(1))
        lconn(pre, eof=True)
    s.lines.append("lflood 24")
    s.tick()
    i = hs()
    s.send(i, m_key(1, 0x41))
    s.lines.append("lflood 40")
    i = hs()
    # injected errors of read / select / write on the server side
    for kind, msg in (("rd_eintr", m_key(1, 1)), ("sel_err", m_key(1, 1)[:4]), ("rd_reset", m_key(1, 1)),
                      ("wr_eintr", m_xvp(2, 1)), ("wr_zero", m_xvp(2, 1)), ("sel_err", m_cut(9, b"abc")),
                      ("rd_eintr", m_cut(3, b"abc") + m_chat(2, b"hi"))):
        i = hs()
        s.tag("core-fault")
        s.lines.append("fault %d %s" % (i, kind))
        s.send(i, msg)
        s.send(i, m_key(0, 2))
    # the reply to the first encoding cannot be written: the client is closed, the loop goes on and the
    # next rfbReadExact runs on sock == -1 (EBADF arm)
    if cfg["xvp"]:
        for mode in ("eof", "stop"):
            i = hs()
            if mode == "stop":
                s.lines.append("stopread %d" % i)
            s.send(i, m_setenc([E_XVP, E_RAW, E_APP, E_RAW]), eof=(mode == "eof"))
    # the select of the write path fails / is interrupted while the peer does not read
    for kind in ("wsel_err", "wsel_eintr"):
        i = hs()
        s.lines.append("stopread %d" % i)
        s.lines.append("fault %d %s" % (i, kind))
        s.send(i, m_xvp(2, 1))
    # handshake of a WebSocket client that hangs up: before / inside the request, before the Hixie key
    # bytes, before the 101 response can be written
    for pre in (WS_REQ[:20], WS_REQ[:-2], WS_REQ, ws_handshakes()[6][1][:-8], ws_handshakes()[6][1]):
        lconn(pre, eof=True)
    i = lconn(ws_handshakes()[6][1][:-8])          # Hixie keys, the 8 key bytes never arrive (timeout)
    # a pending copy is turned into pixel data when the client withdraws CopyRect
    i = hs()
    s.send(i, m_setenc([E_RAW, E_COPY]) + m_fbur(0, 0, 0, W, H))
    s.tick()
    s.lines.append("app copy 8 2 %d %d 2 0" % (W - 4, H - 1))
    s.send(i, m_setenc([E_RAW]) + m_fbur(1, 0, 0, W, H))
    s.tick()
    # extended clipboard Request / Peek answered from published clipboard data
    if cfg["utf8"]:
        i = hs()
        s.send(i, m_setenc([E_RAW, E_EXTCLIP]))
        s.send(i, m_cut((-8) & 0xFFFFFFFF, u32((1 << 24) | 1) + u32(1 << 20)))   # caps: text only
        s.lines.append("app cututf8 300")
        for fl in (1 << 25, 1 << 26):
            s.send(i, m_cut((-4) & 0xFFFFFFFF, u32(fl | 1)))
        s.send(i, m_cut((-8) & 0xFFFFFFFF, u32((1 << 24) | (1 << 27) | (1 << 28) | 1) + u32(1 << 20)))   # caps: text, notify, provide
        for fl in (1 << 25, 1 << 26):
            s.send(i, m_cut((-4) & 0xFFFFFFFF, u32(fl | 1)))
    # slow trickle: one byte every wait-1 ms
    for msg in (m_key(1, 0x41), m_cut(5, b"hel"), m_key(1, 1) + m_ptr(0, 1, 1) + m_fbur(1, 0, 0, W, H), m_setenc([E_RAW, E_APP], 5),
                m_sds(W, H, 1, screens(1, rng)) + m_chat(3, b"abc")):
        i = hs()
        s.tag("core-trickle")
        s.send(i, msg, trickle=wait - 1)
        s.send(i, m_key(0, 2))
    i = lconn(b"")
    s.send(i, b"RFB 003.008\n" + u8(2 if cfg["pw"] else 1), trickle=wait - 1)
    # HTTP listener smoke
    for rq in (b"GET /index.vnc HTTP/1.0\r\n\r\n", b"GET / HTTP/1.0\r\n\r\n", b"GET /a.txt HTTP/1.1\r\nHost: h\r\n\r\n",
               b"GET /../../etc/passwd HTTP/1.0\r\n\r\n", b"GET /nonexistent HTTP/1.0\r\n\r\n", b"POST / HTTP/1.0\r\n\r\n",
               b"CONNECT vnc HTTP/1.0\r\n\r\n", b"CONNECT h:5900 HTTP/1.0\r\n\r\n", b"GET " + b"/" + b"A" * 2000 + b" HTTP/1.0\r\n\r\n",
               b"G", b"GET /index.vnc", b"\r\n\r\n", b"GET  HTTP/1.0\r\n\r\n", b"GET /index.vnc?user=x&y=%zz HTTP/1.0\r\n\r\n",
               b"\x00" * 40, b"GET /" + b"B" * 40000):
        s.tag("core-http")
        s.lines.append("http %s%s" % (hx(rq), " eof" if rng.random() < 0.5 else ""))
    s.tick()
    s.lines.append("end")
    return s


def core_ws2(cfg):
    """WebSocket: handshake variants and malformed frame classes, whole and split at every header byte"""
    import random
    rng = random.Random(4009)
    s = Script(rng, dict(cfg, pw=0, tight=0))
    for nm, rq in ws_handshakes():
        s.tag("core-" + nm[:9])
        i = s.conn(rq)
        s.send(i, ws_frame(rng, b"RFB 003.008\n"))
    for nm, fr in ws_malformed(rng):
        for cuts in (None, list(range(1, min(len(fr), 15)))):
            i = s.conn(WS_REQ)
            s.send(i, ws_frame(rng, b"RFB 003.008\n") + ws_frame(rng, u8(1)) + ws_frame(rng, u8(1)))
            s.tag("core-" + nm)
            s.send(i, fr + ws_frame(rng, m_key(0, 2)), cuts)
    # the peer hangs up / the read fails inside a frame header, inside the extended length, inside the payload
    big = ws_frame(rng, b"k" * 300)
    for part in (big[:1], big[:3], big[:6], big[:40]):
        i = s.conn(WS_REQ)
        s.send(i, ws_frame(rng, b"RFB 003.008\n"))
        s.send(i, part, eof=True)
        i = s.conn(WS_REQ)
        s.send(i, ws_frame(rng, b"RFB 003.008\n"))
        s.send(i, part)
        s.lines.append("fault %d rd_reset" % i)
        s.send(i, big[len(part):len(part) + 2])
    # a large server->client message over WebSocket (rfbWriteExact chunking at UPDATE_BUF_SIZE),
    # also to a WebSocket client that has stopped reading (a chunk write fails)
    i = s.conn(WS_REQ)
    s.send(i, ws_frame(rng, b"RFB 003.008\n") + ws_frame(rng, u8(1)) + ws_frame(rng, u8(1)))
    j = s.conn(WS_REQ)
    s.send(j, ws_frame(rng, b"RFB 003.008\n") + ws_frame(rng, u8(1)) + ws_frame(rng, u8(1)))
    s.lines.append("stopread %d" % j)
    s.lines.append("app cuttext 100000")
    s.tick()
    s.lines.append("end")
    return s


def core_tight(cfg):
    """TightVNC file-transfer extension (security type 16): the whole client message family in the
    states that matter — upload in progress / none, download in progress / none — with hostile sizes
    (realSize != compressedSize both ways, 0, 65535), paths outside the root, over-long names"""
    import random
    rng = random.Random(4010)
    s = Script(rng, dict(cfg, tight=1, pw=0, view=0))
    def hs():
        i = s.conn(b"RFB 003.008\n")
        s.send(i, u8(16))
        s.send(i, u8(1))
        return i
    def step(i, m):
        s.tag("core-tight")
        s.send(i, m + m_key(1, 0x41))
    datas = [(4, 4, b"abcd"), (60000, 4, b"abcd"), (4, 60000, b"e" * 60000), (65535, 1, b"x"), (1, 65535, b"y" * 65535),
             (0, 7, b"1234567"), (7, 0, b""), (65535, 65535, b"z" * 65535)]
    # upload in progress: every size combination as the first data block of a fresh upload
    for k, (real, comp, data) in enumerate(datas):
        i = hs()
        step(i, t_ul(b"/up%d.bin" % k))
        step(i, t_uldata(0, real, comp, data))
        step(i, t_uldata(0, 4, 4, b"more"))
        step(i, t_uldata(0, 0, 0, u32(1234567)))          # end of upload (mtime)
        step(i, t_uldata(0, real, comp, data))             # data after the end: no upload in progress
    # compressed blocks are refused; failed / cancelled uploads; a second upload replaces the first
    i = hs()
    step(i, t_ul(b"/c.bin")); step(i, t_uldata(1, 100, 4, b"abcd")); step(i, t_uldata(0, 4, 4, b"abcd"))
    step(i, t_ul(b"/d.bin")); step(i, t_ulfail(b"disk full")); step(i, t_uldata(0, 9, 3, b"abc"))
    step(i, t_ul(b"/e.bin")); step(i, t_ul(b"/f.bin")); step(i, t_uldata(0, 3, 3, b"abc")); step(i, t_ulfail(b""))
    # no upload in progress at all
    i = hs()
    for real, comp, data in datas[:4]:
        step(i, t_uldata(0, real, comp, data))
    step(i, t_uldata(0, 0, 0, u32(1))); step(i, t_ulfail(b"x")); step(i, t_dlcancel(b"y"))
    # paths outside the root, directories, over-long and empty names, for every request type
    names = [b"/../../../etc/passwd", b"/d/../../x", b"..", b"/", b"/d", b"/a.txt", b"/nonexistent/x", b"/" + b"q" * 4094,
             b"/" + b"q" * 4095, b"/a.txt\x00tail", b"a.txt", b"/up0.bin"]
    for nm in names:
        i = hs()
        step(i, t_list(0, nm)); step(i, t_list(16, nm)); step(i, t_mkdir(nm + b".dir"))
        step(i, t_ul(nm)); step(i, t_uldata(0, 5000, 2, b"hi")); step(i, t_uldata(0, 0, 0, u32(0)))
        i = hs()
        step(i, t_dl(nm)); step(i, t_dlcancel(b"enough")); step(i, t_dl(nm, 0xFFFFFFFF)); step(i, t_dlcancel(b""))
    # download of an uploaded file, twice without cancelling, then hang up
    i = hs()
    step(i, t_ul(b"/big.bin")); step(i, t_uldata(0, 65535, 65535, b"B" * 65535)); step(i, t_uldata(0, 0, 0, u32(5)))
    step(i, t_dl(b"/big.bin")); step(i, t_dl(b"/big.bin")); step(i, t_dl(b"/a.txt"))
    s.lines.append("reset %d" % i)
    # an upload left open when the peer goes away
    i = hs()
    step(i, t_ul(b"/open.bin")); step(i, t_uldata(0, 60000, 4, b"abcd"))
    s.lines.append("reset %d" % i)
    s.tick()
    s.lines.append("end")
    return s


def core_wait(wait):
    """the two timeout comparisons at their boundaries: a write to a stuck peer gives up after
    ceil(wait/5000) rounds (4999/5000 -> 1, 5001 -> 2), a read after exactly one wait"""
    import random
    rng = random.Random(4011)
    cfg = dict(CORE_CFGS[0], wait=wait, tight=0, ft=0)
    s = Script(rng, cfg)
    i = s.handshake()
    s.lines.append("stopread %d" % i)
    s.send(i, m_fbur(0, 0, 0, cfg["w"], cfg["h"]))
    i = s.handshake()
    s.lines.append("stopread %d" % i)
    s.send(i, m_xvp(2, 1))
    i = s.handshake()
    s.send(i, m_cut(9, b"abc"))
    i = s.handshake()
    s.send(i, m_key(1, 0x41), trickle=max(1, wait - 1))
    i = s.conn(b"")
    s.send(i, b"RFB 003.008")
    s.tick()
    s.lines.append("end")
    return s


def core_preauth(cfg):
    """protocol versions, security types and authentication outcomes, one connection each"""
    import random
    rng = random.Random(4012)
    s = Script(rng, dict(cfg))
    for v in (b"RFB 003.003\n", b"RFB 003.006\n", b"RFB 003.007\n", b"RFB 003.008\n", b"RFB 003.889\n", b"RFB 004.000\n",
              b"RFB 002.008\n", b"RFB 003.008\r", b"RFB  03.  8\n", b"RFB -03.008\n", b"RFB 003.-08\n", b"RFB 003.00\x00\n",
              b"RFB 003.\n\n\n\n", b"RFC 003.008\n", b"RFB 003.008"):
        s.tag("core-version")
        i = s.conn(v)
        s.send(i, u8(2 if cfg["pw"] else 1) + u8(1))
    for minor in (7, 8, 889):
        for t in (0, 1, 2, 3, 16, 17, 255):
            s.tag("core-sectype")
            i = s.conn(b"RFB 003.%03d\n" % minor)
            s.send(i, u8(t))
            s.send(i, u8(1) + m_key(1, 0x41))
    if cfg["pw"]:
        for minor in (3, 7, 8):
            for kind in ("ok", "bad", "short"):
                i = s.conn(b"RFB 003.%03d\n" % minor)
                if minor >= 7:
                    s.send(i, u8(2))
                s.lines.append("auth %d %s" % (i, kind))
                s.send(i, u8(1) + m_key(1, 0x41))
        i = s.conn(b"RFB 003.008\n")
        s.send(i, u8(2) + b"\0" * 16)
        i = s.conn(b"RFB 003.008\n")
        s.send(i, u8(2) + b"\0" * 15)
    s.tick()
    s.lines.append("end")
    return s


def core_cursor(bytespp):
    """application cursors whose image just fits / just does not fit the update buffer in the
    CLIENT's pixel format, on 8 and 16 bpp screens, sent as RichCursor / XCursor to clients whose
    format is wider than, equal to and narrower than the server's"""
    import random
    rng = random.Random(4013 + bytespp)
    cfg = dict(CORE_CFGS[0], w=192, h=192, bpp=bytespp, tight=0, ft=0, wenc=0)
    s = Script(rng, cfg)
    W, H = cfg["w"], cfg["h"]
    # 32 bpp client: 4*n*n + mask + 18 <= 32768 up to n = 88; 16 bpp: up to 124; 8 bpp: up to 170
    sizes = [16, 88, 89, 90, 124, 125, 128, 170, 171, 182]
    fmts = [m_spf(), m_spf(16, 16, 0, 1, 31, 63, 31, 11, 5, 0), m_spf(8, 8, 0, 1, 7, 7, 3, 0, 3, 6), b""]
    for n in sizes:
        s.lines.append("app cursor %d %d" % (n, n))
        s.tick()
        for fmt in fmts:
            for enc in (E_RICH, E_XCURSOR):
                i = s.handshake()
                s.tag("core-cursor")
                s.send(i, fmt + m_setenc([E_RAW, enc]) + m_fbur(0, 0, 0, W, H))
                s.send(i, m_fbur(1, 0, 0, W, H))
        s.tick()
    s.lines.append("app cursor %d %d" % (300, 3))
    i = s.handshake()
    s.send(i, m_spf() + m_setenc([E_HEX, E_RICH, E_PTRPOS]) + m_fbur(0, 0, 0, W, H))
    s.tick()
    s.lines.append("end")
    return s


def core_scripts():
    out = []
    for cfg in CORE_CFGS:
        out.append(("core_rect_raw", core_rect(cfg, E_RAW)))
        out.append(("core_rect_hextile", core_rect(cfg, E_HEX)))
        out.append(("core_guards", core_guards(cfg)))
        out.append(("core_trunc", core_trunc(cfg)))
    out.append(("core_ws", core_ws(CORE_CFGS[0])))
    out.append(("core_ws2", core_ws2(CORE_CFGS[0])))
    out.append(("core_tight", core_tight(CORE_CFGS[0])))
    for bytespp in (1, 2, 4):
        out.append(("core_cursor", core_cursor(bytespp)))
    for w in (4999, 5000, 5001, 10000, 0):
        out.append(("core_wait", core_wait(w)))
    for cfg in CORE_CFGS + [dict(CORE_CFGS[0], pw=1), dict(CORE_CFGS[1], tight=1)]:
        out.append(("core_preauth", core_preauth(cfg)))
    for cfg in CORE_CFGS:
        out.append(("core_listen", core_listen(cfg)))
    return out


SCENARIOS = [(sc_mix, 30), (sc_fields, 30), (sc_trunc, 12), (sc_preauth, 12), (sc_pixfmt, 12), (sc_scale, 8), (sc_block, 10),
             (sc_ft, 10), (sc_clip, 8), (sc_unknown, 4), (sc_copyrects, 3), (sc_ws, 6), (sc_listen, 8)]


def gen_scripts(rng, n):
    tot = sum(w for _, w in SCENARIOS)
    out = []
    for _ in range(n):
        r = rng.uniform(0, tot)
        for f, w in SCENARIOS:
            r -= w
            if r <= 0:
                break
        out.append((f.__name__, f(rng)))
    return out


# ----------------------------------------------------------------------------- oracle
def parse_kv(line):
    d = {}
    for t in line.split()[1:]:
        if "=" in t:
            k, v = t.split("=", 1)
            d[k] = v
    return d


def ceil_div(a, b): return -(-a // b)


def oracle(script, cfg, impl, solo):
    """direct property oracle on the implementation's observations only (no model)"""
    ops = [l for l in script.splitlines() if l and not l.startswith("#")]
    obs = [l for l in impl if not l.startswith("#")]
    raws = [l for l in impl if l.startswith("#raw")]
    if "HANG" in impl:
        return "server wedged: an operation did not return (real-time watchdog)"
    if len(obs) != len(ops):
        return "observation count %d != ops %d (harness stopped early)" % (len(obs), len(ops))
    wait = cfg["wait"] or 20000
    kw = ceil_div(wait, 5000)
    # the proven per-message bounds (Props/C04.lean msgMax_value): 1 MiB (every screen of the
    # generator is smaller than that), INT_MAX + 18 when file transfer is permitted
    abound = (1 << 31) - 1 + 18 if cfg["ft"] else (1 << 20)
    ri = 0
    for op, ob in zip(ops, obs):
        if not ob.startswith("r "):
            continue
        t = ob.split()
        d = parse_kv(" ".join(t[2:]))
        raw = parse_kv(raws[ri]) if ri < len(raws) else {}
        ri += 1
        rw, ww, vt = int(d["rw"]), int(d["ww"]), int(d["vt"])
        closed = t[2].startswith("closed")
        if rw > 1:
            return "more than one read wait in one operation: %s after %s" % (ob, op[:80])
        if ww > kw:
            return "more than ceil(wait/5000) write waits: %s" % ob
        if ww and rw:
            return "read wait and write wait on the same connection in one operation: %s" % ob
        if (ww or (rw and not op.startswith(("conn", "lconn")))) and not closed:
            return "peer went silent for a full wait but the connection stays open: %s" % ob
        call = int(raw.get("call", 0))
        tr = [t for t in op.split() if t.startswith("trickle=")]
        if tr:
            # slow-trickle peer: the stated bound is one wait per byte (Props: slow_trickle_bound,
            # trickle_stream_bound); it must still end with at most one full wait
            nbytes = len(op.split()[2]) // 2
            if vt > nbytes * wait:
                return "trickling peer kept the server busy %d ms > %d bytes x wait %d: %s" % (vt, nbytes, wait, ob)
        elif call > max(wait, kw * 5000, 100):
            return "one library call blocked %d ms (virtual) > client wait %d: %s" % (call, wait, ob)
        amax = int(raw.get("amax", 0))
        if amax > abound:
            return "allocation of %d bytes on behalf of one message (bound %d): %s after %s" % (amax, abound, ob, op[:80])
        # update sending (not modelled): encoder state is sized by the screen, never by the request
        if int(raw.get("umax", 0)) > (4 << 20):
            return "allocation of %s bytes while sending an update (screens here are at most 128x96)" % raw.get("umax")
    for l in impl:
        if l.startswith("#flood"):
            d = parse_kv(l)
            want, acc, ref = int(d["want"]), int(d["accepted"]), int(d["refused"])
            if acc + ref != want:
                return "connection flood: %d connects, %d accepted + %d refused (some neither served nor refused)" % (want, acc, ref)
            if ref == 0 or acc == 0:
                return "connection flood with the fd limit set for half of %d connects: accepted %d, refused %d (fd quota not enforced)" % (want, acc, ref)
    if "#leak 1" in impl:
        return "memory allocated on behalf of client input is never released (LeakSanitizer, after all hostile peers are gone)"
    wi = [l for l in impl if l.startswith("#wit")]
    ws = [l for l in solo if l.startswith("#wit")]
    if wi != ws:
        for a, b in zip(wi, ws):
            if a != b:
                return "witness output differs from its solo run: with hostile peers %r, alone %r" % (a, b)
        return "witness tick count differs: %d vs %d" % (len(wi), len(ws))
    if wi and wi[-1].split()[2] != "1":
        return "witness is no longer connected at the end"
    return None


# Signatures of the genuine defects found on the unchanged tree (docs/C04.md).  A failure is tagged with
# a finding id only if it shows exactly that defect's signature; anything else stays a violation.
import re as _re
FINDING_SIGS = [
    ("C04-pixfmt-shift-ub", _re.compile(r"(tableinittctemplate|tableinit24|zrle|zrleencodetemplate|tight)\.c:\d+:\d+: runtime error: shift exponent -?\d+ is (too large|negative)")),
    ("C04-copyregion-overflow", _re.compile(r"rfbserver\.c:\d+:\d+: runtime error: index \d+ out of bounds for type 'char \[32768\]'")),
]


def classify_finding(script, cfg, impl, err):
    for fid, rx in FINDING_SIGS:
        if rx.search(err or ""):
            return fid
    if "HANG" in impl and cfg.get("ft"):
        # rfbWriteExact leaves outputMutex locked: only reachable after a file-transfer request (type 7,
        # content 3) whose reply could not be written (peer stopped reading or is gone)
        ops = [l for l in script.splitlines() if l and not l.startswith("#")]
        obs = [l for l in impl if not l.startswith("#")]
        last = ops[len(obs) - 1] if 0 < len(obs) <= len(ops) else ""
        sends = [l for l in ops[:len(obs)] if l.startswith("send ")]
        if any(" 0703" in (" " + l.split()[2]) or "0703" in l.split()[2] for l in sends) and \
           (any(l.startswith("stopread") for l in ops[:len(obs)]) or any(l.endswith(" eof") for l in sends) or last.startswith(("tick", "reset"))):
            return "C04-writeexact-lock-wedge"
    return None


import threading as _threading
_RETRY_LOCK = _threading.Lock()
_HANG_CONFIRMED = []


def run_one(ctx, h, d, script, cfg):
    env = {"ASAN_OPTIONS": "detect_leaks=1:abort_on_error=0:allocator_may_return_null=1:max_allocation_size_mb=8192"}
    rc, impl, err = ctx.run_lines(h, script, timeout=300, env=env)
    if "HANG" in impl:
        # the watchdog is the only real-time limit that can become a VIOLATION: confirm it by one
        # serial retry with three times the limit (a loaded machine must not look like a wedged server)
        with _RETRY_LOCK:
            if not _HANG_CONFIRMED:      # one confirmed wedge is enough; later ones are reported as they are
                rc, impl, err = ctx.run_lines(h, script, timeout=900, env=dict(env, C04_WATCHDOG="135"))
                if "HANG" in impl:
                    _HANG_CONFIRMED.append(1)
    fail = None
    if rc != 0:
        kind = "crash"
        what = "harness exit %d" % rc
        if "HANG" in impl:
            what = "server wedged (watchdog)"
        return impl, [], {"kind": kind, "what": "C04: " + what, "script": script.splitlines()[:600],
                          "impl": impl[-12:], "detail": err, "finding": classify_finding(script, cfg, impl, err)}
    rc2, solo, err2 = ctx.run_lines(h, script, timeout=300, env=env, args=["--solo"])
    o = oracle(script, cfg, impl, solo)
    if o:
        return impl, [], {"kind": "oracle", "what": "C04 oracle", "detail": o, "script": script.splitlines()[:600],
                          "impl": impl[-12:]}
    model = []
    if ctx.driver_ok:
        rc3, model, err3 = ctx.run_lines(d, script, timeout=300)
        if rc3 != 0:
            return impl, model, {"kind": "exact", "what": "C04: model driver exit %d" % rc3,
                                 "script": script.splitlines()[:600], "detail": err3}
        obs = [l for l in impl if not l.startswith("#")]
        f = compare(obs, model)
        if f is not None:
            return impl, model, {"kind": "exact", "what": "C04 message/blocking model", "line": f,
                                 "script": script.splitlines()[:600], "impl": obs[max(0, f - 2):f + 3],
                                 "model": model[max(0, f - 2):f + 3]}
    return impl, model, fail


def compare(obs, model):
    """exact comparison; the model may answer `?` for a connection it does not model (WebSocket/TLS
    entry, zlib-dependent outcomes) and may give a set of allocation classes"""
    if len(obs) != len(model):
        return min(len(obs), len(model))
    for k, (a, b) in enumerate(zip(obs, model)):
        if a == b:
            continue
        ta, tb = a.split(), b.split()
        if tb[:1] == ["r"] and len(tb) >= 3 and tb[2] == "?" and ta[:2] == tb[:2]:
            continue
        if tb == ["end", "?"] and ta[:1] == ["end"]:
            continue
        if len(ta) == len(tb) and ta[:-1] == tb[:-1] and ta[-1].startswith("a=") and tb[-1].startswith("a="):
            if ta[-1][2:] in tb[-1][2:].split("|"):
                continue
        return k
    return None


def cfg_of(script):
    cfg = {"w": 64, "h": 48, "bpp": 4, "pw": 0, "ft": 0, "tight": 0, "xvp": 0, "utf8": 0, "sdh": 0,
           "wait": 20000, "wenc": 5, "view": 0}
    for l in script.splitlines():
        if l.startswith("cfg "):
            for t in l.split()[1:]:
                k, v = t.split("=")
                cfg[k] = int(v)
    return cfg


def run(ctx):
    h = ctx.harness("c04", extra=HARNESS_EXTRA)
    d = ctx.driver("drv_c04")
    fails, samples, dist = [], [], {"scenario": {}, "tags": {}, "ops": {}, "closed": 0, "open": 0,
                                    "read_waits": 0, "write_waits": 0, "alloc_class": {}}
    scripts = []
    cdir = os.path.join(common.VERIF, "corpus", "C04")
    if ctx.replay:
        rec = json.load(open(ctx.replay))
        scripts = [("replay", "\n".join(rec.get("script", [])) + "\n", {})]
    else:
        for f in sorted(os.listdir(cdir)) if os.path.isdir(cdir) else []:
            if f.endswith(".ops"):
                scripts.append(("corpus:" + f, open(os.path.join(cdir, f)).read(), {}))
        n = 600 if ctx.tier == "quick" else 15000
        for name, s in core_scripts():
            scripts.append((name, s.text(), s.tags))
        for name, s in gen_scripts(ctx.rng, n):
            scripts.append((name, s.text(), s.tags))
    results = common.pmap(lambda sc: run_one(ctx, h, d, sc[1], cfg_of(sc[1])), scripts)
    import glob, shutil
    import time as _time
    for dpath in glob.glob("/tmp/c04sbx-*"):          # sandboxes of harness runs that died long ago
        try:
            if _time.time() - os.path.getmtime(dpath) > 1800:
                shutil.rmtree(dpath, ignore_errors=True)
        except OSError:
            pass
    evals, seen = 0, set()
    for (name, script, tags), (impl, model, f) in zip(scripts, results):
        dist["scenario"][name] = dist["scenario"].get(name, 0) + 1
        for k, v in tags.items():
            dist["tags"][k] = dist["tags"].get(k, 0) + v
        for l in script.splitlines():
            k = l.split()[0]
            dist["ops"][k] = dist["ops"].get(k, 0) + 1
        for l in impl:
            if l.startswith("r "):
                evals += 1
                t = l.split()
                dist["closed" if t[2].startswith("closed") else "open"] += 1
                kv = parse_kv(l)
                dist["read_waits"] += int(kv.get("rw", 0))
                dist["write_waits"] += int(kv.get("ww", 0))
                dist["alloc_class"][kv.get("a", "?")] = dist["alloc_class"].get(kv.get("a", "?"), 0) + 1
        for l in script.splitlines():
            if l.startswith("send "):
                seen.add(l.split()[2][:64] + l[-12:])
        if f:
            f["scenario"] = name
            fails.append(f)
        if len(samples) < 3 and name.startswith(("sc_", "core_")):
            samples.append({"scenario": name, "script": script.splitlines()[:40], "impl": impl[:40]})
        if len(fails) >= 6:
            break
    return {
        "evaluations": evals, "distinct_nontrivial": len(seen),
        "rule": "one evaluation = one scripted hostile operation (connect / byte string in a given segmentation / auth response / reset) run on the real server and on the model; non-trivial = distinct (payload prefix, segmentation) of a `send` that reached a message handler",
        "samples": samples, "distribution": dist, "failures": fails,
        "partial": PARTIAL, "assumptions": ASSUMPTIONS,
    }


PARTIAL = [
    "memory safety of code outside the modelled guards/size computations is sampled by the ASan/UBSan correspondence run, not proven",
    "slow-trickle peers (one byte per wait-epsilon) keep a call busy for reads_in_message x wait; proven is the bound for peers that stop or reset",
    "WebSocket entry point: smoke scenario only here (decoder: C09); the HTTP entry point is not exercised here (C20)",
]
ASSUMPTIONS = [
    "single-threaded application-driven event loop (rfbProcessEvents); threaded mode is C13",
    "the application callbacks are well-behaved (return, do not touch other clients)",
    "a wrong 16-byte VNC-auth response never equals the DES-encrypted challenge",
]

META = {
    "technique": "Lean 4 theorems about executable models of every client->server message handler's length/size guards, rectangle clipping, pixel-format validation, update-buffer bookkeeping and the read/write wait loops + sanitizer-instrumented correspondence run with virtual time, allocation recorder and witness client",
    "level_text": "Proof of the modelled guards and blocking structure; the runtime part (memory safety of unmodelled code) is sampled by the correspondence run.",
    "level_note": "Trusted: Lean kernel, T0 constants, harness/driver/generator. Partial: see evidence.partial.",
    "design_ref": "DESIGN.md section 7, C04",
}
