"""C17 — server-side scaling: consistent geometry, correctly filtered pixels.

Proof: lean/VncModel/Props/C17.lean over the model lean/VncModel/Scale/{Model,State}.lean.
Tie:   correspondence run harness/c17.c (real scale.c / rfbserver.c / main.c over socketpairs)
       against Driver/C17.lean: told size, scaled-screen chain with refcounts, hook rectangle ->
       wire rectangle of every predictable update, FNV of scaled framebuffers and client pictures,
       pointer mapping; relation check of ScaleX/ScaleY (exhaustive <= 512, random 16 bit) and of
       rfbScaledCorrection against the software-float model in every run.
Oracle (model independent, on the implementation's output only): told size = W div n x H div n and
       never a zero dimension; every received rectangle non-empty and inside the told size (checked
       in the harness while decoding); after a client has requested everything its picture equals
       the reference box filter of the framebuffer (computed by the harness in C, independent of
       the library); refcounts = number of clients per size; mapped-back pointer inside the block.
"""
import json, os, glob
from .. import common

GEN = ["leaf"]
PROPS_MOD = "VncModel.Props.C17"
EXTRA_TARGETS = ["drv_c17"]

FMTS = ["8m", "8", "16", "24", "32"]
DIMS = [1, 2, 3, 4, 5, 6, 7, 8, 9, 10, 11, 12, 13, 16, 17, 19, 20, 23, 24, 29, 31, 32, 37, 41, 43, 47,
        49, 53, 59, 61, 64, 98, 103, 107]
# sizes with common divisors (factors dividing both dimensions) and rounding-sensitive widths
NICE = [(16, 8), (32, 16), (24, 12), (64, 32), (98, 4), (49, 7), (12, 9), (20, 10), (30, 20), (60, 40),
        (36, 24), (48, 36), (98, 14), (103, 2), (107, 3), (40, 30), (18, 12), (27, 9), (56, 42), (100, 25),
        (120, 20), (150, 16), (16, 120), (104, 24), (200, 12)]


# ------------------------------------------------------------------ finding predicates (fallback)
def py_scale_divfirst(x, fw, tw):
    """the unfixed ScaleX in IEEE doubles (Python floats are binary64, round to nearest even)"""
    return int((float(x) / float(fw)) * float(tw))


def geom_flags(W, H, n):
    fl = set()
    if n == 0:
        return fl
    tw, th = W // n, H // n
    if tw == 0 and th != 0:
        fl.add("scale-zero-width")
    if tw and th and (tw, th) != (W, H):
        if any(py_scale_divfirst(x, tw, W) != x * W // tw for x in range(0, tw + 1)) or \
           any(py_scale_divfirst(y, th, H) != y * H // th for y in range(0, th + 1)):
            fl.add("scale-divide-first-rounding")
        if W - (W // tw) * tw >= 2 or H - (H // th) * th >= 2:
            fl.add("scale-partial-update-origin")
    return fl


# ------------------------------------------------------------------ generator
class Gen:
    def __init__(self, rng, maxarea):
        self.rng = rng
        self.lines = []
        r = rng.random()
        if r < 0.10:
            self.W, self.H = 1, rng.choice(DIMS)
        elif r < 0.18:
            self.W, self.H = rng.choice(DIMS), 1
        elif r < 0.45:
            self.W, self.H = rng.choice(NICE)
        else:
            while True:
                self.W = rng.choice(DIMS) if rng.random() < 0.8 else rng.randint(1, 110)
                self.H = rng.choice(DIMS) if rng.random() < 0.8 else rng.randint(1, 70)
                if self.W * self.H <= maxarea:
                    break
        self.fmt = rng.choice(FMTS)
        self.big = False
        self.cursor = False
        if maxarea and rng.random() < 0.04:
            # reduced picture of a Raw client larger than the 32 KiB update buffer (multi-piece Raw rectangles)
            self.big = True
            self.W, self.H = rng.choice([(208, 200), (220, 180), (1024, 40), (400, 96), (190, 230)])
            self.fmt = "32"
        # soft-cursor mode: the screen has a visible cursor, clients without `shape` get it painted
        if not self.big and self.fmt != "8m" and self.W >= 16 and self.H >= 16 and rng.random() < 0.12:
            self.cursor = True
        self.cl = {}          # id -> dict(tw, th, synced, dirty, nfs, mask)
        self.next_id = 0
        self.defer = 0
        self.chain = set()    # sizes of the scaled screens that exist (for collision-free resizes)
        self.flags = set()
        self.dist = {}

    def emit(self, s):
        self.lines.append(s)
        k = s.split()[0]
        self.dist[k] = self.dist.get(k, 0) + 1

    def join(self):
        i = self.next_id
        self.next_id += 1
        nfs = 1 if self.rng.random() < 0.3 else 0
        enc = self.rng.choice(["raw", "raw", "raw", "corre", "corre", "zlib", "ultra"])
        if self.fmt == "24" or self.big:
            enc = "raw"     # the splitting encoders have no 24 bpp client format (they fail the update)
        cr = self.rng.random() < 0.25
        shape = self.cursor and i > 0 and self.rng.random() < 0.7   # the first client keeps the soft cursor
        soft = self.cursor and not shape
        self.emit("client %d %d %s%s%s" % (i, nfs, enc, " cr" if cr else "", " shape" if shape else ""))
        self.cl[i] = dict(tw=self.W, th=self.H, synced=False, dirty=True, nfs=nfs, mask=0, enc=enc, cr=cr, soft=soft)
        return i

    def factor(self):
        rng, W, H = self.rng, self.W, self.H
        r = rng.random()
        if r < 0.30:
            return rng.randint(1, 4)
        if r < 0.55:
            ds = [d for d in range(2, min(255, min(W, H)) + 1) if W % d == 0 and H % d == 0]
            if ds:
                return rng.choice(ds)
            ds = [d for d in range(1, min(255, max(W, H)) + 1) if W % d == 0 or H % d == 0]
            return rng.choice(ds)
        if r < 0.67:
            # reduce a dimension to 1 (n = W or H, or just below) / to 0 (just above)
            return max(0, min(255, rng.choice([min(W, H), min(W, H), max(W, H), min(W, H) + 1,
                                               max(W, H) + 1, min(W, H) - 1, min(W, H) // 2, min(W, H) // 2 + 1])))
        if r < 0.70:
            return 255
        if r < 0.73:
            return 0
        if r < 0.90:
            return rng.randint(1, max(1, min(255, min(W, H))))
        return rng.randint(1, 255)

    def full_req(self, i, inc):
        c = self.cl[i]
        self.emit("req %d %d 0 0 %d %d" % (i, inc, c["tw"], c["th"]))
        if inc == 0:
            c["synced"] = True
        c["dirty"] = False

    def pic(self, i):
        c = self.cl[i]
        if c["soft"]:
            return          # its picture contains the painted cursor: not compared
        if c["synced"] and not c["dirty"]:
            self.lines.append("# sure")
        self.emit("pic %d" % i)

    def scale(self, i):
        rng = self.rng
        n = self.factor()
        v = rng.choice("up")
        self.emit("scale %d %s %d" % (i, v, n))
        self.flags |= geom_flags(self.W, self.H, n)
        c = self.cl[i]
        if n == 0:
            del self.cl[i]
            self.emit("geom")
            return
        tw, th = self.W // n, self.H // n
        if tw and th:
            c["tw"], c["th"] = tw, th
            if (tw, th) != (self.W, self.H):
                self.chain.add((tw, th))
        c["synced"] = False
        self.emit("geom")
        self.emit("cl %d" % i)
        if rng.random() < 0.9:
            self.full_req(i, 0)
            self.pic(i)
            if rng.random() < 0.5:
                self.emit("sfb %d" % i)

    def draw(self):
        rng, W, H = self.rng, self.W, self.H
        k = rng.random()
        if k < 0.25:      # 1-pixel rects, edges preferred
            x = rng.choice([W - 1, 0, rng.randrange(W), rng.randrange(W)])
            y = rng.choice([H - 1, 0, rng.randrange(H), rng.randrange(H)])
            w = h = 1
        elif k < 0.35:    # right / bottom edge strips
            if rng.random() < 0.5:
                x, w = W - 1, 1
                y = rng.randrange(H); h = rng.randint(1, H - y)
            else:
                y, h = H - 1, 1
                x = rng.randrange(W); w = rng.randint(1, W - x)
        elif k < 0.45:
            x, y, w, h = 0, 0, W, H
        else:
            x = rng.randrange(W); y = rng.randrange(H)
            w = rng.randint(1, W - x); h = rng.randint(1, H - y)
            if rng.random() < 0.5:
                w = min(w, rng.randint(1, 6)); h = min(h, rng.randint(1, 6))
        self.emit("draw %d %d %d %d %d" % (x, y, w, h, rng.randrange(1 << 31)))
        for c in self.cl.values():
            c["dirty"] = True

    def tile_draw(self):
        """a modification whose extent in the view of a CoRRE client is 48 by truncation and 49 after
        rounding up (starts at a source coordinate that is not a multiple of the factor)"""
        rng, W, H = self.rng, self.W, self.H
        cand = [c for c in self.cl.values() if c["enc"] == "corre" and (c["tw"], c["th"]) != (W, H)]
        rng.shuffle(cand)
        for c in cand:
            tw, th = c["tw"], c["th"]
            # horizontal: smallest w from x = 1 with floor(w*tw/W) == 48 and the corrected extent 49
            opts = []
            if tw >= 49:
                for w in range(1, W):
                    if 1 + w <= W and (w * tw) // W == 48 and -((-(1 + w) * tw) // W) >= 49:
                        opts.append((1, rng.randrange(H), w, 1 + rng.randrange(min(6, H)))); break
            if th >= 49:
                for h in range(1, H):
                    if 1 + h <= H and (h * th) // H == 48 and -((-(1 + h) * th) // H) >= 49:
                        opts.append((rng.randrange(W), 1, 1 + rng.randrange(min(6, W)), h)); break
            if opts:
                x, y, w, h = rng.choice(opts)
                w = min(w, W - x); h = min(h, H - y)
                self.emit("draw %d %d %d %d %d" % (x, y, w, h, rng.randrange(1 << 31)))
                for d in self.cl.values():
                    d["dirty"] = True
                return True
        return False

    def newfb(self):
        """rfbNewFramebuffer: mostly a same-size buffer swap; a resize only when every client would be
        told (NewFBSize) and the recomputed scaled sizes stay pairwise distinct"""
        rng, W, H = self.rng, self.W, self.H
        if self.fmt == "8m" or not self.cl or self.cursor:
            return
        nW, nH = W, H
        if rng.random() < 0.4 and all(c["nfs"] for c in self.cl.values()):
            for _ in range(6):
                cw, ch = rng.choice(DIMS), rng.choice(DIMS)
                if cw * ch > 2600 or (cw, ch) == (W, H):
                    continue
                rs = lambda t, o, nn: max(1, t * nn // o)
                nd = [(rs(a, W, cw), rs(b, H, ch)) for (a, b) in self.chain]
                if len(set(nd)) == len(nd) and (cw, ch) not in nd:
                    nW, nH = cw, ch
                    break
        if (nW, nH) != (W, H) and (nW < W or nH < H):
            for j in sorted(self.cl):       # nothing may stay requested outside the smaller screen
                self.full_req(j, 0)
        self.emit("newfb %d %d %d" % (nW, nH, rng.randrange(1 << 31)))
        rs = lambda t, o, nn: max(1, t * nn // o)
        self.chain = set((rs(a, W, nW), rs(b, H, nH)) for (a, b) in self.chain)
        for c in self.cl.values():
            if (c["tw"], c["th"]) == (W, H):
                c["tw"], c["th"] = nW, nH
            else:
                c["tw"], c["th"] = rs(c["tw"], W, nW), rs(c["th"], H, nH)
            c["synced"] = False
            c["dirty"] = True
        self.W, self.H = nW, nH
        self.emit("geom")
        for j in sorted(self.cl):
            if rng.random() < 0.85:
                self.full_req(j, rng.randint(0, 1))     # everything is marked modified: incremental is enough
                self.cl[j]["synced"] = True
                self.pic(j)

    def copy(self):
        """rfbDoCopyRect: destination and source inside the screen"""
        rng, W, H = self.rng, self.W, self.H
        w = rng.randint(1, W); h = rng.randint(1, H)
        x = rng.randint(0, W - w); y = rng.randint(0, H - h)
        sx = rng.randint(0, W - w); sy = rng.randint(0, H - h)
        if rng.random() < 0.3:
            sy = y                      # horizontal scroll
        elif rng.random() < 0.3:
            sx = x                      # vertical scroll
        self.emit("%s %d %d %d %d %d %d" % (rng.choice(["copy", "schedcopy"]), x, y, w, h, x - sx, y - sy))
        for c in self.cl.values():
            c["dirty"] = True
            if c["cr"]:
                c["synced"] = False     # scaled CopyRect is approximate: judged after a full refresh only

    def ptr1(self, i, mask):
        rng, c = self.rng, self.cl[i]
        tw, th = c["tw"], c["th"]
        x = rng.choice([0, tw - 1, rng.randrange(tw), rng.randrange(tw), tw, 65535])
        y = rng.choice([0, th - 1, rng.randrange(th), rng.randrange(th), th])
        self.emit("ptr %d %d %d %d" % (i, x, y, mask))
        c["mask"] = mask

    def pointer(self, i):
        """pointer traffic of client i: single events, drags (moves with unchanged mask, then a button
        change), timer flushes, switching motion coalescing on and off"""
        rng, c = self.rng, self.cl[i]
        k = rng.random()
        if k < 0.2:
            self.defer = 0 if self.defer else 100000
            self.emit("defer %d" % self.defer)
        if k < 0.5:
            self.ptr1(i, c["mask"] if rng.random() < 0.6 else rng.choice([0, 1, 4]))
        else:
            m = rng.choice([0, 1, 2])
            self.ptr1(i, m)
            for _ in range(rng.randint(1, 3)):
                self.ptr1(i, m)
            if rng.random() < 0.5:
                self.ptr1(i, rng.choice([0, 1, 3]))
            else:
                self.emit("ptrflush")
        if rng.random() < 0.3 and c["mask"]:
            self.ptr1(i, 0)      # release, so that other clients get the pointer again

    def mark_overshoot(self):
        """rfbMarkRectAsModified with a rectangle hanging over an edge / inverted / outside, then
        every client re-requests everything and is compared with the reference"""
        rng, W, H = self.rng, self.W, self.H
        k = rng.randrange(7)
        a, b = rng.randint(1, 9), rng.randint(1, 9)
        y1 = rng.randrange(H); y2 = min(H, y1 + rng.randint(1, 8))
        x1 = rng.randrange(W); x2 = min(W, x1 + rng.randint(1, 8))
        if k == 0:
            r = (-a, y1, min(W, b), y2)               # over the left edge
        elif k == 1:
            r = (x1, -a, x2, min(H, b))               # over the top edge
        elif k == 2:
            r = (max(0, W - b), y1, W + a, y2)        # over the right edge
        elif k == 3:
            r = (x1, max(0, H - b), x2, H + a)        # over the bottom edge
        elif k == 4:
            r = (min(W, b), y2, -a, y1)               # inverted corners, over the left edge
        elif k == 5:
            r = (-a, -b, W + a, H + b)                # everything and more
        else:
            r = rng.choice([(-a, y1, 0, y2), (W, y1, W + a, y2), (x1, H, x2, H + b), (x1, y1, x1, y2)])  # empty
        self.emit("mark %d %d %d %d" % r)
        for j in sorted(self.cl):
            self.full_req(j, 0)
            self.pic(j)

    def step(self):
        rng = self.rng
        ids = sorted(self.cl)
        if not ids:
            if self.next_id < 8:
                self.join()
            return
        i = rng.choice(ids)
        c = self.cl[i]
        r = rng.random()
        if r < 0.16:
            self.scale(i)
        elif r < 0.46:
            for _ in range(rng.choice([1, 1, 1, 2, 3])):
                if rng.random() < 0.35 and self.tile_draw():
                    continue
                if rng.random() < 0.2:
                    self.copy()
                else:
                    self.draw()
            who = ids if rng.random() < 0.7 else [j for j in ids if rng.random() < 0.5]
            for j in who:
                self.full_req(j, 1)
            if rng.random() < 0.7:
                for j in ids:
                    if rng.random() < 0.8:
                        self.pic(j)
        elif r < 0.54:
            tw, th = c["tw"], c["th"]
            if rng.random() < 0.12:   # odd request: partly or entirely outside the told size
                x = rng.choice([tw, tw - 1, tw + 3, 0, 65535]); y = rng.choice([0, th, th - 1, 65535])
                w = rng.choice([0, 1, tw, tw + 5, 65535]); h = rng.choice([0, 1, th, th + 5, 65535])
                if rng.random() < 0.4:      # zero-sized request inside the told size
                    x, y = rng.randrange(tw), rng.randrange(th)
                    w, h = rng.choice([(0, 0), (0, rng.randint(1, th - y)), (rng.randint(1, tw - x), 0)])
                self.emit("req %d %d %d %d %d %d" % (i, rng.randint(0, 1), max(0, x), max(0, y), w, h))
                c["synced"] = False
            else:
                x = rng.randrange(tw); y = rng.randrange(th)
                w = rng.randint(1, tw - x); h = rng.randint(1, th - y)
                self.emit("req %d %d %d %d %d %d" % (i, rng.randint(0, 1), x, y, w, h))
        elif r < 0.62:
            self.pic(i)
        elif r < 0.68:
            self.pointer(i)
        elif r < 0.71:
            self.mark_overshoot()
        elif r < 0.74:
            self.newfb()
        elif r < 0.82:
            if len(ids) < 3 and self.next_id < 8:
                j = self.join()
                if rng.random() < 0.6:
                    self.scale(j)
                self.emit("geom")
        elif r < 0.88:
            if len(ids) > 1 or rng.random() < 0.3:
                if rng.random() < 0.25:
                    self.emit("scalecut %d %s" % (i, rng.choice("up")))
                else:
                    self.emit("leave %d" % i)
                del self.cl[i]
                self.emit("geom")
        elif r < 0.94:
            self.emit("sfb %d" % i)
        else:
            self.full_req(i, 0)
            self.pic(i)

    def build(self, nsteps):
        rng = self.rng
        self.emit("screen %d %d %s" % (self.W, self.H, self.fmt))
        if self.cursor:
            self.emit("cursor")
        for _ in range(rng.choice([1, 1, 2, 3])):
            self.join()
        self.emit("draw 0 0 %d %d %d" % (self.W, self.H, rng.randrange(1 << 31)))
        for i in sorted(self.cl):
            if rng.random() < 0.8:
                self.scale(i)
        for _ in range(nsteps):
            self.step()
        for i in sorted(self.cl):
            self.full_req(i, 1)
            self.pic(i)
        self.emit("geom")
        return "\n".join(self.lines) + "\n"


def ops_of(script):
    """[(op line, sure flag)] for the non-comment lines"""
    out, sure = [], False
    for l in script.splitlines():
        t = l.strip()
        if not t:
            continue
        if t.startswith("#"):
            if t == "# sure":
                sure = True
            continue
        out.append((t, sure))
        sure = False
    return out


def refine(script, model):
    """second pass: where the model cannot predict the rectangles of an update the op becomes the
    quiet variant `reqq`; `pic` ops whose picture the model cannot predict are dropped unless sure"""
    ops = ops_of(script)
    if len(model) != len(ops):
        return script
    out = []
    for (op, sure), m in zip(ops, model):
        t = op.split()
        if t[0] == "req" and m.endswith(" ?"):
            out.append("reqq " + " ".join(t[1:]))
        elif t[0] == "pic" and m.endswith(" ?"):
            if sure:
                out.append("# sure")
                out.append("picq " + t[1])
        else:
            if sure:
                out.append("# sure")
            out.append(op)
    return "\n".join(out) + "\n"


# ------------------------------------------------------------------ direct oracle
def oracle(script, impl):
    """property oracle on the implementation's observations only"""
    ops = ops_of(script)
    if len(ops) != len(impl):
        for ob in impl:
            if "ORACLE" in ob:
                return ob
        return "observation count %d != ops %d" % (len(impl), len(ops))
    W = H = None
    dims = {}       # live client -> dims of its scaled screen as told / implied by the protocol
    nfs_wait = {}   # nfs clients whose size announcement is still to come
    defer, owner, lastmask, pend = 0, None, {}, {}   # pointer delivery: defer time, grabbing client, coalesced
    nfs_clients = set()
    cut_pending, last_sizes = False, None
    for (op, sure), ob in zip(ops, impl):
        t = op.split()
        if "ORACLE" in ob:
            return "%s -> %s" % (op, ob)
        if ob == "bad-op":
            continue
        if t[0] == "screen":
            W, H = int(t[1]), int(t[2])
        elif t[0] == "client":
            dims[int(t[1])] = (W, H)
            if int(t[2]):
                nfs_clients.add(int(t[1]))
        elif t[0] == "newfb":
            if ob != "ok":
                continue
            nW, nH = int(t[1]), int(t[2])
            last_sizes = None
            for i in list(dims):
                if dims[i] == (W, H):
                    dims[i] = (nW, nH)
                else:
                    dims[i] = (max(1, dims[i][0] * nW // W), max(1, dims[i][1] * nH // H))
                if i in nfs_clients:
                    nfs_wait[i] = dims[i]
            for i, p in list(pend.items()):
                pass
            W, H = nW, nH
        elif t[0] in ("leave", "scalecut"):
            if t[0] == "scalecut":
                cut_pending = True
            dims.pop(int(t[1]), None)
            pend.pop(int(t[1]), None)
            lastmask.pop(int(t[1]), None)
            if owner == int(t[1]):
                owner = None
        elif t[0] == "scale":
            i, n = int(t[1]), int(t[3])
            o = ob.split()
            if n == 0:
                if o[0] != "closed":
                    return "scale factor 0 accepted: %s -> %s" % (op, ob)
                dims.pop(i, None)
                pend.pop(i, None)
                lastmask.pop(i, None)
                if owner == i:
                    owner = None
                continue
            if o[0] == "closed":
                return "client closed by a non-zero factor: %s -> %s" % (op, ob)
            tw, th = W // n, H // n
            want = (tw, th) if (tw and th) else dims[i]    # a zero dimension must be refused
            if o[2] == "none":
                nfs_wait[i] = want
                dims[i] = want
                continue
            got = (int(o[3]), int(o[4])) if o[2] == "u" else (int(o[5]), int(o[6]))
            if got[0] < 1 or got[1] < 1:
                return "client told a zero dimension: %s -> %s" % (op, ob)
            if got != want:
                return "told size %r, expected %r (W div n x H div n): %s -> %s" % (got, want, op, ob)
            if o[2] == "p" and (int(o[3]), int(o[4])) != (W, H):
                return "PalmVNC desktop size wrong: %s -> %s" % (op, ob)
            dims[i] = want
        elif t[0] in ("req", "reqq"):
            i = int(t[1])
            for tok in ob.split():
                if tok.startswith("nfs="):
                    g = tuple(int(v) for v in tok[4:].split("x"))
                    if i in nfs_wait and g != nfs_wait[i]:
                        return "NewFBSize %r, expected %r: %s -> %s" % (g, nfs_wait[i], op, ob)
                    nfs_wait.pop(i, None)
        elif t[0] in ("pic", "picq"):
            if sure and "DIFF" in ob:
                return "client picture differs from the reference box filter after it requested everything: %s -> %s" % (op, ob)
        elif t[0] == "geom":
            parts = ob.split()[1:]
            sizes_now = set(p.split(":")[0] for p in parts)
            if cut_pending and last_sizes is not None and not sizes_now <= last_sizes:
                return "a SetScale message that was never completely received created a scaled screen %s: %s" % (sorted(sizes_now - last_sizes), ob)
            cut_pending = False
            last_sizes = sizes_now
            seen, total = {}, 0
            for p in parts:
                d, r = p.split(":")
                w, h = (int(v) for v in d.split("x"))
                if (w, h) in seen:
                    return "two scaled screens of the same size: " + ob
                seen[(w, h)] = int(r)
                total += int(r)
                if w < 1 or h < 1:
                    return "scaled screen with a zero dimension: " + ob
            if total != len(dims):
                return "refcounts sum to %d with %d clients: %s" % (total, len(dims), ob)
            for key, r in seen.items():
                users = sum(1 for v in dims.values() if v == key)
                if users != r:
                    return "screen %dx%d has refcount %d but %d users: %s" % (key[0], key[1], r, users, ob)
        elif t[0] == "cl":
            o = ob.split()
            i = int(t[1])
            w, h = (int(v) for v in o[2].split("x"))
            if i in dims and dims[i] != (w, h):
                return "client %d uses %dx%d, expected %r" % (i, w, h, dims[i])
            if (w, h) == (W, H) and "self" not in ob:
                return "factor 1 does not use the screen itself: " + ob
        elif t[0] == "defer":
            o = ob.split()
            if int(t[1]) == 0:
                e = check_flush(o[2:], pend, lastmask, W, H)
                if e:
                    return "%s: %s -> %s" % (e, op, ob)
            defer = int(t[1])
        elif t[0] == "ptrflush":
            e = check_flush(ob.split()[1:], pend, lastmask, W, H)
            if e:
                return "%s: %s -> %s" % (e, op, ob)
        elif t[0] == "ptr":
            o = ob.split()
            i = int(t[1])
            if i not in dims:
                continue
            x, y = int(t[2]) % 65536, int(t[3]) % 65536
            mask = int(t[4]) % 256 if len(t) > 4 else 0
            evs = [tuple(int(v) for v in e.split("@")[0].split(",")) for e in o[3:]]
            if any("@" in e for e in o[3:]):
                return "pointer event attributed to another client: %s -> %s" % (op, ob)
            if owner is not None and owner != i:
                continue                                    # another client holds the pointer (C06)
            owner = i if mask else None
            if mask != lastmask.get(i, 0) or defer == 0:
                want = []
                if pend.get(i):
                    want.append((lastmask.get(i, 0),) + pend[i])
                want.append((mask, x, y, dims[i], (W, H)))
                pend[i] = None
                if len(evs) != len(want):
                    return "pointer event lost or duplicated (%d delivered, %d expected): %s -> %s" % (len(evs), len(want), op, ob)
                for (m, mx, my), (wm, wx, wy, wd, ws) in zip(evs, want):
                    if m != wm or not mapped_ok(mx, my, wx, wy, wd, ws[0], ws[1]):
                        return "pointer not mapped back into its source block (client %d,%d on %dx%d of %dx%d, mask %d): %s -> %s" % (wx, wy, wd[0], wd[1], ws[0], ws[1], wm, op, ob)
            else:
                # coalesced: delivered later, mapped with the scale AND the screen size of this moment
                # (a framebuffer replacement in between does not re-map it)
                pend[i] = (x, y, dims[i], (W, H))
                for (m, mx, my) in evs:                     # (if delivered now it must still be right)
                    if not mapped_ok(mx, my, x, y, dims[i], W, H):
                        return "pointer not mapped back into its source block: %s -> %s" % (op, ob)
                    pend[i] = None
            lastmask[i] = mask
    return None


def mapped_ok(mx, my, x, y, d, W, H):
    """the delivered pixel must overlap the source interval shown by client pixel (x,y)"""
    tw, th = d
    if (tw, th) == (W, H):
        return (mx, my) == (x, y)
    return ((mx + 1) * tw > x * W and mx * tw < (x + 1) * W and
            (my + 1) * th > y * H and my * th < (y + 1) * H)


def check_flush(toks, pend, lastmask, W, H):
    """timer flush: exactly the coalesced positions, each mapped back with the scale it was sent at"""
    got = {}
    for e in toks[1:]:
        cid, rest = e.split(":")
        got[int(cid)] = tuple(int(v) for v in rest.split(","))
    for i, p in list(pend.items()):
        if not p:
            continue
        if i not in got:
            return "coalesced pointer position of client %d lost" % i
        m, mx, my = got.pop(i)
        if m != lastmask.get(i, 0) or not mapped_ok(mx, my, p[0], p[1], p[2], p[3][0], p[3][1]):
            return "coalesced pointer position of client %d (%d,%d on %dx%d) not mapped back" % (i, p[0], p[1], p[2][0], p[2][1])
        pend[i] = None
    if got:
        return "pointer position delivered that no client sent: %r" % got
    return None


    return None


def tag(flags, kind):
    if kind == "crash" and "scale-zero-width" in flags:
        return "scale-zero-width"
    if kind != "crash":
        if "scale-divide-first-rounding" in flags:
            return "scale-divide-first-rounding"
        if "scale-partial-update-origin" in flags:
            return "scale-partial-update-origin"
    return None


def script_flags(script):
    W = H = None
    fl = set()
    for op, _ in ops_of(script):
        t = op.split()
        if t[0] == "screen":
            W, H = int(t[1]), int(t[2])
        elif t[0] == "scale" and W:
            fl |= geom_flags(W, H, int(t[3]))
    return fl


def relation_script(rng, tier):
    big = tier != "quick"
    lines = ["screen 4 4 32", "relx 512", "relr %d %d" % (4000000 if big else 1500000, rng.randrange(1 << 31)),
             "corrsum %d" % (44 if big else 30), "corrrnd %d %d" % (600000 if big else 120000, rng.randrange(1 << 31))]
    for _ in range(3000 if big else 800):
        fw, fh = rng.randint(1, 300), rng.randint(1, 300)
        if rng.random() < 0.7:
            n = rng.randint(1, 12)
            tw, th = max(1, fw // n), max(1, fh // n)
        else:
            tw, th = rng.randint(1, 300), rng.randint(1, 300)
        if rng.random() < 0.3:
            fw, fh, tw, th = tw, th, fw, fh
        x = rng.randrange(fw); y = rng.randrange(fh)
        w = rng.randint(1, fw - x); h = rng.randint(1, fh - y)
        lines.append("corr %d %d %d %d %d %d %d %d" % (fw, fh, tw, th, x, y, w, h))
        lines.append("sx %d %d %d" % (fw, tw, rng.randint(0, fw)))
        lines.append("sy %d %d %d" % (fh, th, rng.randint(0, fh)))
    return "\n".join(lines) + "\n"


def run(ctx):
    h = ctx.harness("c17")
    # minilzo (vendored) loads 32-bit words at unaligned addresses by design (UBSan "misaligned load"
    # inside lzo1x_1_compress, harmless on x86, same treatment as C01/C03): scripts with an Ultra
    # client use a build without the alignment check, everything else the full sanitizer set
    h_noalign = ctx.harness("c17", extra=("-fno-sanitize=alignment",))
    d = ctx.driver("drv_c17")
    fails, samples = [], []
    dist = {"ops": {}, "fmt": {}, "factor_kind": {"divides_both": 0, "non_dividing": 0, "to_1": 0, "to_0": 0,
                                                  "zero": 0, "one": 0},
            "variant": {"u": 0, "p": 0}, "clients_max": {}, "sure_pics": 0, "upd_exact": 0, "upd_quiet": 0,
            "screens": 0, "one_pixel_edge_draws": 0}
    scripts = []      # (name, script, flags)
    if ctx.replay:
        rec = json.load(open(ctx.replay))
        sc = "\n".join(rec.get("script", [])) + "\n"
        scripts.append(("replay", sc, script_flags(sc)))
    else:
        corpus = [] if os.environ.get("C17_NO_CORPUS") else sorted(glob.glob(os.path.join(common.VERIF, "corpus", "C17", "*.ops")))
        for f in corpus:   # (C17_NO_CORPUS=1 is for judging the generator alone when trying mutations)
            sc = open(f).read()
            scripts.append(("corpus:" + os.path.basename(f), sc, script_flags(sc)))
        scripts.append(("relation", relation_script(ctx.rng, ctx.tier), set()))
        n = 200 if ctx.tier == "quick" else 2400
        maxarea = 2600 if ctx.tier == "quick" else 4200
        drafts = []
        for k in range(n):
            g = Gen(ctx.rng, maxarea)
            drafts.append((g, g.build(ctx.rng.choice([6, 10, 16, 24]))))
        # first pass: the model decides which updates / pictures it can predict exactly
        if ctx.driver_ok:
            outs = common.pmap(lambda gs: ctx.run_lines(d, gs[1], timeout=300), drafts)
        else:
            outs = [(1, [], "")] * len(drafts)
        for k, ((g, sc), (rc, model, err)) in enumerate(zip(drafts, outs)):
            if rc == 0:
                sc = refine(sc, model)
            else:
                # no model: quiet requests only, keep the sure pictures (oracle still runs)
                sc = refine(sc, [(" ?" if o.split()[0] in ("req", "pic") else "") for o, _ in ops_of(sc)])
            scripts.append(("gen%d" % k, sc, g.flags))
            dist["fmt"][g.fmt] = dist["fmt"].get(g.fmt, 0) + 1
            dist["screens"] += 1

    def one(item):
        name, sc, flags = item
        return common.compare_streams(ctx, sc, h_noalign if " ultra" in sc else h, d, "scale." + name, timeout=600)

    results = common.pmap(one, scripts)
    evals, nontrivial = 0, set()
    for (name, sc, flags), (impl, model, f) in zip(scripts, results):
        evals += 1
        if f:
            f["finding"] = tag(flags, f["kind"])
            fails.append(f)
        if not (f and f["kind"] == "crash"):
            o = oracle(sc, impl)
            if o:
                fails.append({"kind": "oracle", "what": "C17 scaling oracle (%s)" % name, "detail": o,
                              "script": sc.splitlines(), "impl": impl[-40:], "finding": tag(flags, "oracle")})
        W = H = None
        scaled_pic = False
        for (op, sure), ob in zip(ops_of(sc), impl):
            t = op.split()
            dist["ops"][t[0]] = dist["ops"].get(t[0], 0) + 1
            if t[0] == "screen":
                W, H = int(t[1]), int(t[2])
            elif t[0] == "scale" and W:
                n = int(t[3])
                dist["variant"][t[2][0]] = dist["variant"].get(t[2][0], 0) + 1
                fk = dist["factor_kind"]
                if n == 0:
                    fk["zero"] += 1
                elif n == 1:
                    fk["one"] += 1
                elif W // n == 0 or H // n == 0:
                    fk["to_0"] += 1
                elif W // n == 1 or H // n == 1:
                    fk["to_1"] += 1
                elif W % n == 0 and H % n == 0:
                    fk["divides_both"] += 1
                else:
                    fk["non_dividing"] += 1
            elif t[0] == "draw" and W and t[3] == "1" and t[4] == "1" and (int(t[1]) == W - 1 or int(t[2]) == H - 1):
                dist["one_pixel_edge_draws"] += 1
            elif t[0] in ("pic", "picq") and sure:
                dist["sure_pics"] += 1
                scaled_pic = True
            elif t[0] == "req":
                dist["upd_exact"] += 1
            elif t[0] == "reqq":
                dist["upd_quiet"] += 1
        if scaled_pic and "scale" in sc:
            nontrivial.add(sc)
        if len(samples) < 3 and name.startswith("gen"):
            samples.append({"script": sc.splitlines()[:60], "impl": impl[:60]})
        if len(fails) >= 6:
            break
    return {
        "evaluations": evals, "distinct_nontrivial": len(nontrivial),
        "rule": "scripted sessions (1-3 clients, screen sizes incl. primes / 1xN / rounding-sensitive widths 49,98,103,107, "
                "5 pixel formats (8 colour-mapped, 8, 16, 24, 32 bpp), both SetScale variants, factors 0..255); non-trivial = distinct script with a scale "
                "change and at least one 'sure' picture comparison (client requested everything, picture compared "
                "pixel by pixel with the reference box filter)",
        "samples": samples, "distribution": dist, "failures": fails,
        "partial": [
            "IEEE-754 assumption for rfbScaledCorrection (the only unproved link): the C double expressions are "
            "evaluated as binary64 with round-to-nearest-even and no contraction/excess precision, i.e. equal the "
            "software-float model Scale.corrRaw; validated on every run (corrsum exhaustive 1-D <= 30/44, corrrnd "
            "random 16-bit operands, random 2-D corr lines). The arithmetic half (corrRaw satisfies the relational "
            "bounds CorrRel for all 16-bit operands) is proved: corrRaw_sound",
            "CopyRect under scaling is not modelled (approximate in the code); clients in the run do not use CopyRect",
            "region decomposition (which rectangles an update consists of) is predicted only when the region is a "
            "single rectangle; otherwise only the picture after the update is compared",
        ],
        "assumptions": [
            "model = code with the three C17 fixes (in /repo since 916387d, b3494ad, d7beb2f): ScaleX/ScaleY integer "
            "arithmetic, zero width refused, per-pixel block origin in rfbScaledScreenUpdateRect",
            "single-threaded application-driven event loop; clients use the server pixel format and Raw encoding",
            "framebuffer stride = width*bytesPerPixel (rfbGetScreen default)",
        ],
    }


META = {
    "technique": "Lean 4 theorems about an executable model of scale.c (integer ScaleX/ScaleY, software-float "
                 "rfbScaledCorrection with a relational over-approximation, functional box filter, refcount state "
                 "machine) + correspondence run against the real server over socketpairs + model-independent "
                 "reference box filter oracle",
    "level_text": "Proof: Props/C17.lean proves told size, zero-dimension refusal, corrected rectangles non-empty and "
                  "inside the scaled screen, coverage (every reduced pixel whose block meets a modified rectangle is "
                  "refreshed and sent), all filter reads/writes inside the buffers, refreshed pixels = block average, "
                  "scaled copy = reference image after any modification sequence, pointer mapping into the block, "
                  "refcount conservation for every join/change/leave sequence, factor-1 identity. Tied to the code "
                  "on every run by an exact differential run plus a direct oracle.",
    "level_note": "Trusted: Lean kernel; harness/driver/generator (testing); IEEE-754 evaluation of the double "
                  "expressions in rfbScaledCorrection (validated every run; the error analysis itself is the theorem "
                  "corrRaw_sound). Three defects of the original tree were found and fixed (witnesses in corpus/C17, "
                  "fixes/C17-*.diff, /repo commits 916387d b3494ad d7beb2f); the model follows the fixed code.",
    "design_ref": "DESIGN.md section 7, C17; section 11 (m)",
}
