"""C12 — every connection is torn down exactly once and releases all it acquired.

Proof: lean/VncModel/Props/C12.lean over the life-cycle model lean/VncModel/Life/*.lean
(inductive invariant over all event histories, exactly-once + release + isolation theorems,
counter-example theorems for the defects of the unfixed code).
Tie (every run):
  1. `probe`: the five corpus witnesses decide which of the five known defects the code under test
     still has -> the model VARIANT (one Bool per defect) the code is compared against; a witness that
     fails is reported (finding id), never hidden.
  2. correspondence run: generated life-cycle scripts on harness/c12.c (real server, socketpairs,
     interposed close/read/write/recv/select/fcntl) vs Driver/C12.lean (same script, annotated with
     the observed I/O failures X= and acquired resources R=): exact comparison of every event and
     every per-connection record after every op.
  3. fault enumeration: for base scripts, one run per (fault kind, I/O index); every run is checked
     by the direct oracle, compared with the model, and the streams of unaffected connections are
     compared with the fault-free run.
Direct oracle (no model): per connection gone<=1, close<=1, at the end gone==hooked, close==1,
not listed, no stray descriptor, LeakSanitizer clean, reference counts == number of listed clients.
"""
import json, os, re, glob
from .. import common

PROPS_MOD = "VncModel.Props.C12"
EXTRA_TARGETS = ["drv_c12"]
CORPUS = os.path.join(common.VERIF, "corpus", "C12")

# defect id -> (variant bit index, witness file)
DEFECTS = [
    ("nonblock-fail-leak", "nb"),
    ("closed-unreaped-shutdown-leak", "shut"),
    ("cleanup-wspath-leak", "gonews"),
    ("ws-multi-get-leak", "wsone"),
    ("ft-fd-leak", "ft"),
    ("extension-node-leak", "ext"),
    ("cleanup-extension-close-skipped", "extclose"),
    ("disable-extension-node-leak", "extdis"),
]
HARMFUL = ("eof", "reset", "stall")
KINDS = ("eof", "reset", "stall", "short", "again")
MSG_OPS = ("ver", "sec", "auth", "init", "enc", "req", "scale", "pf", "key", "ptr", "junk", "partial", "ft", "ftgo",
           "closepeer", "resetpeer")
# "ultra" is left out: minilzo does unaligned 32-bit loads by design, which the UBSan build of the
# code under test turns into an abort (not a life-cycle matter)
REFUSED = (97, 100, 128, 129, 200, 255)       # 96/k == 0 (and 128/k == 0 from 129 on)
ENCS = ("raw", "rre", "corre", "hextile", "zlib", "tight", "zrle")


# ------------------------------------------------------------------------------------ parsing
class Line:
    __slots__ = ("raw", "events", "conns", "refs", "stray", "unknown", "kind", "po")

    def __init__(self, raw):
        self.raw = raw
        self.events, self.conns, self.refs, self.stray, self.unknown, self.po = [], {}, None, None, 0, None
        if raw in ("ok", "bad-op") or raw.startswith("out ") or raw.startswith("end "):
            self.kind = raw.split()[0]
            return
        self.kind = "state"
        parts = raw.split(" | ")
        if len(parts) != 3:
            self.kind = "garbled"
            return
        ev = parts[0].split()
        i = 0
        while i < len(ev):
            if ev[i] in ("new", "close", "gone", "kbd", "xnew", "xinit", "xdrop") and i + 1 < len(ev):
                self.events.append((ev[i], ev[i + 1])); i += 2
            elif ev[i] in ("hook", "ret", "fault", "uac", "xclose", "wouldhang") and i + 2 < len(ev):
                self.events.append((ev[i], ev[i + 1], ev[i + 2])); i += 3
            else:
                self.events.append((ev[i],)); i += 1
        for t in parts[1].split():
            f = t.split(":")
            if len(f) == 8:
                self.conns[f[0]] = {"L": f[1] == "L1", "sock": f[2], "hold": f[3], "st": f[4],
                                    "g": int(f[5][1:]), "k": int(f[6][1:]), "res": f[7], "tok": t}
        for t in parts[2].split():
            if t.startswith("refs=") and t != "refs=-":
                self.refs = [int(x) for x in t[5:].split(",")]
            elif t.startswith("stray="):
                self.stray = int(t[6:])
            elif t.startswith("po="):
                self.po = t[3:]
            elif t.startswith("unknown="):
                self.unknown = int(t[8:])


def strip_inputs(raw):
    """remove `fault cN call` events (they are inputs of the run, not behaviour) from a line"""
    if " | " not in raw:
        return raw
    ev, rest = raw.split(" | ", 1)
    t = ev.split()
    out, i = [], 0
    while i < len(t):
        if t[i] == "fault":
            i += 3
        elif t[i] == "xclose" and i + 2 < len(t) and t[i + 2] == "n":
            # a redundant rfbCloseClient (several error paths call it twice) tells the extension again,
            # without data: how often is not part of the comparison (the data hand-over is)
            i += 3
        else:
            out.append(t[i]); i += 1
    return (" ".join(out) or "-") + " | " + rest


# ------------------------------------------------------------------------------------ oracle
def oracle(script, impl, stderr="", faulted=()):
    """direct property oracle; returns list of (message, conn or None)"""
    ops = [l for l in script.splitlines() if l and not l.startswith("#") and not l.startswith("end")]
    bad = []
    if len(impl) != len(ops) + 1:
        return [("observation count %d != ops %d + end" % (len(impl), len(ops)), None)]
    hooked, seen, kicks, cleaned, did_shutdown, ftopen = set(), set(), {}, False, False, {}
    xnew, xinit, xclosed = {}, {}, {}
    prev, prev_nscr = None, 0
    for op, raw in zip(ops, impl):
        t = op.split()
        ln = Line(raw)
        if ln.kind == "garbled":
            bad.append(("garbled observation %r" % raw, None)); continue
        if ln.kind != "state":
            continue
        for e in ln.events:
            if e[0] == "new": seen.add(e[1])
            if e[0] == "hook": hooked.add(e[1])
            if e[0] == "xnew": xnew[e[1]] = xnew.get(e[1], 0) + 1
            if e[0] == "xinit":
                xinit[e[1]] = xinit.get(e[1], 0) + 1
                if xinit[e[1]] > 1: bad.append(("extension init hook ran %d times for %s (op %r)" % (xinit[e[1]], e[1], op), e[1]))
            if (e[0] == "xclose" and e[2] == "d") or e[0] == "xdrop":
                # the data goes to the close hook, or (extension disabled) to rfbDisableExtension's free()
                xclosed[e[1]] = xclosed.get(e[1], 0) + 1
                if xclosed[e[1]] > xnew.get(e[1], 0): bad.append(("extension close hook got data %d times for %s (op %r)" % (xclosed[e[1]], e[1], op), e[1]))
            if e[0] == "wouldhang":
                bad.append(("the server would block forever in %s() on the blocking socket of %s (op %r)" % (e[2], e[1], op), e[1]))
            if e[0] == "uac": bad.append(("descriptor of %s used after close (%s) at op %r" % (e[1], e[2], op), e[1]))
            if e == ("gone", "?") or e[:2] == ("hook", "?"): bad.append(("callback for unknown client at op %r" % op, None))
            if e[0] == "pump-cap": bad.append(("event loop does not come to rest at op %r" % op, None))
        if t[0] == "gonekick": kicks[t[1]] = t[2]
        if t[0] == "cleanup": cleaned = True
        if t[0] == "shutdown": did_shutdown = True
        if ln.unknown:
            bad.append(("%d listed client(s) the application never saw, at op %r" % (ln.unknown, op), None))
        nlisted = 0
        for c, s in ln.conns.items():
            if s["g"] > 1: bad.append(("client-gone callback ran %d times for %s (op %r)" % (s["g"], c, op), c))
            if s["k"] > 1: bad.append(("socket of %s closed %d times (op %r)" % (c, s["k"], op), c))
            if s["L"]:
                nlisted += 1
                if s["g"] != 0: bad.append(("%s still listed after its gone callback (op %r)" % (c, op), c))
                if s["sock"] == "open" and s["k"] != 0: bad.append(("%s has an open socket record but %d close() (op %r)" % (c, s["k"], op), c))
                if s["sock"] == "closed" and s["k"] != 1: bad.append(("%s marked closed with %d close() (op %r)" % (c, s["k"], op), c))
            elif c in seen:
                # not reachable through the client list any more: must be completely torn down
                want_g = 1 if c in hooked else 0
                if s["g"] != want_g: bad.append(("%s is unlisted but gone callback ran %d times, expected %d (op %r)" % (c, s["g"], want_g, op), c))
                if s["k"] != 1: bad.append(("%s is unlisted but its socket was closed %d times (op %r)" % (c, s["k"], op), c))
                if xclosed.get(c, 0) != xnew.get(c, 0):
                    bad.append(("%s is unlisted but its extension data was handed to the close hook %d times, allocated %d times (op %r)"
                                % (c, xclosed.get(c, 0), xnew.get(c, 0), op), c))
        if ln.po is not None and ln.po != "-" and not (ln.po in ln.conns and ln.conns[ln.po]["L"]):
            bad.append(("screen->pointerClient is %s, not a listed client (op %r)" % (ln.po, op), None))
        if ln.refs is not None and sum(ln.refs) != nlisted:
            bad.append(("scaled-screen reference counts %r do not add up to the %d listed clients (op %r)" % (ln.refs, nlisted, op), None))
        if ln.refs is not None:
            for c, s in ln.conns.items():
                m = re.match(r"s(\d+)", s["res"])
                if m and (int(m.group(1)) >= len(ln.refs) or ln.refs[int(m.group(1))] < 1):
                    bad.append(("%s references a screen whose count is 0 (op %r)" % (c, op), c))
        for c, s in ln.conns.items():
            if s["L"] and s["sock"] == "open": ftopen[c] = bool(re.search(r"f1e\d+d\d+$", s["res"]))
            elif not s["L"]: ftopen[c] = False
        nft = sum(1 for v in ftopen.values() if v)
        if ln.stray is not None and ln.stray > nft:
            bad.append(("%d descriptor(s) owned by nobody (op %r)" % (ln.stray - nft, op), None))
        # progress
        if t[0] in MSG_OPS or t[0] in ("pump", "draw"):
            for c, s in ln.conns.items():
                if s["L"] and s["sock"] == "closed":
                    bad.append(("%s closed but not reaped by the event loop (op %r)" % (c, op), c))
        if t[0] in ("closepeer", "resetpeer") and prev is not None and len(t) > 1 and t[1] in prev and t[1] not in faulted:
            was, now = prev[t[1]], ln.conns.get(t[1])
            if was["L"] and was["hold"] == "h0" and now is not None and now["L"]:
                bad.append(("the peer of %s has gone and the event loop has come to rest, but the client is still listed: "
                            "its disconnect is not noticed (op %r)" % (t[1], op), t[1]))
        if t[0] == "shutdown" and nlisted:
            bad.append(("%d client(s) still listed after rfbShutdownServer" % nlisted, None))
        # isolation inside the run: an op aimed at one connection leaves the others' records alone
        if prev is not None and (t[0] in MSG_OPS or t[0] in ("conn", "hconn", "appclose", "start", "refuse")) and len(t) > 1:
            for c, s in ln.conns.items():
                if c == t[1] or c not in prev: continue
                # a scaled screen allocated for somebody else is linked right behind the main screen:
                # the chain positions (s<k>, k >= 1) of the existing scaled screens move up by one
                shift = (len(ln.refs) - prev_nscr) if (ln.refs is not None and prev_nscr) else 0
                ptok = re.sub(r":s(\d+)z", lambda m: ":s%dz" % (int(m.group(1)) + (shift if int(m.group(1)) >= 1 else 0)), prev[c]["tok"])
                if s["tok"] != ptok:
                    legit = (t[0] == "init" and len(t) > 2 and t[2] == "0") or c in kicks.values()
                    # a faulted/condemned connection may finish dying during somebody else's op
                    dying = prev[c]["sock"] == "closed" or c in faulted
                    if not legit and not dying:
                        bad.append(("op %r changed the record of %s: %s -> %s" % (op, c, prev[c]["tok"], s["tok"]), c))
        prev = ln.conns
        prev_nscr = len(ln.refs) if ln.refs is not None else 0
        if bad and len(bad) > 12:
            break
    end = impl[-1]
    m = re.match(r"end io=(\d+) openleft=(\d+) stray=(\d+) leaks=(\d+)( kinds=\S+)?$", end)
    if not m:
        bad.append(("no end line: %r" % end, None))
    else:
        if cleaned and int(m.group(2)): bad.append(("%s socket(s) never closed" % m.group(2), None))
        if cleaned and int(m.group(3)): bad.append(("%s descriptor(s) leaked" % m.group(3), None))
        # unreachable memory is a leak whether or not the screen was cleaned up
        if int(m.group(4)): bad.append(("LeakSanitizer: memory leaked: " + leak_summary(stderr), None))
    return bad


def leak_summary(stderr):
    fr = re.findall(r"#1 \S+ in (\S+) (\S+)", stderr)
    s = sorted(set("%s@%s" % (f, os.path.basename(p)) for f, p in fr))
    return ",".join(s[:6]) or "?"


# ------------------------------------------------------------------------------------ running
def run_impl(ctx, h, script):
    # the harness' own watchdog (60 s per op) fires first and names the op
    rc, lines, err = ctx.run_lines(h, script, timeout=150,
                                   env={"ASAN_OPTIONS": "detect_leaks=1:abort_on_error=0:allocator_may_return_null=1:exitcode=0"})
    return rc, lines, err


def annotate(script, impl, benign_x=True, kind=None):
    """add X= (connections whose I/O failed and were closed during the op, with the kind of the
    failing call) and R= (resources observed on open connections) to every op -> model script"""
    ops = [l for l in script.splitlines() if l and not l.startswith("#")]
    out, fault_call = [], {}
    for k, op in enumerate(ops):
        t = op.split()
        if k >= len(impl) or t[0] in ("end", "out", "variant", "fault"):
            out.append(op); continue
        ln = Line(impl[k])
        if ln.kind != "state":
            out.append(op); continue
        xs, rs = [], []
        for e in ln.events:
            if e[0] == "fault":
                fault_call[e[1]] = "w" if e[2] == "write" else ("n" if e[2] == "fcntl" else "r")
        closed_now = [e[1] for e in ln.events if e[0] == "close"]
        for c in fault_call:
            if c in closed_now and fault_call[c] != "n" and (benign_x or kind in HARMFUL):
                xs.append("%s:%s" % (c, fault_call[c]))
        for c, s in sorted(ln.conns.items()):
            if s["L"] and s["sock"] == "open":
                rs.append("%s:%s" % (c, re.sub(r"^s\d+", "", re.sub(r"w\d+p\d+f\d+e\d+d\d+$", "", s["res"]))))
        extra = ""
        if xs: extra += " X=" + ",".join(xs)
        if rs: extra += " R=" + ",".join(rs)
        out.append(op + extra)
    return "\n".join(out) + "\n"


def check_script(ctx, h, d, script, variant, what, base=None):
    """-> dict(impl, model, failures[], faulted set, defects predicted by the model)"""
    res = {"impl": [], "model": [], "failures": [], "faulted": set(), "defects": []}
    if getattr(ctx, "c12_abort", False):
        return res          # enough crashes/hangs seen: the verdict is in, do not spend hours on the rest
    rc, impl, err = run_impl(ctx, h, script)
    res["impl"] = impl
    sl = script.splitlines()
    if rc != 0 or not impl or not impl[-1].startswith("end "):
        res["failures"].append({"kind": "crash", "what": what + ": harness exit %d / no end line" % rc,
                                "script": sl, "impl": impl[-6:], "detail": err[-2500:]})
        return res
    for raw in impl:
        for m in re.finditer(r"fault (c\d+) ", raw):
            res["faulted"].add(m.group(1))
    bad = oracle(script, impl, err, res["faulted"])
    model_ok = False
    if ctx.driver_ok:
        mk = re.match(r"fault (\w+) ", script)
        kind = mk.group(1) if mk else None
        a = [canon_impl(x) for x in impl]
        # a harmless fault (short / again) normally closes nothing: first without X=, then with
        for benign_x in ((False, True) if kind and kind not in HARMFUL else (True,)):
            ms = "variant %s\n" % " ".join(str(int(b)) for b in variant) + annotate(script, impl, benign_x, kind)
            rc2, model, err2 = ctx.run_lines(d, ms, timeout=120)
            model = model[1:] if model and model[0] == "ok" else model
            if rc2 == 0 and common.first_diff(a, [canon_model(x) for x in model]) is None:
                break
        res["model"] = model
        if rc2 != 0 or any(m == "unmodelled" for m in model):
            res["failures"].append({"kind": "exact", "what": what + ": model driver exit %d / unmodelled op" % rc2,
                                    "script": ms.splitlines(), "detail": err2, "model": model[-5:]})
        else:
            a = [canon_impl(x) for x in impl]
            b = [canon_model(x) for x in model]
            di = common.first_diff(a, b)
            if di is not None:
                res["failures"].append({"kind": "exact", "what": what, "line": di, "script": ms.splitlines(),
                                        "impl": a[max(0, di - 2):di + 2], "model": b[max(0, di - 2):di + 2]})
            else:
                model_ok = True
                m = re.search(r"defects=(\S+)", model[-1]) if model else None
                res["defects"] = [x for x in (m.group(1).split(",") if m else []) if x != "-"]
    if bad:
        f = {"kind": "oracle", "what": "C12 life-cycle oracle (" + what + ")",
             "detail": "; ".join(b[0] for b in bad[:6]), "script": sl, "impl": impl[-8:],
             "stderr": err[-1500:] if "LeakSanitizer" in err else ""}
        if model_ok and res["defects"]:
            # the faithful model reproduces this run exactly and attributes it to known defect(s)
            f["finding"] = res["defects"][0]
            f["all_findings"] = res["defects"]
        res["failures"].append(f)
    elif model_ok and res["defects"]:
        res["failures"].append({"kind": "semantic", "what": what + ": model predicts defect %s but the oracle is satisfied" % res["defects"],
                                "script": sl, "impl": impl[-4:]})
    # streams of connections the fault did not touch are those of the fault-free run
    if base is not None:
        bo = {l.split()[1]: l for l in base if l.startswith("out ")}
        bstate = [Line(l) for l in base if " | " in l]
        mstate = [Line(l) for l in impl if " | " in l]
        for l in impl:
            if not l.startswith("out "): continue
            c = l.split()[1]
            if c in res["faulted"] or c not in bo: continue
            if re.search(r"^ftgo %s$" % c, script, re.M): continue   # a download gets one chunk per loop round
            if re.search(r"^pw$", script, re.M) and re.search(r"^sec %s$" % c, script, re.M): continue  # random challenge
            same_life = bstate and mstate and bstate[-1].conns.get(c, {}).get("tok") == mstate[-1].conns.get(c, {}).get("tok")
            if same_life and not same_history(bstate, mstate, c):
                same_life = False
            if same_life and l != bo[c]:
                res["failures"].append({"kind": "oracle", "what": "C12 isolation: stream of an untouched connection changed",
                                        "detail": "%s: fault-free run %r, with fault on %s: %r" % (c, bo[c], sorted(res["faulted"]), l),
                                        "script": sl, "impl": impl[-6:]})
    return res


def same_history(a, b, c):
    ta = [x.conns.get(c, {}).get("tok") for x in a]
    tb = [x.conns.get(c, {}).get("tok") for x in b]
    return ta == tb


def canon_impl(raw):
    raw = strip_inputs(raw)
    if raw.startswith("out "):
        return "out " + raw.split()[1]
    if raw.startswith("end "):
        return re.sub(r" kinds=\S+", "", re.sub(r"io=\d+ ", "", raw))
    return raw


def canon_model(raw):
    if raw.startswith("end "):
        return re.sub(r" defects=\S+", "", raw)
    return strip_inputs(raw)


# ------------------------------------------------------------------------------------ generators
class Gen:
    """random but protocol-valid life-cycle scripts (python keeps only what it needs to stay valid)"""

    def __init__(self, rng, variant, faulty=False):
        self.rng, self.v, self.faulty = rng, variant, faulty
        self.lines, self.c, self.pw, self.httpdown = [], [], False, False

    def emit(self, s):
        self.lines.append(s)

    def new_conn(self, hook=None, ws=0, nb=0):
        i = len(self.c)
        hook = hook or self.rng.choice(["accept"] * 6 + ["hold", "hold", "refuse"])
        self.c.append({"phase": 0, "hook": hook, "queued": 0, "started": hook != "hold", "peer": True, "ws": ws, "ft": False,
                       "steps": ["ver", "sec"] + (["auth"] if self.pw else []) + ["init"]})
        s = "conn c%d hook=%s" % (i, hook)
        if ws: s += " ws=%d" % ws
        if nb: s += " nb=1"
        if not ws and not nb and not self.httpdown and self.rng.random() < 0.15:
            s = "hconn c%d hook=%s%s" % (i, hook, " via=get" if self.rng.random() < 0.5 else "")
        self.emit(s)
        return i

    def advance(self, i, shared=None):
        """send the next handshake message of connection i"""
        c = self.c[i]
        if not c["peer"]: return False
        if self.faulty and not c["started"] and c["queued"] >= 1: return False
        if c["phase"] >= len(c["steps"]): return False
        step = c["steps"][c["phase"]]
        if step in ("ver", "auth") and self.rng.random() < 0.05:
            self.emit("partial c%d" % i); c["peer"] = False      # silent in the middle of the message: timeout
            return True
        if step == "ver": self.emit("ver c%d" % i)
        elif step == "sec": self.emit("sec c%d" % i)
        elif step == "auth":
            bad = self.rng.random() < 0.25
            self.emit("auth c%d %s" % (i, "bad" if bad else "ok"))
            if bad: c["peer"] = False        # the server hangs up on a wrong response: nothing follows
        else:
            sh = shared if shared is not None else (0 if self.rng.random() < 0.25 else 1)
            self.emit("init c%d %d" % (i, sh))
        c["phase"] += 1
        if not c["started"]: c["queued"] += 1
        return True

    def normal_op(self, i):
        c, r = self.c[i], self.rng
        if not c["peer"] or c["phase"] < len(c["steps"]): return False
        if self.faulty and not c["started"] and c["queued"] >= 1: return False
        x = r.random()
        if x < 0.25: self.emit("enc c%d %s" % (i, r.choice(ENCS)))
        elif x < 0.55: self.emit("req c%d" % i)
        elif x < 0.70:
            # satisfiable factors (shared between clients on purpose), factor 0 (protocol error) and
            # factors that reduce a dimension of the 64x48 screen to 0 ("leaving things alone")
            k = r.choice(REFUSED) if r.random() < 0.22 else r.choice([1, 2, 2, 3, 4, 0 if r.random() < 0.2 else 2])
            self.emit("scale c%d %d" % (i, k))
        elif x < 0.78: self.emit("pf c%d" % i)
        elif x < 0.84: self.emit("key c%d" % i)
        elif x < 0.88: self.emit("ptr c%d %d" % (i, r.choice([1, 1, 0])))
        elif x < 0.92: self.emit("junk c%d" % i); c["peer"] = c["peer"]
        elif x < 0.95: self.emit("partial c%d" % i); c["peer"] = False   # nothing may follow half a message
        elif x < 0.98 and (self.v[4] or r.random() < 0.25):
            if c["ft"] and r.random() < 0.7: self.emit("ftgo c%d" % i)
            else: self.emit("ft c%d" % i); c["ft"] = True
        else: self.emit("key c%d" % i)
        if not c["started"]: c["queued"] += 1
        return True

    def script(self, nops, ending=None):
        r = self.rng
        # triggers of defects the code under test still has are generated too, but rarely (the model
        # attributes those runs to the finding; every other run keeps a fully sensitive leak check)
        if r.random() < (0.25 if self.v[5] else 0.04): self.emit(r.choice(["ext", "ext rev"]))
        if r.random() < 0.2: self.emit("pw"); self.pw = True
        if r.random() < 0.1: self.emit("cursor")
        for _ in range(nops):
            x = r.random()
            if x < 0.16 and len(self.c) < 10:
                ws = 0
                if r.random() < 0.12:
                    many = (self.v[3] and r.random() < 0.4) or (not self.v[3] and not self.faulty and r.random() < 0.06)
                    ws = r.choice([2, 3]) if many else 1
                nb = 1 if r.random() < (0.06 if self.v[0] else 0.01) else 0
                self.new_conn(ws=ws, nb=nb)
            elif not self.c:
                self.new_conn()
            elif x < 0.50:
                self.advance(r.randrange(len(self.c)))
            elif x < 0.74:
                self.normal_op(r.randrange(len(self.c)))
            elif x < 0.79:
                i = r.randrange(len(self.c))
                self.emit(r.choice(["closepeer c%d", "closepeer c%d", "resetpeer c%d"]) % i); self.c[i]["peer"] = False
            elif x < 0.83:
                self.emit("appclose c%d" % r.randrange(len(self.c)))
            elif x < 0.88:
                i = r.randrange(len(self.c)); self.emit("start c%d" % i); self.c[i]["started"] = True; self.c[i]["queued"] = 0
                self.emit("pump")
            elif x < 0.90:
                self.emit("refuse c%d" % r.randrange(len(self.c)))
            elif x < 0.92:
                self.emit("kbdclose c%d" % r.randrange(len(self.c)))
            elif x < 0.93:
                i = r.randrange(len(self.c))
                rare = not self.v[7] and r.random() > 0.25      # trigger of a defect the code still has: rarely
                if not rare: self.emit(r.choice(["extrefuse c%d", "extdrop c%d", "extadd c%d", "extadd c%d"]) % i)
            elif x < 0.95 and len(self.c) >= 2:
                a, b = r.sample(range(len(self.c)), 2); self.emit("gonekick c%d c%d" % (a, b))
            elif x < 0.96:
                self.emit("shutdown0"); self.httpdown = True
            else:
                self.emit("pump")
        for i in range(len(self.c)):
            self.emit("out c%d" % i)
        ending = ending or r.choice(["sc", "sc", "sc", "psc", "c", "pc", "s", ""])
        for ch in ending:
            self.emit({"p": "pump", "s": "shutdown", "c": "cleanup"}[ch])
        self.emit("end")
        return "\n".join(self.lines) + "\n"


def scale_share_script(rng):
    """clients sharing a scaled view; one of them changes factor, asks for unsatisfiable factors and
    leaves; afterwards the application paints and the remaining clients fetch the picture.
    -> (script, twin): the twin lacks the unsatisfiable requests (which must not matter to anybody else)"""
    K = rng.choice([2, 2, 3, 4])
    L, T = [], []
    def both(x): L.append(x); T.append(x)
    for c in (0, 1):
        for x in ("conn c%d hook=accept" % c, "ver c%d" % c, "sec c%d" % c, "init c%d 1" % c,
                  "enc c%d %s" % (c, rng.choice(["raw", "raw", "hextile", "zlib"]))):
            both(x)
    both("scale c0 %d" % K); both("req c0")
    both("scale c1 %d" % (K if rng.random() < 0.8 else rng.choice([1, 2, 3, 4]))); both("req c1")
    third = rng.random() < 0.4
    if third:
        for x in ("conn c2 hook=accept", "ver c2", "sec c2", "init c2 1", "scale c2 %d" % rng.choice([K, K, 1, 3]), "req c2"):
            both(x)
    nref = 0
    for _ in range(rng.randint(1, 6)):
        x = rng.random()
        if x < 0.45 or nref == 0:
            L.append("scale c1 %d" % rng.choice(REFUSED)); nref += 1
        elif x < 0.65: both("scale c1 %d" % rng.choice([1, 2, 3, 4]))
        elif x < 0.80: both("scale c1 %d" % K)
        else: both("req c1")
    leave = rng.choice(["closepeer c1", "closepeer c1", "resetpeer c1", "junk c1", "appclose c1|pump", "kbdclose c1|key c1", "stay"])
    if leave != "stay":
        for x in leave.split("|"): both(x)
    for k in range(rng.randint(1, 2)):
        both("draw %d" % rng.randint(1, 9)); both("req c0")
        if third: both("req c2")
    both("out c0")
    if third: both("out c2")
    for x in ("shutdown", "cleanup", "end"): both(x)
    return "\n".join(L) + "\n", "\n".join(T) + "\n"


def scenario_scripts(variant):
    """hand-written bases for the fault enumeration: a witness c0 plus clients walking through every
    stage of the life cycle (handshake, resources, scaling, hold/start, refusal, replacement,
    callbacks closing clients, websocket)"""
    S = {}
    W = ["conn c0 hook=accept", "ver c0", "sec c0", "init c0 1", "enc c0 raw", "req c0"]
    E = ["req c0", "out c0", "out c1", "shutdown", "cleanup", "end"]
    S["resources"] = W + ["conn c1 hook=accept", "ver c1", "sec c1", "init c1 1", "enc c1 zlib", "scale c1 2",
                         "req c1", "pf c1", "enc c1 tight", "req c1", "enc c1 zrle", "req c1", "enc c1 corre", "req c1",
                         "key c1", "closepeer c1"] + E
    S["hold"] = W + ["conn c1 hook=hold", "ver c1", "start c1", "pump", "sec c1", "init c1 1", "scale c1 3", "req c1",
                    "conn c2 hook=hold", "refuse c2", "conn c3 hook=refuse", "conn c4 hook=hold", "closepeer c4",
                    "start c4", "pump", "junk c1"] + E
    S["replace"] = W + ["conn c1 hook=accept", "ver c1", "sec c1", "init c1 1", "enc c1 hextile", "req c1",
                       "conn c2 hook=accept", "ver c2", "sec c2", "init c2 0", "req c2", "out c2", "closepeer c2",
                       "out c0", "out c1", "shutdown", "cleanup", "end"]
    S["callbacks"] = W + ["conn c1 hook=accept", "ver c1", "sec c1", "init c1 1", "conn c2 hook=accept", "ver c2", "sec c2",
                         "init c2 1", "gonekick c1 c2", "kbdclose c1", "key c1", "req c0", "out c0", "out c1", "out c2",
                         "shutdown", "cleanup", "end"]
    S["partial"] = W + ["conn c1 hook=accept", "ver c1", "sec c1", "init c1 1", "scale c1 2", "partial c1",
                       "conn c2 hook=accept", "ver c2", "resetpeer c2"] + E
    S["ws"] = W + ["conn c1 hook=accept ws=1", "ver c1", "sec c1", "init c1 1", "enc c1 zlib", "req c1", "closepeer c1"] + E
    S["scale-share"] = W[:4] + ["enc c0 raw", "scale c0 2", "req c0", "conn c1 hook=accept", "ver c1", "sec c1", "init c1 1",
                            "scale c1 2", "req c1", "scale c1 200", "scale c1 3", "scale c1 64", "scale c1 2", "scale c1 100",
                            "closepeer c1", "draw 3"] + E
    # the whole population at once: witness, scaled+resources, pointer owner, held (with queued input),
    # mid-handshake in every state, WebSocket, downloading, extension data everywhere, one client closed
    # by the application and not yet reaped -- then shutdown+cleanup / cleanup alone
    POP = ["ext", "cursor"] + W[:4] + ["enc c0 raw", "scale c0 2", "req c0",
           "conn c1 hook=accept", "ver c1", "sec c1", "init c1 1", "enc c1 tight", "scale c1 3", "req c1", "ptr c1 1",
           "conn c2 hook=hold", "ver c2",
           "conn c3 hook=accept",
           "conn c4 hook=accept", "ver c4",
           "conn c5 hook=accept", "ver c5", "sec c5",
           "conn c6 hook=accept ws=1", "ver c6", "sec c6", "init c6 1", "enc c6 zrle", "req c6",
           "conn c7 hook=accept", "ver c7", "sec c7", "init c7 1", "ft c7", "ftgo c7",
           "conn c8 hook=accept", "ver c8", "sec c8", "init c8 1", "scale c8 2",
           "out c0", "appclose c8"]
    S["population-shutdown"] = POP + ["shutdown0", "shutdown", "cleanup", "end"]
    S["population-cleanup"] = POP + ["cleanup", "end"]
    S["ext-toggle"] = ["ext"] + W + ["conn c1 hook=accept", "extrefuse c1", "ver c1", "sec c1", "init c1 1", "extadd c1", "extadd c1",
                           "req c1", "extdrop c1", "extdrop c1", "extadd c1", "conn c2 hook=accept", "ver c2", "extdrop c2",
                           "closepeer c1"] + E
    S["ext-toggle-rev"] = ["ext rev"] + S["ext-toggle"][1:]     # the node with data is not the list head
    # connections that come in through the HTTP server's proxy support (CONNECT / GET /proxied.connection):
    # every hook decision, hold+refuse, a full life, and every early exit through the fault enumeration
    S["http-proxy"] = W + ["hconn c1 hook=accept", "ver c1", "sec c1", "init c1 1", "enc c1 zlib", "req c1",
                           "hconn c2 hook=refuse", "hconn c3 hook=refuse via=get", "hconn c4 hook=hold via=get", "refuse c4",
                           "hconn c5 hook=hold", "ver c5", "start c5", "pump", "closepeer c5", "out c1", "closepeer c1",
                           "req c0", "out c0", "shutdown", "cleanup", "end"]
    # a held client, a later client (higher descriptor) that goes away, then the held one is started:
    # it must be served and its own disconnect must be noticed
    S["hold-start-after-close"] = ["conn c0 hook=hold", "ver c0", "conn c1 hook=accept", "ver c1", "closepeer c1", "start c0", "pump",
                                   "sec c0", "init c0 1", "req c0", "out c0", "closepeer c0", "shutdown", "cleanup", "end"]
    S["handshake"] = ["conn c0 hook=accept", "ver c0", "sec c0", "init c0 1", "req c0", "shutdown", "cleanup", "end"]
    S["handshake-auth"] = ["pw", "conn c0 hook=accept", "ver c0", "sec c0", "auth c0 ok", "init c0 1", "conn c1 hook=accept", "ver c1",
                           "sec c1", "auth c1 bad", "conn c2 hook=accept", "ver c2", "sec c2", "partial c2", "conn c3 hook=accept",
                           "partial c3", "shutdown", "cleanup", "end"]
    S["download"] = W + ["conn c1 hook=accept", "ver c1", "sec c1", "init c1 1", "ft c1", "ftgo c1", "req c0", "pump", "closepeer c1"] + E
    S["cleanup-only"] = W + ["conn c1 hook=accept", "ver c1", "sec c1", "init c1 1", "enc c1 tight", "scale c1 2", "req c1",
                            "req c0", "out c0", "out c1", "cleanup", "end"]
    return {k: "\n".join(v) + "\n" for k, v in S.items()}


# ------------------------------------------------------------------------------------ main
def probe_variant(ctx, h):
    """which known defects does the code under test have?  variant bit = defect ABSENT (fixed)"""
    variant, reports = [], []
    for fid, stem in DEFECTS:
        p = os.path.join(CORPUS, stem + ".ops")
        script = open(p).read()
        rc, impl, err = run_impl(ctx, h, script)
        bad = oracle(script, impl, err) if (rc == 0 and impl) else [("harness exit %d" % rc, None)]
        variant.append(not bad)
        if bad:
            reports.append({"kind": "oracle" if rc == 0 else "crash", "what": "C12 known defect witness " + stem + ".ops",
                            "finding": fid, "detail": "; ".join(b[0] for b in bad[:4]),
                            "script": script.splitlines(), "impl": impl[-6:]})
    return variant, reports


def run(ctx):
    h = ctx.harness("c12")
    d = ctx.driver("drv_c12")
    fails, samples = [], []
    dist = {"ops": {}, "fault_kinds": {}, "fault_calls": {}, "endings": {}, "defects_seen": {}, "teardown_paths": {}}
    evals, nontrivial = 0, set()
    crashes = [0]

    def account(script, impl):
        for l in script.splitlines():
            k = l.split()[0] if l.split() else ""
            if k in ("end", ""): continue
            dist["ops"][k] = dist["ops"].get(k, 0) + 1
        tail = [l.split()[0] for l in script.splitlines() if l.split() and l.split()[0] in ("pump", "shutdown", "cleanup")][-3:]
        key = "+".join(tail) or "none"
        dist["endings"][key] = dist["endings"].get(key, 0) + 1
        tp = dist["teardown_paths"]
        def bump(k, n=1):
            if n: tp[k] = tp.get(k, 0) + n
        ops = [l for l in script.splitlines() if l and not l.startswith(("end", "#"))]
        for op, raw in zip(ops, impl):
            for m in re.finditer(r"fault c\d+ (\w+)", raw):
                dist["fault_calls"][m.group(1)] = dist["fault_calls"].get(m.group(1), 0) + 1
            if " | " not in raw: continue
            ev = raw.split(" | ")[0]
            ng = ev.count("gone c")
            t = op.split()[0]
            if t == "conn":
                bump("early-exit (no hook)", 1 if ("ret" in ev and "null" in ev and "hook" not in ev) else 0)
                bump("refused by hook", 1 if "refuse" in ev else 0)
            elif t in ("shutdown", "cleanup", "refuse"): bump(t, ng)
            elif t in ("closepeer", "resetpeer"): bump("peer close/reset", ng)
            elif t in ("junk", "partial"): bump("protocol error / timeout", ng)
            elif t == "init" and op.endswith(" 0"): bump("non-shared replacement (+self)", ng)
            elif "fault" in ev: bump("I/O fault", ng)
            elif t == "key": bump("closed from callback", ng)
            else: bump("reaped later (app close, kick, queued)", ng)

    def absorb(script, r):
        nonlocal evals
        if not r["impl"] and not r["failures"]:
            return           # skipped after the run was cut short
        evals += 1
        account(script, r["impl"])
        if sum(1 for f in r["failures"] if f["kind"] == "crash"):
            crashes[0] += 1
            if crashes[0] >= 3: ctx.c12_abort = True
        for f in r["failures"]:
            fid = f.get("finding")
            if fid:
                dist["defects_seen"][fid] = dist["defects_seen"].get(fid, 0) + 1
                if any(g.get("finding") == fid for g in fails):
                    continue
            elif sum(1 for g in fails if not g.get("finding") and g["kind"] == f["kind"]) >= 4:
                continue
            fails.append(f)
        gone = sum(raw.split(" | ")[0].count("gone c") for raw in r["impl"] if " | " in raw)
        if gone >= 2:
            nontrivial.add(script)

    if ctx.replay:
        rec = json.load(open(ctx.replay))
        script = "\n".join(l for l in rec.get("script", []) if not l.startswith("variant")) + "\n"
        script = re.sub(r" [XR]=\S+", "", script)
        variant, rep = probe_variant(ctx, h)
        r = check_script(ctx, h, d, script, variant, "replay")
        absorb(script, r)
        samples.append({"script": script.splitlines(), "impl": r["impl"]})
    else:
        variant, rep = probe_variant(ctx, h)
        for f in rep:
            fails.append(f)
        # corpus (regression scripts other than the defect witnesses)
        stems = set(s for _, s in DEFECTS)
        for p in sorted(glob.glob(os.path.join(CORPUS, "*.ops"))):
            if os.path.basename(p)[:-4] in stems: continue
            sc = open(p).read()
            absorb(sc, check_script(ctx, h, d, sc, variant, "corpus " + os.path.basename(p)))
        # random life-cycle scripts
        n = 180 if ctx.tier == "quick" else 2500
        scripts = [Gen(ctx.rng, variant).script(ctx.rng.choice([8, 15, 30, 50])) for _ in range(n)]
        for sc, r in zip(scripts, common.pmap(lambda s: check_script(ctx, h, d, s, variant, "life-cycle"), scripts)):
            absorb(sc, r)
            if len(samples) < 3: samples.append({"script": sc.splitlines(), "impl": r["impl"]})
        # shared scaled views: refused factors, changes of factor, leaving; differential twin runs
        npair = 10 if ctx.tier == "quick" else 150
        pairs = [scale_share_script(ctx.rng) for _ in range(npair)]
        def pair(pt):
            a = check_script(ctx, h, d, pt[0], variant, "shared scaled view")
            b = check_script(ctx, h, d, pt[1], variant, "shared scaled view (twin)")
            oa = [l for l in a["impl"] if l.startswith("out ")]
            ob = [l for l in b["impl"] if l.startswith("out ")]
            if oa != ob and not any(f["kind"] == "crash" for f in a["failures"] + b["failures"]):
                a["failures"].append({"kind": "oracle", "what": "C12 isolation: unsatisfiable SetScale requests of one client changed another client's stream",
                                      "detail": "with the requests %r, without %r" % (oa, ob), "script": pt[0].splitlines(), "impl": a["impl"][-6:]})
            return a, b
        for pt, (a, b) in zip(pairs, common.pmap(pair, pairs)):
            absorb(pt[0], a); absorb(pt[1], b)
            dist["scale_share_pairs"] = dist.get("scale_share_pairs", 0) + 1
        if pairs and len(samples) < 4: samples.append({"script": pairs[0][0].splitlines()})
        # fault enumeration
        bases = list(scenario_scripts(variant).items())
        nrand = 3 if ctx.tier == "quick" else 30
        for k in range(nrand):
            bases.append(("random%d" % k, Gen(ctx.rng, variant, faulty=True).script(ctx.rng.choice([15, 30]), ending="sc")))
        jobs, enum = [], {}
        for name, sc in bases:
            r0 = check_script(ctx, h, d, sc, variant, "fault-free base " + name)
            absorb(sc, r0)
            m = re.match(r"end io=(\d+)", r0["impl"][-1]) if r0["impl"] else None
            if not m or any(f["kind"] == "crash" for f in r0["failures"]): continue
            nio = int(m.group(1))
            if ctx.tier == "thorough":
                ks = list(range(nio)) if nio <= 400 else sorted(set(list(range(60)) + ctx.rng.sample(range(nio), 200) + list(range(nio - 40, nio))))
                kinds = KINDS
            else:
                # quick: every write and peek (they end a protocol step: version, security result,
                # ServerInit, updates, WebSocket answer) up to a cap, plus a sample of the reads
                mk = re.search(r"kinds=(\S+)", r0["impl"][-1])
                kk = mk.group(1) if mk else ""
                wr = [i for i, ch in enumerate(kk) if ch in "wp"]
                if len(wr) > 18: wr = ctx.rng.sample(wr, 18)
                per = 8 if name.startswith("random") else 12
                ks = sorted(set([0, nio - 1] + wr + ctx.rng.sample(range(nio), min(nio, per))))
                kinds = None
                if name.startswith("handshake"):
                    # deterministic core: a client silent (stall => maxClientWait), gone (eof) or reset at EVERY
                    # read and write of every handshake state
                    ks, kinds = list(range(nio)), HARMFUL
            enum[name] = {"io_calls": nio, "indices": len(ks)}
            for k in ks:
                for kind in (kinds or [ctx.rng.choice(HARMFUL), ctx.rng.choice(KINDS)]):
                    jobs.append((name, sc, r0["impl"], kind, k))
        def one(j):
            name, sc, base, kind, k = j
            fs = "fault %s at=%d\n" % (kind, k) + sc
            return fs, check_script(ctx, h, d, fs, variant, "fault %s at=%d in %s" % (kind, k, name), base=base)
        for j, (fs, r) in zip(jobs, common.pmap(one, jobs)):
            absorb(fs, r)
            dist["fault_kinds"][j[3]] = dist["fault_kinds"].get(j[3], 0) + 1
            if len(samples) < 5 and r["faulted"]: samples.append({"script": fs.splitlines(), "impl": r["impl"]})
        dist["fault_enumeration"] = enum
    # concrete failing inputs first, untagged before tagged
    fails.sort(key=lambda f: (f["kind"] not in ("oracle", "crash"), bool(f.get("finding"))))
    present = [fid for (fid, _), ok in zip(DEFECTS, variant) if not ok]
    partial = []
    if present:
        partial.append("code under test still has defect(s) %s: for this variant only `exactly_once_partial` "
                       "(traces that avoid the defect triggers) applies; the full `exactly_once` is proved for the fixed variant" % present)
    partial.append("byte streams are not modelled: 'never disturbs the stream of another connection' is checked by the "
                   "witness-stream comparison of the fault enumeration (testing), the theorems cover the records")
    partial.append("threads (C13), TLS, UDP, inetd, listening sockets/accept() are outside the model")
    return {
        "evaluations": evals, "distinct_nontrivial": len(nontrivial),
        "rule": "life-cycle scripts (connect with every hook decision / early exit, handshake, resources, scaling, hold/start/refuse, "
                "peer close/reset, protocol error, timeout, callbacks closing clients, non-shared replacement, shutdown, cleanup) and the "
                "same scripts with one fault per run at an enumerated I/O index; non-trivial = distinct script in which >= 2 connections were torn down",
        "samples": samples, "distribution": dist, "failures": fails, "partial": partial,
        "exhaustive": False,
        "correspondence": {"variant": dict(zip([s for _, s in DEFECTS], variant))},
        "assumptions": ["application-driven (single-threaded) event loop; waits are virtual because the peer lives in the same thread",
                        "kernel socket semantics as interposed: close() counted per descriptor number, numbers never reused during a run",
                        "LeakSanitizer finds every block that is unreachable at the end of the run (harness forgets its own pointers first)"],
        "trusted_extra": ["harness/c12.c interposition of close/read/write/recv/select/fcntl (link level)"],
    }


META = {
    "technique": "Lean 4 inductive invariant over all event histories of a life-cycle model (exactly-once teardown, release of all "
                 "resources, isolation) + exact correspondence run with enumerated fault injection at every server I/O call",
    "level_text": "Proof: VncModel/Life/Model.lean mirrors rfbNewTCPOrUDPClient / rfbCloseClient / rfbClientConnectionGone / "
                  "rfbProcessEvents / rfbShutdownServer / rfbScreenCleanup and the policy block; Props/C12.lean proves the invariant for every "
                  "trace, every fault annotation and every application decision. Tie: exact differential run (events + records after every op) "
                  "and fault enumeration on the real code, plus a model-independent oracle (counts, descriptors, LeakSanitizer).",
    "level_note": "Trusted: Lean kernel, harness interposition, LeakSanitizer. Not modelled: byte streams, threads, TLS, UDP.",
    "design_ref": "DESIGN.md section 7, C12",
}
