"""C02 — clients converge to the framebuffer: no lost, stale or spurious updates.

Proof: lean/VncModel/Props/C02.lean — set-level invariant `Inv` preserved by every transition for
all interleavings (USpec/USpecProofs), CopyRect order safety (CopyOrder), region-level facts.
Tie: harness/c02.c (real rfbMarkRectAsModified / rfbDoCopyRegion / FramebufferUpdateRequest /
rfbUpdateClient over socketpairs, decoding Raw + CopyRect into a client picture) vs
Driver/C02.lean (region-level executable model built on the C11 region model): exact comparison
of modifiedRegion / copyRegion / requestedRegion / copyDX,DY after every operation and of the
rectangles of every update, plus direct oracles:
  !inv   : the convergence invariant evaluated on the implementation's state + decoded picture
  !settled: where the observations show the server twice had nothing to send in answer to an
           incremental whole-screen request, the whole decoded picture equals the framebuffer
           (soft-cursor clients: with the scripted cursor at the scripted pointer); no library state
  !docopy: server framebuffer after rfbDoCopyRegion == simultaneous copy
  python : non-incremental request resends the whole requested area; idle incremental is silent.
"""
import json, os, glob
from .. import common

GEN = ["leaf"]
PROPS_MOD = "VncModel.Props.C02"
EXTRA_TARGETS = ["drv_c02"]


def rect_in(rng, W, H, lo=1):
    x1 = rng.randint(0, W - lo)
    y1 = rng.randint(0, H - lo)
    x2 = rng.randint(x1 + lo, W)
    y2 = rng.randint(y1 + lo, H)
    return x1, y1, x2, y2


def settle(lines, c, W, H, ps, rounds=None):
    """the client asks for everything until the server says twice that there is nothing to send"""
    for _ in range(rounds if rounds is not None else (3 if ps == 0 else 3 + H // ps + 1)):
        lines += ["req %d 1 0 0 %d %d" % (c, W, H), "clock 1000000", "update %d" % c, "clock 1000000", "update %d" % c]
    lines.append("settled %d" % c)


def gen_partial(rng):
    """a viewer that for a while only asks for part of the screen while copies cross the boundary of
    that part and their sources are repainted; later it asks for everything again (incrementally)"""
    W, H = rng.choice([(16, 16), (24, 20), (32, 24), (64, 64)])
    lines = ["screen %d %d 0 %d" % (W, H, rng.choice([0, 0, 50])),
             "cursor 2 2 0 0", "client 0", "setenc 0 1 1",
             "draw 0 0 %d %d 1" % (W, H), "req 0 0 0 0 %d %d" % (W, H), "update 0"]
    settle(lines, 0, W, H, 0, 1)
    for rnd in range(rng.randint(1, 3)):
        horiz = rng.random() < 0.5
        cut = rng.randint(W // 4, 3 * W // 4) if horiz else rng.randint(H // 4, 3 * H // 4)
        first = rng.random() < 0.5          # requested part is the first / second part
        if horiz:
            part = (0, 0, cut, H) if first else (cut, 0, W - cut, H)
        else:
            part = (0, 0, W, cut) if first else (0, cut, W, H - cut)
        px, py, pw, ph = part
        # a little change answers the outstanding whole-screen request
        lines += ["req 0 1 0 0 %d %d" % (W, H), "draw %d %d %d %d %d" % (px, py, px + 2, py + 2, 50 + rnd), "update 0"]
        lines += ["req 0 1 %d %d %d %d" % part, "update 0", "state 0"]
        for _k in range(rng.randint(1, 2)):
            # copy a block from inside the requested part to the outside of it
            sw, sh = rng.randint(1, max(1, pw // 2)), rng.randint(1, max(1, ph // 2))
            sx, sy = rng.randint(px, px + pw - sw), rng.randint(py, py + ph - sh)
            if horiz:
                lo, hi = (cut, W - sw) if first else (0, cut - sw)
                if hi < lo:
                    continue
                dxp, dyp = rng.randint(lo, hi), sy
            else:
                lo, hi = (cut, H - sh) if first else (0, cut - sh)
                if hi < lo:
                    continue
                dxp, dyp = sx, rng.randint(lo, hi)
            lines.append("copyrgn %d %d %d %d %d %d" % (dxp - sx, dyp - sy, dxp, dyp, dxp + sw, dyp + sh))
            if rng.random() < 0.8:      # repaint (part of) the place the block came from
                lines.append("draw %d %d %d %d %d" % (sx, sy, sx + rng.randint(1, sw), sy + rng.randint(1, sh), 2 + rnd))
            for _j in range(rng.randint(1, 2)):
                lines += ["req 0 1 %d %d %d %d" % part, "update 0", "state 0"]
        settle(lines, 0, W, H, 0, 2)
    return "\n".join(lines) + "\n", dict(W=W, H=H, ps=0, mr=0, nc=1, soft=[], defer=0, family="partial")


def gen_softcopy(rng):
    """a viewer without cursor-shape updates: pointer moves and copies whose source / destination
    contains the place where the viewer still shows the cursor, in either order"""
    W, H = rng.choice([(16, 16), (24, 20), (40, 23), (64, 64)])
    cw, ch = rng.randint(1, 4), rng.randint(1, 4)
    lines = ["screen %d %d 0 0" % (W, H), "cursor %d %d %d %d" % (cw, ch, rng.randint(0, cw - 1), rng.randint(0, ch - 1)),
             "client 0", "setenc 0 1 0"]
    nc = 1
    if rng.random() < 0.4:
        lines += ["client 1", "setenc 1 %d 1" % rng.randint(0, 1)]
        nc = 2
    lines += ["draw 0 0 %d %d 1" % (W, H)]
    px, py = rng.randint(0, W - 1), rng.randint(0, H - 1)
    lines.append("ptr %d %d" % (px, py))
    for c in range(nc):
        lines += ["req %d 0 0 0 %d %d" % (c, W, H), "update %d" % c]
        settle(lines, c, W, H, 0, 1)
    for _ in range(rng.randint(2, 4)):
        acts = []
        npx, npy = rng.randint(0, W - 1), rng.randint(0, H - 1)
        acts.append("ptr %d %d" % (npx, npy))
        # a copy whose source (or destination) contains the old / new cursor position
        tx, ty = rng.choice([(px, py), (npx, npy)])
        sw, sh = rng.randint(2, max(2, W // 2)), rng.randint(2, max(2, H // 2))
        sx = min(max(0, tx - rng.randint(0, sw - 1)), W - sw)
        sy = min(max(0, ty - rng.randint(0, sh - 1)), H - sh)
        if rng.random() < 0.7:    # (sx,sy,sw,sh) is the source
            dxp, dyp = rng.randint(0, W - sw), rng.randint(0, H - sh)
            acts.append("copyrgn %d %d %d %d %d %d" % (dxp - sx, dyp - sy, dxp, dyp, dxp + sw, dyp + sh))
        else:                     # ... is the destination
            ox, oy = rng.randint(0, W - sw), rng.randint(0, H - sh)
            acts.append("copyrgn %d %d %d %d %d %d" % (sx - ox, sy - oy, sx, sy, sx + sw, sy + sh))
        if rng.random() < 0.3:
            acts.append("draw %d %d %d %d %d" % (rect_in(rng, W, H) + (rng.randint(2, 99),)))
        if rng.random() < 0.4:
            # the application changes the cursor shape (smaller, larger, other hot spot)
            ncw, nch = rng.randint(1, 6), rng.randint(1, 6)
            acts.append("cursor %d %d %d %d" % (ncw, nch, rng.randint(0, ncw - 1), rng.randint(0, nch - 1)))
        rng.shuffle(acts)
        if rng.random() < 0.3:
            acts.insert(rng.randint(0, len(acts)), "update 0")
        lines += acts
        px, py = npx, npy
        for c in range(nc):
            lines.append("state %d" % c)
            settle(lines, c, W, H, 0, 2)
    return "\n".join(lines) + "\n", dict(W=W, H=H, ps=0, mr=0, nc=nc, soft=[0], defer=0, family="softcopy")


def gen_script(rng, nops):
    W, H = rng.choice([(8, 6), (13, 9), (20, 12), (31, 17), (40, 23)])
    ps = rng.choice([0, 0, 0, 3, 7])
    mr = rng.choice([0, 0, 0, 1, 2, 50])
    nc = rng.choice([1, 2, 2, 3])
    lines = ["screen %d %d %d %d" % (W, H, ps, mr),
             "cursor %d %d %d %d" % (rng.randint(1, 5), rng.randint(1, 5), rng.randint(0, 2), rng.randint(0, 2))]
    soft = set()
    for c in range(nc):
        cs = 0 if rng.random() < 0.25 else 1
        if not cs:
            soft.add(c)
        lines += ["client %d" % c, "setenc %d %d %d" % (c, rng.randint(0, 1), cs)]
    defer = rng.choice([0, 0, 0, 5, 40])
    if defer:
        lines.append("defer %d" % defer)
    lastd = None

    def states():
        for c in range(nc):
            lines.append("state %d" % c)
    for _ in range(nops):
        r = rng.random()
        if r < 0.22:
            # draw/mark, sometimes out-of-range / inverted / empty
            if rng.random() < 0.25:
                x1, x2 = rng.randint(-6, W + 6), rng.randint(-6, W + 6)
                y1, y2 = rng.randint(-6, H + 6), rng.randint(-6, H + 6)
            else:
                x1, y1, x2, y2 = rect_in(rng, W, H)
            if rng.random() < 0.85:
                lines.append("draw %d %d %d %d %d" % (x1, y1, x2, y2, rng.randint(1, 30000)))
            else:
                lines.append("mark %d %d %d %d" % (x1, y1, x2, y2))
        elif r < 0.42:
            # copy region: 1..3 rectangles, destination and source inside the screen
            if lastd and rng.random() < 0.65:
                dx, dy = lastd          # repeated copy with the same offset
            else:
                dx = rng.choice([0, 1, -1, 2, -3, rng.randint(-(W // 2), W // 2)])
                dy = rng.choice([0, 1, -1, 2, -2, rng.randint(-(H // 2), H // 2)])
            lastd = (dx, dy)
            lox, hix = max(0, dx), min(W, W + dx)
            loy, hiy = max(0, dy), min(H, H + dy)
            if hix - lox < 1 or hiy - loy < 1:
                continue
            rs = []
            for _k in range(rng.choice([1, 1, 2, 3])):
                x1 = rng.randint(lox, hix - 1)
                y1 = rng.randint(loy, hiy - 1)
                rs += [x1, y1, rng.randint(x1 + 1, hix), rng.randint(y1 + 1, hiy)]
            lines.append("copyrgn %d %d %s" % (dx, dy, " ".join(map(str, rs))))
        elif r < 0.70:
            c = rng.randrange(nc)
            incr = 1 if rng.random() < 0.7 else 0
            q = rng.random()
            if q < 0.5:
                x, y, w, h = 0, 0, W, H
            elif q < 0.9:
                x1, y1, x2, y2 = rect_in(rng, W, H)
                x, y, w, h = x1, y1, x2 - x1, y2 - y1
            else:   # boundary / degenerate / out of range requests
                x, y = rng.choice([0, W - 1, W, W + 1, 65535]), rng.choice([0, H - 1, H, H + 1])
                w, h = rng.choice([0, 1, W, W + 3, 65535]), rng.choice([0, 1, H, H + 3, 65535])
            lines.append("req %d %d %d %d %d %d" % (c, incr, x, y, w, h))
        elif r < 0.90:
            lines.append("update %d" % rng.randrange(nc))
        elif r < 0.915:
            settle(lines, rng.randrange(nc), W, H, ps, rng.choice([1, 2, None]))
        elif r < 0.925:
            # rfbSetCursor mid-session: a new shape of another size / hot spot
            lines.append("cursor %d %d %d %d" % (rng.randint(1, 6), rng.randint(1, 6), rng.randint(0, 2), rng.randint(0, 2)))
        elif r < 0.935:
            lines.append("clock %d" % rng.choice([1, 999, 1000, 4999, 5001, 39999, 40001, 100000, 999999, 1000000, 3000000]))
        elif r < 0.96:
            lines.append("ptr %d %d" % (rng.randint(0, W + 3), rng.randint(0, H + 3)))
        else:
            c = rng.randrange(nc)
            cs = (0 if c in soft else 1) if rng.random() < 0.6 else rng.randint(0, 1)
            if not cs:
                soft.add(c)     # "ever soft": the python oracle skips the idle-silence rule for it
            lines.append("setenc %d %d %d" % (c, rng.randint(0, 1), cs))
        states()
    # drain: every client asks for everything and is updated until idle
    for c in range(nc):
        settle(lines, c, W, H, ps)
        lines.append("state %d" % c)
    return "\n".join(lines) + "\n", dict(W=W, H=H, ps=ps, mr=mr, nc=nc, soft=sorted(soft), defer=defer)


def split_oracle(lines):
    """-> (plain observations, oracle lines); oracle lines are tagged with the index of the plain
    observation they follow, as (index, line)"""
    plain, oracle = [], []
    for l in lines:
        if l.startswith("!"):
            oracle.append((len(plain) - 1, l))
        else:
            plain.append(l)
    return plain, oracle


def parse_rects(s):
    s = s.strip("[]")
    return [tuple(int(v) for v in r.split(",")) for r in s.split(";")] if s else []


def py_oracle(script, plain, oracle_lines, meta):
    """model-independent checks in the property's own words"""
    ops = [l for l in script.splitlines() if l]
    settled = {}
    for i, l in oracle_lines:
        if l.startswith("!settled"):
            settled[i] = l
        elif "FAIL" in l or l.startswith("!wire"):
            return l
    if len(ops) != len(plain):
        return "observation count %d != ops %d" % (len(plain), len(ops))
    # `settled N` is believed only where the observations themselves show that the server twice had
    # nothing to send in answer to an incremental request for the whole screen
    for i, l in sorted(settled.items()):
        c = ops[i].split()[1]
        pat = ["req %s 1 0 0 %d %d" % (c, meta["W"], meta["H"]), "clock 1000000", "update %s" % c, "clock 1000000", "update %s" % c]
        if i >= 5 and ops[i - 5:i] == pat and plain[i - 5] == "ok" and plain[i - 3] == "none" and plain[i - 1] == "none":
            meta["settled_checked"] = meta.get("settled_checked", 0) + 1
            if "FAIL" in l:
                return "the server has nothing more to send to client %s but its picture differs from the framebuffer: %s" % (c, l)
        else:
            meta["settled_busy"] = meta.get("settled_busy", 0) + 1
    W, H = meta["W"], meta["H"]
    last = {}          # client -> (M, C) strings of the last state line
    pend_nonincr = {}  # client -> set of pixels requested non-incrementally directly before update
    quiet_since = {}   # client -> True if nothing was drawn/copied/requested since an idle state
    prev_op = None
    for op, ob in zip(ops, plain):
        t = op.split()
        if t[0] in ("draw", "mark", "copyrgn", "setenc", "cursor", "ptr"):
            quiet_since = {}
            pend_nonincr = {}
        elif t[0] == "req" and ob == "ok":
            c, incr = int(t[1]), int(t[2])
            x, y, w, h = (int(v) for v in t[3:7])
            if incr == 0 and x + w <= W and y + h <= H and meta["ps"] == 0:
                pend_nonincr.setdefault(c, set()).update((i, j) for i in range(x, x + w) for j in range(y, y + h))
            if incr == 0:
                quiet_since.pop(c, None)
        elif t[0] == "update":
            c = int(t[1])
            if ob.startswith("fbu"):
                parts = dict(p.split("=", 1) for p in ob.split()[1:])
                raws, copies = parse_rects(parts["raws"]), parse_rects(parts["copies"])
                for (x1, y1, x2, y2) in raws:
                    if not (0 <= x1 < x2 <= W and 0 <= y1 < y2 <= H):
                        return "update rectangle %r not a non-empty rectangle inside the screen" % ((x1, y1, x2, y2),)
                for (x, y, w, h, sx, sy) in copies:
                    if not (w > 0 and h > 0 and 0 <= x and x + w <= W and 0 <= y and y + h <= H
                            and 0 <= sx and sx + w <= W and 0 <= sy and sy + h <= H):
                        return "CopyRect %r leaves the screen" % ((x, y, w, h, sx, sy),)
                if quiet_since.get(c) and (raws or copies) and c not in meta.get("soft", []):
                    return "incremental request while up to date produced pixel data: %s" % ob
                if c in pend_nonincr and prev_op and prev_op.startswith("req %d 0" % c) and not meta.get("defer"):
                    cov = set()
                    for (x1, y1, x2, y2) in raws:
                        cov.update((i, j) for i in range(x1, x2) for j in range(y1, y2))
                    for (x, y, w, h, sx, sy) in copies:
                        cov.update((i, j) for i in range(x, x + w) for j in range(y, y + h))
                    miss = pend_nonincr[c] - cov
                    if miss:
                        return "non-incremental request not fully resent: %d pixels missing e.g. %r" % (len(miss), sorted(miss)[0])
            elif quiet_since.get(c) is None and c in pend_nonincr and pend_nonincr[c] and prev_op and prev_op.startswith("req %d 0" % c) and not meta.get("defer"):
                return "non-incremental request for client %d produced no update" % c
            pend_nonincr.pop(c, None)
        elif t[0] == "state":
            c = int(t[1])
            if ob.startswith("M=[] C=[] "):
                quiet_since.setdefault(c, True)
            else:
                quiet_since.pop(c, None)
        prev_op = op
    return None


def run(ctx):
    h = ctx.harness("c02")
    d = ctx.driver("drv_c02")
    fails, samples = [], []
    dist = {"ops": {}, "screens": {}, "updates_with_copyrect": 0, "updates_sent": 0,
            "multi_rect_copy_regions": 0, "inv_checks": 0, "idle_states": 0,
            "settled_checked": 0, "settled_busy": 0, "families": {}}
    scripts = []
    for f in sorted(glob.glob(os.path.join(common.VERIF, "corpus", "C02", "*.ops"))):
        txt = open(f).read()
        t = txt.split()
        scripts.append((txt, dict(W=int(t[1]), H=int(t[2]), ps=int(t[3]), mr=int(t[4]), nc=0, corpus=os.path.basename(f))))
    if ctx.replay:
        rec = json.load(open(ctx.replay))
        txt = "\n".join(rec.get("script", [])) + "\n"
        t = txt.split()
        scripts = [(txt, dict(W=int(t[1]), H=int(t[2]), ps=int(t[3]), mr=int(t[4]), nc=0))]
    else:
        n = 500 if ctx.tier == "quick" else 5000
        for _ in range(n):
            scripts.append(gen_script(ctx.rng, ctx.rng.choice([8, 15, 30, 60])))
        for _ in range(n // 8):
            scripts.append(gen_partial(ctx.rng))
            scripts.append(gen_softcopy(ctx.rng))

    def one(sc):
        script, meta = sc
        rc, impl, err = ctx.run_lines(h, script)
        if rc != 0:
            return (impl, [], {"kind": "crash", "what": "update: harness exit %d" % rc,
                               "script": script.splitlines(), "impl": impl[-10:], "detail": err})
        plain, orc = split_oracle(impl)
        o = py_oracle(script, plain, orc, meta)
        f = None
        if o:
            f = {"kind": "oracle", "what": "C02 convergence oracle", "detail": o,
                 "script": script.splitlines(), "impl": impl[-40:]}
        model = []
        if ctx.driver_ok:
            rc2, model, err2 = ctx.run_lines(d, script)
            i = common.first_diff(plain, model)
            if f is None and (rc2 != 0 or i is not None):
                ops = [l for l in script.splitlines() if l]
                f = {"kind": "exact", "what": "update.model (regions / rectangles differ)", "line": i,
                     "op": ops[i] if i is not None and i < len(ops) else None,
                     "script": script.splitlines(),
                     "impl": plain[max(0, (i or 0) - 1):(i or 0) + 2], "model": model[max(0, (i or 0) - 1):(i or 0) + 2]}
        return (impl, model, f)

    results = common.pmap(one, scripts)
    seen = set()
    for (script, meta), (impl, model, f) in zip(scripts, results):
        if f:
            fails.append(f)
        for l in script.splitlines():
            k = l.split()[0]
            dist["ops"][k] = dist["ops"].get(k, 0) + 1
            if k == "copyrgn" and len(l.split()) > 7:
                dist["multi_rect_copy_regions"] += 1
        key = "%dx%d ps=%d mr=%d" % (meta["W"], meta["H"], meta["ps"], meta["mr"])
        dist["screens"][key] = dist["screens"].get(key, 0) + 1
        dist["settled_checked"] += meta.get("settled_checked", 0)
        dist["settled_busy"] += meta.get("settled_busy", 0)
        fam = meta.get("family", meta.get("corpus", "random"))
        dist["families"][fam] = dist["families"].get(fam, 0) + 1
        nt = 0
        for l in impl:
            if l.startswith("fbu"):
                dist["updates_sent"] += 1
                if "copies=[]" not in l:
                    dist["updates_with_copyrect"] += 1
                    nt += 1
            elif l.startswith("!inv"):
                dist["inv_checks"] += 1
                if "idle=1" in l:
                    dist["idle_states"] += 1
        if nt >= 1:
            seen.add(script)
        if len(samples) < 2:
            samples.append({"script": script.splitlines()[:60], "impl": impl[:60]})
    return {
        "evaluations": len(scripts), "distinct_nontrivial": len(seen),
        "rule": "random histories of draw/mark (incl. out-of-range, inverted), multi-rectangle copy regions in all directions with repeated/different offsets, incremental/non-incremental requests (incl. degenerate and out-of-range), SetEncodings toggling CopyRect, updates, for 1..3 clients, progressive slicing and maxRectsPerUpdate on/off; non-trivial = distinct script in which at least one update carried CopyRect rectangles",
        "samples": samples, "distribution": dist, "failures": fails[:6],
        "partial": ["soft-cursor clients: region state, emitted rectangles and their picture (framebuffer with the scripted all-set white cursor painted at the pointer) are compared; arbitrary cursor shapes / masks are C15's subject",
                    "the theorems speak about the cursor-less picture: model_converges_env covers pointer moves / cursor and knob changes between operations, the painted soft cursor itself is compared by the run (overlay oracle) and belongs to C15",
                    "scaled clients are covered by C17",
                    "encodings other than Raw/CopyRect: the scheduling is encoding independent (region arithmetic precedes encoding); pixel exactness per encoding is C01"],
        "assumptions": ["the application reports every change (draw is always followed by mark of the same rectangle; copies use rfbDoCopyRegion)",
                        "copy sources lie inside the framebuffer (otherwise rfbDoCopyRegion itself reads outside the framebuffer)"],
    }


META = {
    "technique": "Lean 4: inductive invariant over all interleavings on a set-level spec (pixel sets), CopyRect order-safety theorem, executable region-level model on top of the proved region algebra; tied by exact differential run of region state + emitted rectangles against the real server, plus the invariant evaluated directly on the implementation",
    "level_text": "Proof: USpec (set level) has the convergence invariant Inv proved for every transition and hence every reachable state of every interleaving; sequential application of CopyRects in the emitted order equals the simultaneous copy (all directions, all well-formed regions). The executable region-level model (built on the C11 model whose operations are proved to be set algebra) is compared exactly with the implementation's modifiedRegion/copyRegion/requestedRegion/offset after every operation and with every emitted rectangle; the invariant itself is also evaluated on the implementation (decoded client picture vs framebuffer).",
    "level_note": "Trusted: Lean kernel; harness/driver/generators (testing). Modelled: mark, schedule-copy (incl. cursor rules), request clipping, SetEncodings CopyRect/cursor flags, send condition, region arithmetic of rfbSendFramebufferUpdate, progressive slicing, maxRectsPerUpdate, emission order. Deferral (deferUpdateTime>0) is modelled with a virtual clock (Update/Defer.lean). Not modelled: soft cursor painting (C15), scaling (C17), threads (C13).",
    "design_ref": "DESIGN.md section 7, C02",
}
