"""C08 — No server input can corrupt memory or wedge LibVNCClient.

Proof: lean/VncModel/Props/C08.lean (guards and index arithmetic of the client library:
CheckRect => writes inside the framebuffer, rect-too-large guard, MallocFrameBuffer size, length
caps, CoRRE/RRE/Hextile/TRLE/ZRLE/Tight buffer arithmetic, UltraZip walk, progress-or-fail).
Tie/engine: harness/c07.c (ASan+UBSan build, canary bands around the framebuffer, real-time
watchdog per library call, interposed read/write/select) fed with hostile streams: the corpus of
witnesses, truncation of valid sessions at every byte, grammar-aware mutations of every server
message/encoding of the C07 reference encoder, byte noise, all 1-cut read segmentations of small
streams.  Oracle: no sanitizer report, canaries intact, no hang, FALSE on truncated streams.
Where the Lean client model makes a prediction (Driver/C07.lean prints no `?`), accept/reject,
callbacks, requests and framebuffer are compared exactly.
"""
import json, os, struct, zlib, re
from .. import common, build
from . import c07, c07_enc as E

PROPS_MOD = "VncModel.Props.C08"
EXTRA_TARGETS = ["drv_c07"]
GEN = ["c07"]

SAN_RE = re.compile(r"(ERROR: AddressSanitizer: [^\n]*|runtime error: [^\n]*|ERROR: LeakSanitizer[^\n]*|AddressSanitizer:DEADLYSIGNAL|SUMMARY: \w+Sanitizer: [^\n]*)")


# --------------------------------------------------------------------------------------------
# known-finding predicates on sanitizer reports (precise: source file + function of the report)
# --------------------------------------------------------------------------------------------
FINDING_SITES = [
    ("ultrazip-bounds", re.compile(r"HandleUltraZip(8|16|32)|ultra\.c:1[5-9]\d|ultra\.c:2\d\d")),
    ("tight-row-overrun", None), ("tight-gradient-width", None), ("tight-nozlib-length", None),
    ("tight-jpeg16-buffer", None), ("trle-run-buffer", None), ("zrle-tile-bounds", None),
]


def classify(err, script_lines):
    """-> finding id for a sanitizer report whose site is one of the reported defects, else None"""
    m = re.search(r"#\d+ 0x[0-9a-f]+ in (\w+) [^\n]*?/(\w+\.c):(\d+)", err)
    frames = re.findall(r"#\d+ 0x[0-9a-f]+ in (\w+) [^\n]*?/(\w+\.c):(\d+)", err)
    fr = [(fn, f, int(l)) for fn, f, l in frames]
    ue = re.search(r"/(\w+\.c):(\d+):\d+: runtime error", err)
    files = [f for _, f, _ in fr] + ([ue.group(1)] if ue else [])
    funcs = [fn for fn, _, _ in fr]
    if ue and ue.group(1) == "cursor.c" and "signed integer overflow" in err:
        return "cursor-size-overflow"
    if ue and ue.group(1) == "rfbclient.c" and "negation of -2147483648" in err:
        return "c18-client-cuttext-ub"        # found and fixed by C18 (fixes/C18-client-cuttext-negate.diff)
    if ue and ue.group(1) == "ultra.c" and int(ue.group(2)) <= 150 and "signed integer overflow" in err:
        return "ultra-buffer-alloc"
    if any(fn.startswith("HandleUltraZip") for fn in funcs) or (ue and ue.group(1) == "ultra.c" and int(ue.group(2)) > 150):
        return "ultrazip-bounds"
    if any(fn.startswith("HandleTRLE") for fn in funcs) and "trle.c" in files:
        return "trle-run-buffer"
    if any(fn.startswith("HandleZRLETile") for fn in funcs) or (ue and ue.group(1) == "zrle.c"):
        return "zrle-tile-bounds"
    if any(fn.startswith("DecompressJpegRect16") for fn in funcs) or (ue and ue.group(1) == "tight.c" and 640 <= int(ue.group(2)) <= 700):
        return "tight-jpeg16-buffer"
    if any(fn.startswith("FilterGradient") for fn in funcs) or any(fn.startswith("InitFilterGradient") for fn in funcs):
        return "tight-gradient-width"
    if any(fn.startswith("Filter") for fn in funcs) and any(fn.startswith("HandleTight") for fn in funcs):
        # FilterCopy/FilterPalette reached from HandleTight: row overrun (zlib path) or NoZlib length
        return "tight-row-overrun+nozlib"
    if ue and ue.group(1) == "tight.c":
        return "tight-row-overrun+nozlib"
    return None


# --------------------------------------------------------------------------------------------
# sessions and mutations
# --------------------------------------------------------------------------------------------
def split_session(s):
    """-> (head lines [client, seg], handshake bytes, [(z lines, message bytes)], fmt)"""
    lines = s["script"].splitlines()
    head, hs, msgs, zs = [], None, [], []
    for l in lines:
        t = l.split()
        if t[0] in ("client", "seg", "adopt"):
            head.append(l)
        elif t[0] == "init":
            hs = bytes.fromhex(t[1])
        elif t[0] == "z":
            zs.append(l)
        elif t[0] == "msg":
            msgs.append((zs, b"" if t[1] == "-" else bytes.fromhex(t[1])))
            zs = []
    return head, hs, msgs


def hexs(b):
    return b.hex() if b else "-"


def build_script(head, eos, hs, pre_msgs, tail_bytes, zlines=(), init_cut=None, reps=(), pre_init=()):
    """valid prefix message by message, then `feed` the (mutated) tail and `drain`.
    reps: (unit bytes, count) appended after the tail by `feedrep`; pre_init: lines before `init`"""
    lines = list(head) + ["eos " + eos]
    lines += list(pre_init)
    lines.append("init " + hexs(hs))
    for zl, m in pre_msgs:
        lines += zl
        lines.append("msg " + hexs(m))
    lines += list(zlines)
    if tail_bytes is not None:
        lines.append("feed " + hexs(tail_bytes))
        for unit, cnt in reps:
            lines.append("feedrep %s %d" % (hexs(unit), cnt))
        lines.append("drain")
    lines.append("stats")
    lines.append("end")
    return "\n".join(lines) + "\n"


BIG16 = [0, 1, 255, 256, 2047, 2048, 2049, 32767, 32768, 65534, 65535]
BIG32 = [0, 1, 127, 128, (1 << 20) - 1, 1 << 20, (1 << 20) + 1, (1 << 31) - 1, 1 << 31, (1 << 31) + 1, (1 << 32) - 1]


def mutate_message(rng, msg, W, H):
    """grammar-aware mutation of one server message -> (bytes, tag)"""
    b = bytearray(msg)
    if not b:
        return bytes(b), "empty"
    r = rng.random()
    if b[0] == 0 and len(b) >= 16:          # FramebufferUpdate
        nrects = struct.unpack(">H", b[2:4])[0]
        if r < 0.10:
            struct.pack_into(">H", b, 2, rng.choice(BIG16))
            return bytes(b), "fbu:nrects"
        if r < 0.45:                         # first rectangle header: geometry
            fld = rng.choice([4, 6, 8, 10])
            v = rng.choice(BIG16 + [W, H, W + 1, H + 1, max(0, W - 1), max(0, H - 1)])
            struct.pack_into(">H", b, fld, v)
            return bytes(b), "rect:geom"
        if r < 0.55:                         # encoding number
            e = rng.choice(list(E.ENC.values()) + [3, 8, 10, 17, 0xFFFFFFFF, 0x7FFFFFFF, 0xFFFF0009, 0xFFFE0001, 0xFFFE0002, 0xFFFE0003, 0xFFFFFE00 + rng.randint(0, 255)])
            struct.pack_into(">I", b, 12, e)
            return bytes(b), "rect:enc"
        if r < 0.80 and len(b) > 20:         # payload header: first 1..8 bytes after the rect header
            o = 16 + rng.randint(0, min(7, len(b) - 17))
            if rng.random() < 0.5 and o + 4 <= len(b):
                struct.pack_into(">I", b, o, rng.choice(BIG32))
                return bytes(b), "payload:u32"
            b[o] = rng.choice([0, 1, 2, 3, 0x0A, 0x40, 0x41, 0x42, 0x50, 0x7F, 0x80, 0x81, 0x82, 0x90, 0xA0, 0xB0, 0xE0, 0xF0, 0xFF, rng.getrandbits(8)])
            return bytes(b), "payload:byte"
    if b[0] == 3 and len(b) >= 8 and r < 0.7:    # ServerCutText length
        struct.pack_into(">I", b, 4, rng.choice(BIG32))
        return bytes(b), "cut:len"
    if r < 0.85:                                 # byte noise
        for _ in range(rng.choice([1, 1, 2, 4, 16])):
            b[rng.randrange(len(b))] = rng.getrandbits(8)
        return bytes(b), "noise"
    if r < 0.93:
        b[0] = rng.choice([1, 4, 11, 15, 150, 250, 251, 252, 253, 254, 255, rng.getrandbits(8)])
        return bytes(b), "msgtype"
    k = rng.randrange(len(b))
    return bytes(b[:k]) + bytes(rng.getrandbits(8) for _ in range(rng.choice([1, 3, 9]))) + bytes(b[k:]), "insert"


def mutate_handshake(rng, hs):
    b = bytearray(hs)
    r = rng.random()
    if r < 0.25:        # version string
        v = rng.choice([b"RFB 003.003\n", b"RFB 003.007\n", b"RFB 003.008\n", b"RFB 003.005\n", b"RFB 003.006\n", b"RFB 003.014\n",
                        b"RFB 003.016\n", b"RFB 003.004\n", b"RFB 000.000\n", b"RFB 999.999\n", b"RFB 003.8\n\0\0", b"XXX 003.008\n", b"RFB -03.008\n"])
        return v + bytes(b[12:]), "hs:version"
    if r < 0.45 and hs[:12] >= b"RFB 003.007\n":      # security types (never TLS/VeNCrypt/SASL: not interposable)
        types = [rng.choice([0, 1, 2, 5, 16, 17, 30, 113, 129, 255]) for _ in range(rng.choice([0, 1, 2, 5, 255]))]
        rest = bytes(b[14:])
        return bytes(b[:12]) + bytes([len(types) & 0xFF]) + bytes(types) + rest, "hs:sectypes"
    if r < 0.60:        # security result + reason with huge length
        res = struct.pack(">I", rng.choice([0, 1, 2, 3, 0xFFFFFFFF]))
        reason = struct.pack(">I", rng.choice(BIG32)) + b"because"
        return bytes(b[:14]) + res + reason + bytes(b[18:]), "hs:result"
    # ServerInit fields: width/height/format/name length
    si = len(hs) - (len(hs) - hs.rfind(struct.pack(">I", 0)[:0]))   # placeholder, refined below
    # locate ServerInit: handshake() layout is version(12) + sec + SI(24) + name
    if hs[:12] >= b"RFB 003.008\n":
        o = 12 + 2 + 4
    elif hs[:12] >= b"RFB 003.007\n":
        o = 12 + 2
    else:
        o = 12 + 4
    if o + 24 > len(b):
        return bytes(b), "hs:none"
    q = rng.random()
    if q < 0.4:
        struct.pack_into(">H", b, o + rng.choice([0, 2]), rng.choice(BIG16))
        return bytes(b), "hs:size"
    if q < 0.8:
        struct.pack_into(">I", b, o + 20, rng.choice(BIG32))
        return bytes(b), "hs:namelen"
    b[o + 4 + rng.randrange(16)] = rng.getrandbits(8)
    return bytes(b), "hs:format"


def gen_cases(rng, lzo, tier):
    """-> list of dict(script, kind, expect_false (bool|None), tag)"""
    out = []
    nbase = 40 if tier == "quick" else 300
    for _ in range(nbase):
        s = c07.gen_session(rng, lzo)
        head, hs, msgs = split_session(s)
        head = [re.sub(r"fbmode=\d", "fbmode=2", head[0])] + head[1:]
        W, H = s["size"]
        eos = rng.choice(["eof", "eof", "eagain", "flaky"])
        # a session of the known finding cpixel-depth is parsed differently by the library (3-byte CPIXELs):
        # its message boundaries are not the generator's, so "cut inside a message => FALSE" cannot be claimed
        exact_bounds = c07.finding_of(s) is None
        allz = [zl for zs, _ in msgs for zl in zs]
        # (a) truncation: inside the handshake
        for _k in range(2):
            cut = rng.randrange(len(hs))
            out.append({"script": build_script(head, eos, hs[:cut], [], None), "kind": "trunc-hs", "expect_false": True, "tag": "trunc:hs"})
        # (b) truncation inside a message (a few per session; thorough: many)
        stream = b"".join(m for _, m in msgs)
        bounds, acc = set(), 0
        for _, m in msgs:
            acc += len(m)
            bounds.add(acc)
        ncuts = 6 if tier == "quick" else 30
        for _k in range(ncuts):
            if len(stream) < 2:
                break
            cut = rng.randrange(1, len(stream))
            if rng.random() < 0.5:      # near message starts: headers
                starts = [0] + sorted(bounds)
                st = rng.choice(starts[:-1]) if len(starts) > 1 else 0
                cut = min(len(stream) - 1, st + rng.randint(1, 24))
            if cut in bounds or cut == 0:
                continue
            out.append({"script": build_script(head, eos, hs, [], stream[:cut], zlines=allz), "kind": "trunc-msg",
                        "expect_false": True if exact_bounds else None, "tag": "trunc:msg"})
        # (c) grammar-aware mutation of one message, the rest of the session follows
        for _k in range(6 if tier == "quick" else 25):
            if not msgs:
                break
            i = rng.randrange(len(msgs))
            mm, tag = mutate_message(rng, msgs[i][1], W, H)
            tail = mm + b"".join(m for _, m in msgs[i + 1:])
            zl = [z for zs, _ in msgs[i:] for z in zs]
            out.append({"script": build_script(head, eos, hs, msgs[:i], tail, zlines=zl), "kind": "mut-msg",
                        "expect_false": None, "tag": "mut:" + tag})
        # (d) handshake mutations
        for _k in range(3 if tier == "quick" else 10):
            h2, tag = mutate_handshake(rng, hs)
            out.append({"script": build_script(head, eos, h2, [], stream[:200] if rng.random() < 0.5 else b"", zlines=allz),
                        "kind": "mut-hs", "expect_false": None, "tag": "mut:" + tag})
        # (e) all 1-cut segmentations of a small stream (handshake + first message)
        if msgs and len(hs) + len(msgs[0][1]) <= 90 and rng.random() < 0.5:
            total = len(hs) + len(msgs[0][1])
            for c in range(1, total, 1 if tier != "quick" else 3):
                hd = [l for l in head if not l.startswith("seg")] + ["seg %d,1000000" % c]
                out.append({"script": build_script(hd, "eof", hs, [msgs[0]], None), "kind": "seg", "expect_false": False, "tag": "seg:1cut"})
    return out


def structured_cases(rng, lzo, mkjpeg=None):
    """deterministic boundary cases of the modelled guards (rect-too-large, CheckRect, caps, counts)"""
    out = []
    F = E.FMT_BY_NAME
    for fmt in (F["bgr233"], F["rgb565le"], F["rgb888le"], F["rgb101010le"]):
        W, H = 20, 10
        head = ["client %s enc=raw+copyrect+rre+corre+hextile+trle cursor=1 fbmode=1" % " ".join(str(v) for v in fmt.tuple()), "seg 0"]
        hs = E.handshake(F["rgb888le"], W, H, b"g")
        bp = fmt.bytespp

        def fb1(x, y, w, h, enc, payload):
            return E.fbu([struct.pack(">HHHHI", x, y, w, h, enc) + payload])
        cases = []
        for (x, y, w, h) in [(0, 0, 20, 10), (0, 0, 21, 10), (0, 0, 20, 11), (19, 9, 1, 1), (19, 9, 2, 1), (20, 10, 0, 0), (21, 0, 0, 0),
                             (65535, 0, 1, 1), (0, 65535, 1, 1), (10, 5, 65535, 1), (0, 0, 0, 0), (5, 5, 0, 3)]:
            cases.append(("rect-guard", fb1(x, y, w, h, 0, b"\x11" * (min(w * h, 400) * bp))))
            cases.append(("copy-guard", fb1(0, 0, 3, 3, 1, struct.pack(">HH", x, y))))
            cases.append(("copy-guard", fb1(x % 25, y % 12, w % 25, h % 12, 1, struct.pack(">HH", 1, 1))))
            # RRE sub-rectangle outside the framebuffer: must be ignored by CheckRect
            cases.append(("rre-sub", fb1(0, 0, 20, 10, 2, struct.pack(">I", 1) + b"\x01" * bp + b"\x02" * bp + struct.pack(">HHHH", x, y, w, h))))
        # counts whose product with the entry size wraps 2^32 (0x20000000*8, 0x80000000*6, 0x33333334*5, ...)
        wraps = [0x20000000, 0x20000001, 0x80000000, 0x2AAAAAAB, 0x33333334, 0x55555556, 0x40000000, 0x10000000, 0x1999999A]
        for n in [0, 1, 307200 // (4 + bp), 307200 // (4 + bp) + 1, 1 << 31, (1 << 32) - 1] + wraps:
            cases.append(("corre-count", fb1(0, 0, 20, 10, 4, struct.pack(">I", n) + b"\x01" * bp + (b"\x02" * bp + bytes([1, 1, 2, 2])) * min(n, 4))))
            cases.append(("rre-count", fb1(0, 0, 20, 10, 2, struct.pack(">I", n) + b"\x01" * bp + (b"\x02" * bp + struct.pack(">HHHH", 1, 1, 2, 2)) * min(n, 4))))
        for ln in [0, 1, (1 << 20) - 1, 1 << 20, (1 << 20) + 1, 1 << 31, (1 << 32) - (1 << 20), (1 << 32) - 1]:
            cases.append(("cut-cap", struct.pack(">BxxxI", 3, ln) + b"t" * min(ln if ln < (1 << 31) else (1 << 32) - ln, (1 << 20) + 2)))
        for (cw, ch) in [(0, 5), (1023, 1), (1024, 1), (1, 1024), (1023, 1023), (65535, 65535)]:
            cases.append(("cursor-size", fb1(0, 0, cw, ch, E.ENC["richcursor"], b"\x00" * 64)))
            cases.append(("cursor-size", fb1(0, 0, cw, ch, E.ENC["xcursor"], b"\x00" * 64)))
        for (nw, nh) in [(0, 0), (1, 0), (0, 1), (1, 1), (2048, 1024), (2048, 1025), (65535, 65535), (65535, 1)]:
            cases.append(("resize", fb1(0, 0, nw, nh, E.ENC["newfbsize"], b"") + E.fbu([struct.pack(">HHHHI", 0, 0, min(nw, 4), min(nh, 4), 0) + b"\x07" * (min(nw, 4) * min(nh, 4) * bp)])))
        # cursor shape: empty after non-empty, repeatedly, then a truncated one (free/NULL discipline)
        def cur(w, h, rich=True):
            body = (b"\x11" * (w * h * bp) if rich else b"\x01\x02\x03\x04\x05\x06" + b"\xaa" * ((w + 7) // 8 * h)) + b"\x55" * ((w + 7) // 8 * h)
            return E.fbu([struct.pack(">HHHHI", 0, 0, w, h, E.ENC["richcursor" if rich else "xcursor"]) + (body if w * h else b"")])
        cases.append(("cursor-seq", cur(8, 8) + cur(0, 0) + cur(0, 7, False) + cur(9, 3, False) + cur(5, 0) + cur(4, 4) + cur(0, 0, False)))
        cases.append(("cursor-seq", cur(8, 8) + cur(0, 0) + cur(16, 16)[:40]))
        cases.append(("cursor-seq", cur(8, 8) + cur(9, 9, False)[:30]))
        cases.append(("cursor-seq", cur(8, 8) + cur(2000, 2) + cur(3, 3)))
        head2 = [head[0].replace("fbmode=1", "fbmode=2")] + head[1:]
        for tag, m in cases:
            out.append({"script": build_script(head2, "eof", hs, [], m), "kind": "guard", "expect_false": None, "tag": "guard:" + tag})
        # ReadFromRFBServer: a request of <= 8192 bytes served by >= 2 read() calls (buffered branch) and
        # a request > 8192 bytes (unbuffered branch), complete and with the stream ending in the middle
        BW, BH = 300, 40
        hsb = E.handshake(F["rgb888le"], BW, BH, b"g")
        rows = bytes((i * 7 + 3) & 0xFF for i in range(BW * BH * bp))
        big = E.fbu([struct.pack(">HHHHI", 0, 0, BW, BH, 0) + rows])
        small = E.fbu([struct.pack(">HHHHI", 0, 0, BW, 6 // bp + 1, 0) + rows[:BW * (6 // bp + 1) * bp]])
        for seg in ("0", "1000", "8192", "8191,1", "4096", "100000"):
            for eos in ("eof", "eagain", "flaky"):
                hd = [head2[0] if False else head[0].replace("fbmode=1", "fbmode=2"), "seg " + seg]
                out.append({"script": build_script(hd, eos, hsb, [], big + small), "kind": "guard", "expect_false": False, "tag": "guard:read-branches"})
                for cut in (len(big) - 1, len(big) // 2, 8192 + 30, 20, len(big) + 17):
                    out.append({"script": build_script(hd, eos, hsb, [], (big + small)[:cut]), "kind": "guard", "expect_false": True,
                                "tag": "guard:read-branches-eof"})
        for ln in [0, 1, (1 << 20), (1 << 20) + 1, 1 << 31, (1 << 32) - 1]:
            h2 = hs[:18 + 20] + struct.pack(">I", ln) + b"n" * min(ln, 1 << 20)
            out.append({"script": build_script(head2, "eof", h2, [], b""), "kind": "guard", "expect_false": None, "tag": "guard:name-cap"})
            h3 = hs[:14] + struct.pack(">I", 1) + struct.pack(">I", ln) + b"r" * min(ln, 1 << 20)
            out.append({"script": build_script(head2, "eof", h3, [], b""), "kind": "guard", "expect_false": True, "tag": "guard:reason-cap"})
    out += handshake_cases()
    out += lzo_sequence_cases()
    out += length_field_cases()
    out += geometry_cases()
    out += cap_cases()
    out += cross_encoding_cases(rng, lzo)
    out += zero_size_cases()
    if mkjpeg:
        out += jpeg_cases(mkjpeg)
    return out


EDGE32 = [0, 1, 3, 4, 0x7FFFFFFC, 0x7FFFFFFD, 0x7FFFFFFE, 0x7FFFFFFF, 0x80000000, 0x80000001, 0xFFFFFFFC, 0xFFFFFFFF]


def length_field_cases():
    """every length-prefixed payload with its length field at the edges of `int` / `uint32_t`
    (INT_MAX, INT_MAX-1..-3, 0x80000000, 0xFFFFFFFF, ...), on a fresh connection and after a valid
    rectangle of the same encoding (buffers already allocated)"""
    out = []
    F = E.FMT_BY_NAME
    for fmt in (F["bgr233"], F["rgb565le"], F["rgb888le"]):
        bp = fmt.bytespp
        W, H = 24, 6
        head = ["client %s enc=ultra+zlib+zrle+tight cursor=0 fbmode=2" % " ".join(str(v) for v in fmt.tuple()), "seg 0"]
        hs = E.handshake(F["rgb888le"], W, H, b"L")
        px = bytes((i * 3 + 1) & 0x3F for i in range(8 * bp))
        zco = zlib.compressobj(1)
        zz = zco.compress(px) + zco.flush(zlib.Z_SYNC_FLUSH)
        lz = c07.lzo_literal(px)
        uzp = struct.pack(">HHHHI", 0, 0, 8, 1, 0) + px
        uzl = c07.lzo_literal(uzp)
        tile = b"\x01" + fmt.cpixel(px[:bp])
        rco = zlib.compressobj(1)
        rz = rco.compress(tile) + rco.flush(zlib.Z_SYNC_FLUSH)
        valid = {
            "ultra": (struct.pack(">HHHHI", 0, 0, 8, 1, 9) + struct.pack(">I", len(lz)) + lz, ["z 5 %s %s" % (hexs(lz), hexs(px))]),
            "ultrazip": (struct.pack(">HHHHI", 1, len(uzp), 0, 0, E.ENC["ultrazip"]) + struct.pack(">I", len(uzl)) + uzl, ["z 5 %s %s" % (hexs(uzl), hexs(uzp))]),
            "zlib": (struct.pack(">HHHHI", 0, 0, 8, 1, 6) + struct.pack(">I", len(zz)) + zz, ["z 4 %s %s" % (hexs(zz), hexs(px))]),
            "zrle": (struct.pack(">HHHHI", 0, 0, 8, 1, 16) + struct.pack(">I", len(rz)) + rz, ["z 6 %s %s" % (hexs(rz), hexs(tile))]),
        }
        hdr = {"ultra": struct.pack(">HHHHI", 0, 0, 8, 1, 9), "ultrazip": struct.pack(">HHHHI", 1, 20, 0, 0, E.ENC["ultrazip"]),
               "zlib": struct.pack(">HHHHI", 0, 0, 8, 1, 6), "zrle": struct.pack(">HHHHI", 0, 0, 8, 1, 16)}
        junk = bytes((7 * i + 5) & 0xFF for i in range(40))
        for enc in ("ultra", "ultrazip", "zlib", "zrle"):
            for v in EDGE32:
                bad = E.fbu([hdr[enc] + struct.pack(">I", v) + junk])
                out.append({"script": build_script(head, "eof", hs, [], bad), "kind": "guard", "expect_false": None, "tag": "guard:len32:" + enc})
                out.append({"script": build_script(head, "eagain", hs, [], E.fbu([valid[enc][0]]) + bad, zlines=valid[enc][1]), "kind": "guard",
                            "expect_false": None, "tag": "guard:len32:" + enc})
                # the other LZO handler shares ultra_buffer / raw_buffer
                if enc in ("ultra", "ultrazip"):
                    other = "ultrazip" if enc == "ultra" else "ultra"
                    out.append({"script": build_script(head, "eof", hs, [], bad + E.fbu([valid[other][0]]), zlines=valid[other][1]),
                                "kind": "guard", "expect_false": None, "tag": "guard:len32:" + enc})
        # Tight compact lengths (1..3 bytes, 22 bits) for copy / palette / gradient / JPEG / no-zlib control bytes
        for ctl in (0x00, 0x40, 0x90, 0xA0, 0x30):
            for cl in (b"\x00", b"\x01", b"\x7f", b"\x80\x01", b"\xff\x7f", b"\x80\x80\x01", b"\xff\xff\xff", b"\x80\x80\x00", b"\xff\xff\x00"):
                filt = b"\x00" if ctl == 0x40 else b""
                out.append({"script": build_script(head, "eof", hs, [], E.fbu([struct.pack(">HHHHI", 0, 0, 8, 3, 7) + bytes([ctl]) + filt + cl + junk])),
                            "kind": "guard", "expect_false": None, "tag": "guard:tight-compact-len"})
        # other server-supplied lengths: text chat, pseudo-encodings whose width is a byte count, screens
        for v in EDGE32 + [10485760, 10485761]:
            out.append({"script": build_script(head, "eof", hs, [], struct.pack(">BxxxI", 11, v) + junk), "kind": "guard", "expect_false": None,
                        "tag": "guard:len32:textchat"})
            out.append({"script": build_script(head, "eof", hs, [], struct.pack(">BxxxI", 3, v) + junk), "kind": "guard", "expect_false": None,
                        "tag": "guard:len32:cuttext"})
        for w16 in (0, 1, 255, 256, 32767, 32768, 65535):
            for e in ("fffe0002", "fffe0003", "fffe0001"):
                out.append({"script": build_script(head, "eof", hs, [], E.fbu([struct.pack(">HHHH", 0, 0, w16, w16) + bytes.fromhex(e) + junk])),
                            "kind": "guard", "expect_false": None, "tag": "guard:len16:pseudo"})
            out.append({"script": build_script(head, "eof", hs, [], E.fbu([struct.pack(">HHHHI", 0, 0, W, H, E.ENC["extdesktopsize"]) + bytes([w16 & 0xFF, 0, 0, 0]) + junk * 3])),
                        "kind": "guard", "expect_false": None, "tag": "guard:len16:pseudo"})
    return out


def geometry_cases():
    """boundary inputs of every coordinate computation behind the rectangle guard: sub-rectangles of
    RRE / CoRRE / Hextile relative to a rectangle at the origin, in the middle and in the far corner
    (a flipped sign or a dropped CheckRect writes in front of / behind the framebuffer), UltraZip
    sub-rectangle tables (checked by CheckRect only), CoRRE counts around the scratch-buffer bound
    WITH all their data (an accepted count one too large writes behind client->buffer)"""
    out = []
    F = E.FMT_BY_NAME
    for fmt in (F["bgr233"], F["rgb565le"], F["rgb888le"]):
        bp = fmt.bytespp
        W, H = 24, 12
        head = ["client %s enc=raw+rre+corre+hextile+ultra cursor=0 fbmode=2" % " ".join(str(v) for v in fmt.tuple()), "seg 0"]
        hs = E.handshake(F["rgb888le"], W, H, b"G")

        def px(k):
            return bytes([k & 0x3F]) * bp

        def fb1(x, y, w, h, enc, payload):
            return E.fbu([struct.pack(">HHHHI", x, y, w, h, enc) + payload])
        subs = [(0, 0, 1, 1), (3, 0, 2, 1), (0, 3, 1, 2), (5, 2, 3, 4), (W - 1, 0, 1, 1), (0, H - 1, 1, 1), (W - 1, H - 1, 1, 1), (W - 1, H - 1, 2, 1),
                (W - 1, H - 1, 1, 2), (W, 0, 1, 1), (0, H, 1, 1), (1, 0, W, 1), (0, 1, 1, H), (0, 0, W, H), (255, 255, 255, 255), (0, 255, 1, 255),
                (255, 0, 255, 1), (0, 0, 0, 0), (7, 7, 0, 1), (1, 1, 255, 1), (1, 1, 1, 255)]
        for (rx, ry, rw, rh) in [(0, 0, W, H), (2, 1, W - 2, H - 1), (W - 1, H - 1, 1, 1), (0, 0, 1, 1), (0, H - 1, W, 1), (W - 1, 0, 1, H)]:
            for (x, y, w, h) in subs:
                out.append({"script": build_script(head, "eof", hs, [], fb1(rx, ry, rw, rh, 4, struct.pack(">I", 1) + px(1) + px(2) + bytes([x, y, w, h]))),
                            "kind": "guard", "expect_false": None, "tag": "guard:corre-sub"})
                out.append({"script": build_script(head, "eof", hs, [], fb1(rx, ry, rw, rh, 2, struct.pack(">I", 1) + px(1) + px(2) + struct.pack(">HHHH", x, y, w, h))),
                            "kind": "guard", "expect_false": None, "tag": "guard:rre-sub"})
            for (x, y, w, h) in [(65535, 0, 1, 1), (0, 65535, 1, 1), (65535, 65535, 65535, 65535), (32768, 32768, 32768, 32768), (W - 1, H - 1, 65535, 1)]:
                out.append({"script": build_script(head, "eof", hs, [], fb1(rx, ry, rw, rh, 2, struct.pack(">I", 1) + px(1) + px(2) + struct.pack(">HHHH", x, y, w, h))),
                            "kind": "guard", "expect_false": None, "tag": "guard:rre-sub"})
        # CoRRE keeps its sub-rectangles in client->buffer: a rectangle with FEWER sub-rectangles than its predecessor
        # leaves the predecessor's entries behind the ones just read (a loop running one entry too far paints them)
        def corre(rx, ry, rw, rh, subsl):
            return struct.pack(">HHHHI", rx, ry, rw, rh, 4) + struct.pack(">I", len(subsl)) + px(1) + b"".join(px(5 + i) + bytes(sr) for i, sr in enumerate(subsl))
        for k in (0, 1, 2):
            first = corre(0, 0, 12, 6, [(1, 1, 2, 2), (4, 1, 3, 2), (8, 3, 2, 2), (0, 4, 5, 1)])
            second = corre(10, 5, 12, 6, [(1, 1, 2, 2), (4, 1, 3, 2), (8, 3, 2, 2)][:k])
            for m in (E.fbu([first, second]), E.fbu([first]) + E.fbu([second])):
                out.append({"script": build_script(head, "eof", hs, [], m), "kind": "guard", "expect_false": None, "tag": "guard:corre-stale"})
        # Hextile: one coloured sub-rectangle per tile, in every corner of the tile and reaching out of it
        for (rx, ry, rw, rh) in [(0, 0, W, H), (W - 17, 0, 17, H), (W - 1, H - 1, 1, 1)]:
            for (x, y, w, h) in [(0, 0, 1, 1), (3, 0, 2, 1), (0, 3, 1, 2), (15, 0, 1, 1), (0, 11, 1, 1), (15, 11, 1, 1), (15, 15, 1, 1), (15, 15, 16, 16),
                                 (8, 0, 16, 1), (0, 8, 1, 16), (0, 0, 16, 16), (15, 0, 16, 1)]:
                tiles = b""
                for ty in range(0, rh, 16):
                    for tx in range(0, rw, 16):
                        tiles += bytes([0x02 | 0x08 | 0x10]) + px(1) + bytes([1]) + px(2) + bytes([(x << 4) | y, ((w - 1) << 4) | (h - 1)])
                out.append({"script": build_script(head, "eof", hs, [], fb1(rx, ry, rw, rh, 5, tiles)), "kind": "guard", "expect_false": None,
                            "tag": "guard:hextile-sub"})
        # UltraZip: the sub-rectangle table is NOT covered by the rectangle guard (CheckRect only)
        def uz(tbl):
            plain = b"".join(struct.pack(">HHHHI", sx, sy, sw, sh, 0) + bytes((i * 7 + 1) & 0x3F for i in range(min(sw * sh, 600) * bp))
                             for (sx, sy, sw, sh) in tbl)
            z = c07.lzo_literal(plain)
            return E.fbu([struct.pack(">HHHHI", len(tbl), len(plain), 0, 0, E.ENC["ultrazip"]) + struct.pack(">I", len(z)) + z]), ["z 5 %s %s" % (hexs(z), hexs(plain))]
        for t in [(0, 0, W, H), (0, H - 1, 8, 1), (0, H, 8, 1), (0, H - 1, 8, 2), (W - 8, H - 1, 8, 1), (W - 7, H - 1, 8, 1), (W, 0, 1, 1), (0, H, 1, 1),
                  (65535, 0, 1, 1), (0, 65535, 1, 1), (65535, 65535, 1, 1), (W - 1, H - 1, 1, 1), (W - 1, H - 1, 2, 1), (W - 1, H - 1, 1, 2),
                  (0, H + 1, W, 1), (0, H - 1, W, 2), (1, H - 1, W, 1), (0, H, W, 1), (0, H + 200, W, 2), (0, 0, 0, 0), (3, 3, 0, 5)]:
            for tbl in ([t], [(1, 1, 3, 2), t, (2, 2, 2, 2)]):
                m, zl = uz(tbl)
                out.append({"script": build_script(head, "eof", hs, [], m + b"\x02", zlines=zl), "kind": "guard", "expect_false": None,
                            "tag": "guard:ultrazip-sub"})
        # UltraZip tables that end early / announce more entries than the data hold, followed by a Bell
        for (cnt, tbl, cutb) in [(2, [(1, 1, 3, 2)], 0), (1, [(1, 1, 3, 2)], 1), (1, [(1, 1, 3, 2)], 3 * 2 * bp), (1, [(1, 1, 3, 2)], 3 * 2 * bp + 1),
                                 (3, [(0, 0, 2, 2), (2, 2, 2, 2)], 0), (0, [(1, 1, 3, 2)], 0), (65535, [(1, 1, 1, 1)], 0)]:
            plain = b"".join(struct.pack(">HHHHI", sx, sy, sw, sh, 0) + bytes((i * 7 + 1) & 0x3F for i in range(sw * sh * bp)) for (sx, sy, sw, sh) in tbl)
            plain = plain[:len(plain) - cutb]
            z = c07.lzo_literal(plain)
            m = E.fbu([struct.pack(">HHHHI", cnt, len(plain), 0, 0, E.ENC["ultrazip"]) + struct.pack(">I", len(z)) + z])
            out.append({"script": build_script(head, "eof", hs, [], m + b"\x02", zlines=["z 5 %s %s" % (hexs(z), hexs(plain))]), "kind": "guard",
                        "expect_false": None, "tag": "guard:ultrazip-table"})
        # payloads the real decompressors reject (oracle entries 104 / 105 / 106 = "rejected"), followed by a Bell:
        # the handler must return FALSE, the Bell must not be delivered
        badz = b"\xff\xff\xff\xff\x00\x01\x02\x03"
        badl = bytes([17 + 9]) + b"abc"                 # literal run of 9 announced, 3 present: input overrun
        for enc, num, zid, bad in (("zlib", 6, 104, badz), ("zrle", 16, 106, badz), ("ultra", 9, 105, badl)):
            m = E.fbu([struct.pack(">HHHHI", 0, 0, 4, 2, num) + struct.pack(">I", len(bad)) + bad])
            out.append({"script": build_script(head, "eof", hs, [], m + b"\x02", zlines=["z %d %s -" % (zid, hexs(bad))]), "kind": "guard",
                        "expect_false": None, "tag": "guard:corrupt-payload:" + enc})
        plain = struct.pack(">HHHHI", 1, 1, 2, 1, 0) + bytes(2 * bp)
        m = E.fbu([struct.pack(">HHHHI", 1, len(plain), 0, 0, E.ENC["ultrazip"]) + struct.pack(">I", len(badl)) + badl])
        out.append({"script": build_script(head, "eof", hs, [], m + b"\x02", zlines=["z 105 %s -" % hexs(badl)]), "kind": "guard",
                    "expect_false": None, "tag": "guard:corrupt-payload:ultrazip"})
        # CoRRE sub-rectangle counts around RFB_BUFFER_SIZE / (4 + bytes per pixel), all data present
        cap = 307200 // (4 + bp)
        for n in (cap - 1, cap, cap + 1, cap + 2, 307200 // (3 + bp), 307200 // (3 + bp) + 1, 307200 // bp, 65536, 76800, 76801, 131072):
            hdr = E.fbu([struct.pack(">HHHHI", 0, 0, W, H, 4) + struct.pack(">I", n) + px(1)])
            out.append({"script": build_script(head, "eof", hs, [], hdr, reps=[(px(2) + bytes([1, 1, 2, 2]), n)]), "kind": "guard",
                        "expect_false": None, "tag": "guard:corre-count-full"})
    return out


def cap_cases():
    """length caps (failure reason, desktop name, cut text) at cap-1 / cap / cap+1 and at the
    neighbours of INT_MAX / UINT_MAX, with data behind the length field; framebuffer sizes through
    the library's own MallocFrameBuffer (fbmode 0)"""
    out = []
    F = E.FMT_BY_NAME
    fmt = F["rgb888le"]
    head = ["client %s enc=raw cursor=0 fbmode=2" % " ".join(str(v) for v in fmt.tuple()), "seg 0"]
    hs = E.handshake(fmt, 8, 4, b"g")
    CAP = 1 << 20
    lens = [CAP - 1, CAP, CAP + 1, 2 * CAP, 0x7FFFFFFE, 0x7FFFFFFF, 0x80000000, 0x80000001, 0xFFFFFFFE, 0xFFFFFFFF]
    for ln in lens:
        data = [(b"R", ln)] if ln <= 2 * CAP else [(b"R", 4096)]
        for eos in ("eof", "flaky"):
            # ServerInit name
            out.append({"script": build_script(head, eos, b"", [], None, pre_init=["feed " + hexs(hs[:18 + 20] + struct.pack(">I", ln))] +
                                               ["feedrep %s %d" % (hexs(u), c) for u, c in data]),
                        "kind": "guard", "expect_false": None if ln <= CAP else True, "tag": "guard:name-cap"})
            # reason after "no security types" (3.8), after a failed SecurityResult (3.8), after scheme 0 (3.3)
            for pre in (b"RFB 003.008\n" + bytes([0]), b"RFB 003.008\n" + bytes([1, 1]) + struct.pack(">I", 1), b"RFB 003.003\n" + struct.pack(">I", 0)):
                out.append({"script": build_script(head, eos, b"", [], None, pre_init=["feed " + hexs(pre + struct.pack(">I", ln))] +
                                                   ["feedrep %s %d" % (hexs(u), c) for u, c in data]),
                            "kind": "guard", "expect_false": True, "tag": "guard:reason-cap"})
            # ServerCutText
            out.append({"script": build_script(head, eos, hs, [], struct.pack(">BxxxI", 3, ln), reps=data), "kind": "guard",
                        "expect_false": None, "tag": "guard:cut-cap"})
    # the library's own MallocFrameBuffer (64-bit size computation): sizes up to 65535 x 65535 x 4
    asan = "detect_leaks=1:abort_on_error=0:allocator_may_return_null=1:max_allocation_size_mb=200"
    for f2 in (F["bgr233"], F["rgb888le"]):
        head0 = ["client %s enc=raw+zrle cursor=0 fbmode=0" % " ".join(str(v) for v in f2.tuple()), "seg 0"]
        for (nw, nh) in [(0, 0), (1, 1), (4096, 2048), (65535, 65535), (46341, 46341), (32768, 32768), (65535, 16385), (16384, 65535), (65535, 1)]:
            if 128 << 20 < nw * nh * f2.bytespp <= 300 << 20:
                continue
            # after the (possibly refused) resize: a ZRLE tile, which is written without CheckRect / NULL test, then Raw
            tile = b"\x01" + f2.cpixel(b"\x15" * f2.bytespp)
            zc = zlib.compressobj(1)
            tz = zc.compress(tile) + zc.flush(zlib.Z_SYNC_FLUSH)
            m = E.fbu([struct.pack(">HHHHI", 0, 0, nw, nh, E.ENC["newfbsize"])]) + \
                (E.fbu([struct.pack(">HHHHI", 0, 0, 1, 1, 16) + struct.pack(">I", len(tz)) + tz]) if nw * nh else b"") + \
                E.fbu([struct.pack(">HHHHI", max(0, nw - 1), max(0, nh - 1), min(nw, 1), min(nh, 1), 0) + b"\x07" * (min(nw, 1) * min(nh, 1) * f2.bytespp)])
            out.append({"script": build_script(head0, "eof", hs, [], m, zlines=["z 6 %s %s" % (hexs(tz), hexs(tile))] if nw * nh else []),
                        "kind": "guard", "expect_false": None, "tag": "guard:malloc-fb", "env": {"ASAN_OPTIONS": asan}})
            h2 = E.handshake(fmt, nw, nh, b"g")
            out.append({"script": build_script(head0, "eof", h2, [], b""), "kind": "guard", "expect_false": None, "tag": "guard:malloc-fb",
                        "env": {"ASAN_OPTIONS": asan}})
    return out


def cross_encoding_cases(rng, lzo):
    """buffers shared between decoders (raw_buffer: Zlib, Ultra, UltraZip, ZRLE, TRLE; ultra_buffer: Ultra, UltraZip):
    every ordered pair (tiny rectangle of encoding A, then a large rectangle of raw / incompressible content of
    encoding B, then A again) in one session -- B must grow what A allocated"""
    out = []
    F = E.FMT_BY_NAME
    encs = ["zlib", "ultra", "zrle", "trle", "ultrazip"]
    for fmt in (F["bgr233"], F["rgb565le"], F["rgb888le"]):
        bp = fmt.bytespp
        W, H = 64, 48
        head = ["client %s enc=%s cursor=0 fbmode=1" % (" ".join(str(v) for v in fmt.tuple()), "+".join(e for e in encs if e != "ultrazip")), "seg 0"]
        hs = E.handshake(F["rgb888le"], W, H, b"X")
        for a in encs:
            for b in encs:
                sess = E.Session(rng, fmt, W, H, lzo=lzo)

                def rect(enc, x, y, w, h, big):
                    sess.z = []
                    if enc == "ultrazip":
                        plain = struct.pack(">HHHHI", x, y, w, h, 0) + bytes((i * 11 + 3) & 0x3F for i in range(w * h * bp))
                        z = c07.lzo_literal(plain)
                        return struct.pack(">HHHHI", 1, len(plain) % 65535, len(plain) // 65535, 0, E.ENC["ultrazip"]) + struct.pack(">I", len(z)) + z, \
                            ["z 5 %s %s" % (hexs(z), hexs(plain))]
                    sess.force_content = "noisefast" if big else "few"
                    sess.force_tile = [("raw",)] * 64 if enc in ("zrle", "trle") and big else None
                    r = sess.enc_rect(enc, x, y, w, h)
                    return r, ["z %d %s %s" % (sid, hexs(z), hexs(pl)) for (sid, z, pl) in sess.z]
                lines = list(head) + ["eos eof", "init " + hexs(hs)]
                for (enc, geo, big) in ((a, (0, 0, 1, 1), False), (b, (0, 0, W, H), True), (a, (3, 2, 2, 1), False), (b, (1, 1, 17, 16), True)):
                    r, zl = rect(enc, *geo, big)
                    lines += zl + ["msg " + hexs(E.fbu([r]))]
                lines += ["stats", "end"]
                out.append({"script": "\n".join(lines) + "\n", "kind": "guard", "expect_false": False, "tag": "guard:cross-encoding:%s-%s" % (a, b)})
    return out


def jpeg_cases(mkjpeg):
    """Tight JPEG rectangles whose embedded image is NOT the size of the rectangle (smaller, equal, +1, 2x+1, 4x+1,
    8x+1, much larger), for rectangles of ordinary and of ZERO width / height, at the origin and touching every
    edge of the framebuffer: whatever the image says, nothing may be written outside the framebuffer (guard bands)"""
    out = []
    F = E.FMT_BY_NAME
    W, H = 64, 64
    imgs = [(8, 8), (15, 15), (16, 16), (17, 17), (16, 17), (17, 16), (32, 32), (33, 33), (16, 33), (33, 16), (65, 65), (128, 128), (129, 129),
            (160, 160), (1, 1), (64, 65)]
    for fmt in (F["rgb888le"], F["rgb565le"], F["rgb888be"]):
        head = ["client %s enc=tight cursor=0 fbmode=2" % " ".join(str(v) for v in fmt.tuple()), "seg 0"]
        hs = E.handshake(F["rgb888le"], W, H, b"J")
        for (rw, rh) in [(16, 16), (0, 0), (0, 16), (16, 0), (1, 1), (64, 64), (17, 3)]:
            poss = {(0, 0), (W - rw, H - rh), (W - rw, 0), (0, H - rh), (W - rw - (1 if rw < W else 0), H - rh)}
            for (x, y) in sorted(poss):
                for (iw, ih) in imgs:
                    if fmt is not F["rgb888le"] and (iw, ih) in ((15, 15), (32, 32), (128, 128), (1, 1), (16, 17), (17, 16)):
                        continue
                    j = mkjpeg(iw, ih)
                    m = E.fbu([struct.pack(">HHHHI", x, y, rw, rh, 7) + bytes([0x90]) + E.compact_len(len(j)) + j]) + b"\x02"
                    out.append({"script": build_script(head, "eof", hs, [], m), "kind": "guard", "expect_false": None,
                                "tag": "guard:jpeg-size:%dx%d" % (rw, rh) if rw * rh else "guard:jpeg-zero-rect"})
    return out


def zero_size_cases():
    """rectangles of zero width / zero height / 0x0 for EVERY encoding, at the origin, at the far corner (x = W, y = H)
    and on the last row / column, each with a plausible payload and followed by a Bell"""
    out = []
    F = E.FMT_BY_NAME
    W, H = 20, 10
    for fmt in (F["bgr233"], F["rgb565le"], F["rgb888le"]):
        bp = fmt.bytespp
        head = ["client %s enc=raw+copyrect+rre+corre+hextile+zlib+tight+ultra+trle+zrle cursor=1 fbmode=2" % " ".join(str(v) for v in fmt.tuple()), "seg 0"]
        hs = E.handshake(F["rgb888le"], W, H, b"Z")
        px = bytes([0x15]) * bp
        zempty = zlib.compress(b"")
        zc = zlib.compressobj(1)
        zsync = zc.compress(b"") + zc.flush(zlib.Z_SYNC_FLUSH)
        lz = c07.lzo_literal(b"")
        tp = fmt.tpixel(px) if hasattr(fmt, "tpixel") else px
        payloads = {
            0: [b""], 1: [struct.pack(">HH", 0, 0), struct.pack(">HH", W - 1, H - 1)],
            2: [struct.pack(">I", 0) + px, struct.pack(">I", 1) + px + px + struct.pack(">HHHH", 0, 0, 1, 1)],
            4: [struct.pack(">I", 0) + px, struct.pack(">I", 1) + px + px + bytes([0, 0, 1, 1])],
            5: [b"", bytes([0x02]) + px],
            6: [struct.pack(">I", 0), struct.pack(">I", len(zsync)) + zsync, struct.pack(">I", len(zempty)) + zempty],
            7: [bytes([0x80]) + tp, bytes([0x00]), bytes([0x40, 0x01, 0x01]) + tp + tp, bytes([0x40, 0x02]), bytes([0x00]) + b"\x00" * 4],
            9: [struct.pack(">I", 0), struct.pack(">I", len(lz)) + lz],
            15: [b"", bytes([1]) + fmt.cpixel(px)],
            16: [struct.pack(">I", 0), struct.pack(">I", len(zsync)) + zsync, struct.pack(">I", len(zempty)) + zempty],
            E.ENC["richcursor"]: [b""], E.ENC["xcursor"]: [b""],
        }
        for (w, h) in [(0, 0), (0, 3), (3, 0), (0, H), (W, 0)]:
            for (x, y) in [(0, 0), (W, H), (W - w, H - h), (W, 0), (0, H), (W - 1, H - 1)]:
                for enc, pls in payloads.items():
                    for pl in pls:
                        zl = []
                        if enc in (6, 16) and len(pl) > 4:
                            # a sync-flushed empty block inflates to nothing; a FINISHED stream (Z_STREAM_END) is refused
                            zl = ["z %d %s -" % ((4 if enc == 6 else 6) + (100 if pl[4:] == zempty else 0), hexs(pl[4:]))]
                        if enc == 9 and len(pl) > 4:
                            zl = ["z 5 %s -" % hexs(pl[4:])]
                        m = E.fbu([struct.pack(">HHHHI", x, y, w, h, enc) + pl]) + b"\x02"
                        out.append({"script": build_script(head, "eof", hs, [], m, zlines=zl), "kind": "guard", "expect_false": None,
                                    "tag": "guard:zero-size:%d" % (enc if enc < 100 else 99)})
    return out


def handshake_cases():
    """hostile 3.7/3.8 handshakes: security-type lists of EVERY count 0..255 without a single usable
    type (the library must log and return FALSE), failure reasons of many lengths"""
    out = []
    F = E.FMT_BY_NAME
    fmt = F["rgb888le"]
    head = ["client %s enc=raw cursor=0 fbmode=2" % " ".join(str(v) for v in fmt.tuple()), "seg 0"]
    # never usable: not None(1)/VncAuth(2)/Tight(16)/Ultra(17)/TLS(18)/VeNCrypt(19)/SASL(20); ARD(30) and
    # MSLogonII(113) need a credential callback the harness does not install
    pools = [[t for t in range(100, 256) if t != 113], [t for t in range(21, 100) if t != 30], [3, 4, 5, 6, 7, 8, 9],
             [t for t in range(3, 256) if t not in (16, 17, 18, 19, 20, 30, 113)]]
    tail = struct.pack(">I", 0) + struct.pack(">HH", 4, 4) + F["rgb888le"].wire() + struct.pack(">I", 1) + b"x"
    for ver in (b"RFB 003.008\n", b"RFB 003.007\n"):
        for c in range(256):
            pool = pools[c % 4]
            types = [pool[(i * 7 + c) % len(pool)] for i in range(c)]
            reason = struct.pack(">I", 11) + b"no security" if c == 0 else (tail if c % 3 == 0 else b"")
            out.append({"script": build_script(head, "eof" if c % 2 else "eagain", ver + bytes([c]) + bytes(types) + reason, [], b""),
                        "kind": "guard", "expect_false": True, "tag": "guard:sectypes-none-usable"})
        # three-digit types only, long lists: the longest log lines
        for c in (99, 100, 101, 102, 124, 125, 126, 127, 167, 168, 169, 200, 254, 255):
            for t0 in (255, 200, 100):
                out.append({"script": build_script(head, "eof", ver + bytes([c]) + bytes([t0] * c), [], b""),
                            "kind": "guard", "expect_false": True, "tag": "guard:sectypes-long-log"})
        for ln in (0, 1, 100, 255, 256, 499, 500, 501, 4095, 4096, 65536, 1 << 20):
            r = struct.pack(">I", ln) + b"R" * ln
            out.append({"script": build_script(head, "eof", ver + bytes([0]) + r, [], b""), "kind": "guard", "expect_false": True,
                        "tag": "guard:reason-text"})
            if ver == b"RFB 003.008\n":
                for res in (1, 2, 3, 0xFFFFFFFF):
                    out.append({"script": build_script(head, "eof", ver + bytes([1, 1]) + struct.pack(">I", res) + r, [], b""),
                                "kind": "guard", "expect_false": True, "tag": "guard:reason-text"})
    # every version the library treats specially (3.3 style below 3.7, UltraVNC 3.4/3.6/3.14/3.16, TightVNC 3.5,
    # capped at 3.8), with scheme None, a failure reason, and -- for the 3.3-style ones -- a complete session start
    si = struct.pack(">HH", 6, 3) + F["rgb888le"].wire() + struct.pack(">I", 2) + b"vv"
    for minor in (0, 1, 3, 4, 5, 6, 7, 8, 9, 13, 14, 15, 16, 17, 24, 26, 889, 999):
        for major in (3, 4):
            ver = b"RFB %03d.%03d\n" % (major, minor)
            for body in (struct.pack(">I", 1) + si, struct.pack(">I", 0) + struct.pack(">I", 3) + b"why", bytes([1, 1]) + struct.pack(">I", 0) + si,
                         bytes([1, 1]) + si):
                out.append({"script": build_script(head, "eof", ver + body, [], E.fbu([struct.pack(">HHHHI", 0, 0, 1, 1, 0) + b"\x01\x02\x03\x00"])),
                            "kind": "guard", "expect_false": None, "tag": "guard:version"})
    for ln in (0, 1, 500, 501, 1 << 20):
        out.append({"script": build_script(head, "eof", b"RFB 003.003\n" + struct.pack(">I", 0) + struct.pack(">I", ln) + b"R" * ln, [], b""),
                    "kind": "guard", "expect_false": True, "tag": "guard:reason-text"})
    return out


def lzo_sequence_cases():
    """state carried across rectangles: ultra_buffer / raw_buffer are grown on demand and their
    recorded sizes are compared with the next rectangle's lengths.  Pairs of valid Ultra / UltraZip
    (and Zlib) rectangles whose compressed / raw lengths lie in close succession (C-1 .. C+4)."""
    out = []
    F = E.FMT_BY_NAME
    for fmt in (F["bgr233"], F["rgb888le"]):
        bp = fmt.bytespp
        W, H = 252, 3
        head = ["client %s enc=ultra+zlib cursor=0 fbmode=1" % " ".join(str(v) for v in fmt.tuple()), "seg 0"]
        hs = E.handshake(F["rgb888le"], W, H, b"u")

        def pixels(n, salt):
            return bytes((i * 5 + salt) & (0xFF if bp == 1 else 0x7F) for i in range(n * bp))

        def u_rect(n, salt):            # Ultra: n x 1 pixels, literal-only LZO1X
            plain = pixels(n, salt)
            z = c07.lzo_literal(plain)
            return struct.pack(">HHHHI", 0, 1, n, 1, 9) + struct.pack(">I", len(z)) + z, ["z 5 %s %s" % (hexs(z), hexs(plain))], len(z)

        def uz_rect(n, salt):           # UltraZip: one cached raw sub-rectangle of n x 1 pixels
            plain = struct.pack(">HHHHI", 0, 2, n, 1, 0) + pixels(n, salt)
            z = c07.lzo_literal(plain)
            return struct.pack(">HHHHI", 1, len(plain), 0, 0, E.ENC["ultrazip"]) + struct.pack(">I", len(z)) + z, ["z 5 %s %s" % (hexs(z), hexs(plain))], len(z)

        def zl_rect(n, salt, co):
            plain = pixels(n, salt)
            z = co.compress(plain) + co.flush(zlib.Z_SYNC_FLUSH)
            return struct.pack(">HHHHI", 0, 0, n, 1, 6) + struct.pack(">I", len(z)) + z, ["z 4 %s %s" % (hexs(z), hexs(plain))], len(z)
        mk = {"u": u_rect, "uz": uz_rect}
        ns = [n for n in (17, 18, 19, 20, 29, 45, 46, 47, 48) if n * bp + 12 <= 238]
        for n1 in ns:
            for k1, k2 in (("uz", "u"), ("uz", "uz"), ("u", "uz"), ("u", "u")):
                r1, z1, c1 = mk[k1](n1, 1)
                for n2 in range(max(1, n1 - 14), n1 + 16):
                    r2, z2, c2 = mk[k2](n2, 2)
                    if not (-1 <= c2 - c1 <= 4):
                        continue
                    r3, z3, _ = u_rect(n1, 3)
                    for split in (True, False):
                        m = (E.fbu([r1]) + E.fbu([r2]) + E.fbu([r3])) if split else E.fbu([r1, r2, r3])
                        out.append({"script": build_script(head, "eof", hs, [], m, zlines=z1 + z2 + z3), "kind": "guard",
                                    "expect_false": False, "tag": "guard:lzo-sequence:%s-%s" % (k1, k2)})
        # raw_buffer: Zlib allocates exactly, Ultra rounds up to 4 (and allocates the rounded size), UltraZip adds 500
        for n1 in (13, 14, 15, 16, 41, 42, 43):
            for d in (-1, 0, 1, 2, 3, 4):
                for order in ("zu", "uz", "zz", "Zu"):
                    co = zlib.compressobj(1)
                    if order[0] == "z":
                        r1, z1, _ = zl_rect(n1, 1, co)
                    elif order[0] == "Z":
                        r1, z1, _ = uz_rect(n1, 1)
                    else:
                        r1, z1, _ = u_rect(n1, 1)
                    r2, z2, _ = zl_rect(n1 + d, 2, co) if order[1] == "z" else u_rect(n1 + d, 2)
                    out.append({"script": build_script(head, "eof", hs, [], E.fbu([r1]) + E.fbu([r2]), zlines=z1 + z2), "kind": "guard",
                                "expect_false": False, "tag": "guard:rawbuf-sequence"})
    return out


# --------------------------------------------------------------------------------------------
# running and judging
# --------------------------------------------------------------------------------------------
def wild_equal(a, b):
    """impl line a vs model line b; `?` in the model = no prediction"""
    if a == b:
        return True
    ta, tb = a.split(), b.split()
    if "?" in tb[:3]:
        return True
    if len(tb) > 1 and tb[-1] == "spec=DIFF":
        tb = tb[:-1]
    ta = [t for t in ta if t not in ("CANARY-DAMAGED", "SCRATCH-OVERFLOW")]
    if len(ta) != len(tb):
        return False
    for x, y in zip(ta, tb):
        if x == y:
            continue
        if y.startswith("fb=") and y.endswith(":?") and x.startswith(y[:-1]):
            continue
        return False
    return True


def judge(ctx, case, h, d):
    rc, impl, err = ctx.run_lines(h, case["script"], timeout=90, env=case.get("env"))
    if rc == 3 and c07.realtime_hang(impl):
        # the hang detection proper is virtual (polls of the exhausted stream are counted); the real-time
        # backstop only counts when it fires again in a run of its own with ten times the limit
        with build.Lock("confirm-hang"):
            rc, impl, err = ctx.run_lines(h, case["script"], timeout=900, env=dict(case.get("env") or {}, VH_ALARM="600"))
    fails = []
    ops = case["script"].splitlines()
    if rc != 0:
        m = SAN_RE.search(err)
        what = ("HANG: the library call keeps polling the exhausted stream" if impl and impl[-1].strip() == "HANG virtual" else
                "HANG (watchdog)") if rc == 3 else (m.group(1)[:200] if m else "harness exit %d" % rc)
        fails.append({"kind": "crash", "what": "C08: " + what, "detail": err[-2500:], "script": ops[:60], "impl": impl[-4:],
                      "finding": classify(err, ops) if rc != 3 else None, "tag": case["tag"]})
        return impl, fails, None
    if any("CANARY-DAMAGED" in l for l in impl):
        fails.append({"kind": "oracle", "what": "C08: write outside the framebuffer (canary band damaged)", "script": ops[:60],
                      "impl": impl[-4:], "tag": case["tag"]})
    if any("SCRATCH-OVERFLOW" in l for l in impl):
        fails.append({"kind": "oracle", "what": "C08: write past client->buffer[RFB_BUFFER_SIZE] (the field behind it, client->sock, was overwritten)",
                      "script": ops[:60], "impl": [l[:300] for l in impl[-4:]], "tag": case["tag"]})
    last = [l for l in impl if l.startswith(("init ", "msg ", "calls="))]
    final_false = bool(last) and (" F" in last[-1][:40])
    if case["expect_false"] is True and not final_false:
        fails.append({"kind": "oracle", "what": "C08: truncated stream but the library did not return FALSE", "script": ops[:60],
                      "impl": impl[-4:], "tag": case["tag"]})
    if case["expect_false"] is False and final_false:
        fails.append({"kind": "oracle", "what": "C08: valid stream rejected under read segmentation", "script": ops[:60],
                      "impl": impl[-4:], "tag": case["tag"]})
    st = [l for l in impl if l.startswith("reads=")]
    pred = None
    if ctx.driver_ok:
        rc2, model, err2 = ctx.run_lines(d, case["script"].replace("\nstats\n", "\n"), timeout=90)
        impl2 = [l for l in impl if not l.startswith("reads=")]
        if rc2 != 0:
            fails.append({"kind": "exact", "what": "client model driver exit %d" % rc2, "detail": err2[-1500:], "script": ops[:60]})
        else:
            pred = not any(" ? " in (l + " ") or l.split()[1:2] == ["?"] for l in model if l)
            for i, (a, b) in enumerate(zip(impl2, model)):
                if not wild_equal(a, b):
                    fails.append({"kind": "exact", "what": "client.guards (model vs library)", "line": i, "script": ops[:60],
                                  "impl": [a[:400]], "model": [b[:400]], "tag": case["tag"]})
                    break
                if " ? " in b + " ":
                    break
            else:
                if len(impl2) != len(model):
                    fails.append({"kind": "exact", "what": "client.guards: observation count", "script": ops[:60],
                                  "impl": impl2[-2:], "model": model[-2:]})
    return impl, fails, pred


def run(ctx):
    h = c07.build_harness(ctx)
    d = ctx.driver("drv_c07")
    lzo = c07.Lzo(h)
    cases = []
    if ctx.replay:
        rec = json.load(open(ctx.replay))
        cases = [{"script": "\n".join((rec.get("script") or (rec.get("first_disagreement") or {}).get("script") or [])) + "\n", "kind": "replay", "expect_false": None, "tag": "replay"}]
    else:
        cdir = os.path.join(common.VERIF, "corpus", "C08")
        for f in sorted(os.listdir(cdir)) if os.path.isdir(cdir) else []:
            if f.endswith(".json"):
                rec = json.load(open(os.path.join(cdir, f)))
                cases.append({"script": "\n".join(rec["script"]) + "\n", "kind": "corpus", "expect_false": None,
                              "tag": "corpus:" + f, "finding": rec.get("finding")})
        jcache = {}

        def mkjpeg(w, hh):
            if (w, hh) not in jcache:
                rc, o, err = ctx.run_lines(h, "jpegrgb %d %d 90 %s\n" % (w, hh, c07.jpeg_image(w, hh).hex()), env={"ASAN_OPTIONS": "detect_leaks=0"})
                jcache[(w, hh)] = bytes.fromhex(o[0])
            return jcache[(w, hh)]
        cases += structured_cases(ctx.rng, lzo, mkjpeg)
        cases += gen_cases(ctx.rng, lzo, ctx.tier)
    lzo.close()
    res = common.pmap(lambda c: judge(ctx, c, h, d), cases)
    fails, dist, samples = [], {"kind": {}, "tag": {}, "result": {}, "predicted": 0}, []
    seen = set()
    for c, (impl, fs, pred) in zip(cases, res):
        for f in fs:
            if c.get("finding") and f["kind"] == "crash" and not f.get("finding"):
                f["finding"] = c["finding"]
            fails.append(f)
        dist["kind"][c["kind"]] = dist["kind"].get(c["kind"], 0) + 1
        dist["tag"][c["tag"].split(":json")[0]] = dist["tag"].get(c["tag"], 0) + 1
        last = [l for l in impl if l.startswith(("init ", "msg ", "calls="))]
        r = "none" if not last else ("F" if " F" in last[-1][:40] else "T")
        dist["result"][r] = dist["result"].get(r, 0) + 1
        if pred:
            dist["predicted"] += 1
        if c["kind"] != "seg":
            seen.add(c["script"])
        if len(samples) < 4 and c["kind"] in ("mut-msg", "guard"):
            samples.append({"script": [l[:200] for l in c["script"].splitlines()[:10]], "impl": [l[:200] for l in impl[:10]]})
    # one representative per finding id; untagged failures all kept (first 8)
    kept, seenf = [], set()
    for f in fails:
        fid = f.get("finding")
        if fid:
            if fid in seenf:
                continue
            seenf.add(fid)
        kept.append(f)
    # concrete failing inputs first: a weakened guard also makes every exact comparison of that guard
    # disagree, and those must not crowd the sanitizer / canary witnesses out of the report
    kept.sort(key=lambda f: 0 if f["kind"] in ("oracle", "crash") else 1)
    return {
        "evaluations": len(cases), "distinct_nontrivial": len(seen),
        "rule": "hostile sessions: corpus witnesses, boundary cases of every modelled guard, truncations, grammar-aware mutations, handshake mutations, 1-cut segmentations; non-trivial = distinct script other than a pure segmentation variant",
        "samples": samples, "distribution": dist, "failures": kept[:12],
        "partial": ["memory safety of code outside the modelled guards (zlib/LZO/libjpeg internals, TLS, SASL, auth handlers) is sampled by the sanitizer run, not proven"],
        "assumptions": ["ASan/UBSan (alignment excluded: the decoders read unaligned pixels by design) detect the accesses in question",
                        "TLS/VeNCrypt/SASL security types are not exercised (their I/O bypasses read()/write())"],
    }


META = {
    "technique": "Lean 4 theorems on the guards/index arithmetic of the client decoders + sanitizer-instrumented hostile-stream run of the real library compared with the client model",
    "level_text": "Proof of the modelled guards; tie by differential run under ASan/UBSan with canary bands and watchdog.",
    "level_note": "Trusted: Lean kernel, sanitizers, harness/generator (testing).",
    "design_ref": "DESIGN.md section 7, C08",
}
