"""C15 — cursor handling never damages the framebuffer and shows the right cursor.

Proof: lean/VncModel/Props/C15.lean about the model lean/VncModel/Cursor/{Basic,Model,Session}.lean
(show/hide with the exact clipping arithmetic, save/paint/restore loops with checked indices, the
bracket in rfbSendFramebufferUpdate incl. the failure path, cursor pseudo-rectangles, pointer
events).
Tie: correspondence run harness/c15.c (real screen, real clients over socketpairs, soft-cursor
client with Raw encoding observed through rfbVerifPreEncodeHook / displayHook /
displayFinishedHook, XCursor / RichCursor + PointerPos clients, write-failure injection) vs
Driver/C15.lean, exact comparison of every observation line, plus two direct oracles that never
look at the model: the reference composition inside the harness (`oracle c<i> ...` lines) and
`py_oracle` below (cursor pseudo-rectangles vs the script's cursor, PointerPos after another
client's pointer event, framebuffer restored).
T0: tools/consts/c15.c (UPDATE_BUF_SIZE, header sizes, encoding numbers) -> VncModel/Gen/C15.lean.
"""
import json, os, re, glob
from .. import common

PROPS_MOD = "VncModel.Props.C15"
EXTRA_TARGETS = ["drv_c15"]

SIZES = [(1, 1), (7, 3), (8, 8), (9, 9), (16, 16), (33, 17), (64, 64)]
FINDING_CLIP = "cursor-clip-last-col-row"
FINDING_COLOUR = "xcursor-colour-unscaled"
FINDING_SETENC = "setenc-soft-cursor-not-shown"
FINDING_NULLCUR = "copyregion-null-cursor"


def enc_info(tok):
    """encodings token of a client / setenc op -> (kind the client behaves as, gets PointerPos, CopyRect)"""
    names = {"raw": ["raw"], "x": ["raw", "x", "pos"], "rich": ["raw", "rich", "pos"]}.get(tok)
    if names is None:
        names = tok[4:].split(",")
    kind = "rich" if "rich" in names else "x" if "x" in names else "raw"
    return kind, ("pos" in names and kind != "raw"), ("copyrect" in names)


def gen_encs(rng):
    """a SetEncodings list in random order: Raw, maybe CopyRect, any subset of the cursor pseudo-encodings"""
    r = rng.random()
    if r < 0.55:
        return rng.choice(["raw", "x", "rich"])
    names = ["raw"] + [n for n in ("copyrect", "x", "rich", "pos") if rng.random() < 0.5]
    rng.shuffle(names)
    return "enc:" + ",".join(names)
# client pixel formats the scripts can name: bytes/pixel, (redMax, greenMax, blueMax), (shifts)
FMTS = {"f8": (1, (7, 7, 3), (0, 3, 6)), "f8b": (1, (7, 7, 3), (5, 2, 0)),
        "f16": (2, (31, 31, 31), (0, 5, 10)), "f16b": (2, (31, 63, 31), (11, 5, 0)),
        "f32": (4, (255, 255, 255), (0, 8, 16)), "f32b": (4, (255, 255, 255), (16, 8, 0)),
        "f24": (3, (255, 255, 255), (0, 8, 16))}
SERVER_FMT = {1: "f8", 2: "f16", 3: "f24", 4: "f32"}


def translate_px(p, sname, cname):
    """the RFB translation rule for one pixel, re-implemented here for the oracle"""
    _, smax, ssh = FMTS[sname]
    _, cmax, csh = FMTS[cname]
    out = 0
    for k in range(3):
        c = (p >> ssh[k]) & smax[k]
        out |= ((c * cmax[k] + smax[k] // 2) // smax[k]) << csh[k]
    return out


def hx(b):
    return bytes(b).hex() if len(b) else "-"


def rb(w):
    return (w + 7) // 8


def rand_bits(rng, w, h, mode, padnoise):
    """bitmap rows (MSB first); padding bits are noise when padnoise"""
    out = bytearray()
    for _ in range(h):
        row = 0
        for x in range(rb(w) * 8):
            inside = x < w
            if inside:
                bit = {"empty": 0, "full": 1, "random": rng.randint(0, 1),
                       "sparse": 1 if rng.random() < 0.12 else 0,
                       "dense": 0 if rng.random() < 0.12 else 1}[mode]
            else:
                bit = rng.randint(0, 1) if padnoise else 0
            row = (row << 1) | bit
        out += row.to_bytes(rb(w), "big")
    return bytes(out)


def clear_padding(bits, w, h):
    out = bytearray(bits)
    r = rb(w)
    for y in range(h):
        for c in range(r):
            valid = min(8, max(0, w - c * 8))
            out[y * r + c] &= (0xff << (8 - valid)) & 0xff
    return bytes(out)


def gen_colour(rng):
    r = rng.random()
    if r < 0.35:
        return rng.choice([(0xffff, 0xffff, 0xffff), (0, 0, 0)])
    if r < 0.6:
        return tuple(rng.choice([0, 0xffff]) for _ in range(3))
    return tuple(rng.choice([0, 0xffff, 0x8000, 0x7fff, 0x0100, 0x00ff, rng.randint(0, 0xffff)]) for _ in range(3))


def gen_cursor(rng, bpp):
    """-> (op line, spec dict for the python oracle)"""
    if rng.random() < 0.04:
        return "cursor none", {"kind": "none"}
    w, h = rng.choice(SIZES) if rng.random() < 0.75 else (rng.randint(1, 20), rng.randint(1, 20))
    hot = rng.random()
    if hot < 0.5:
        xh, yh = rng.choice([(0, 0), (w - 1, 0), (0, h - 1), (w - 1, h - 1), (w // 2, h // 2)])
    elif hot < 0.9:
        xh, yh = rng.randint(0, w - 1), rng.randint(0, h - 1)
    else:                                   # hot-spot outside the bitmap is legal for the arithmetic
        xh, yh = rng.randint(0, w + 3), rng.randint(0, h + 3)
    mode = rng.choice(["empty", "full", "random", "random", "sparse", "dense"])
    kind = rng.choice(["x", "x", "xs", "xm", "rich", "rich", "alpha"])
    spec = {"kind": kind, "w": w, "h": h, "xh": xh, "yh": yh}
    if kind in ("x", "xs", "xm"):
        src = rand_bits(rng, w, h, rng.choice(["random", "full", "empty", "sparse"]), kind == "x")
        mask = rand_bits(rng, w, h, mode, kind == "x")
        if kind == "x":
            fg, bg = gen_colour(rng), gen_colour(rng)
            spec.update(src=src, mask=mask, fg=fg, bg=bg)
            return "cursor x %d %d %d %d %s %s %d %d %d %d %d %d" % ((w, h, xh, yh, hx(src), hx(mask)) + fg + bg), spec
        spec.update(src=clear_padding(src, w, h), fg=(0xffff,) * 3, bg=(0, 0, 0))
        if kind == "xs":
            spec.update(mask=clear_padding(mask, w, h))
            return "cursor xs %d %d %d %d %s %s" % (w, h, xh, yh, hx(src), hx(mask)), spec
        return "cursor xm %d %d %d %d %s" % (w, h, xh, yh, hx(src)), spec
    pix = bytes(rng.randrange(256) for _ in range(w * h * bpp))
    spec.update(pix=pix)
    if kind == "rich":
        mask = rand_bits(rng, w, h, mode, True)
        fg, bg = gen_colour(rng), gen_colour(rng)
        if rng.random() < 0.3:
            fg = bg = (0, 0, 0)            # "interpolate to black+white" branch of MakeXCursorFromRichCursor
        spec.update(mask=mask, fg=fg, bg=bg)
        return "cursor rich %d %d %d %d %s %s %d %d %d %d %d %d" % ((w, h, xh, yh, hx(pix), hx(mask)) + fg + bg), spec
    amode = rng.choice(["random", "binary", "zero", "full"])
    alpha = bytes({"random": lambda: rng.randrange(256), "binary": lambda: rng.choice([0, 255]),
                   "zero": lambda: 0, "full": lambda: 255}[amode]() for _ in range(w * h))
    pm = rng.randint(0, 1)
    spec.update(alpha=alpha, premult=pm)
    return "cursor alpha %d %d %d %d %s %s %d" % (w, h, xh, yh, hx(pix), hx(alpha), pm), spec


def positions(rng, W, cw, xh):
    """pointer coordinates for one axis: all four edge situations +-2, off-screen, extremes"""
    c = [0, 1, 2, W - 3, W - 2, W - 1, W, W + 1, W + 2, 65535, 65534, 32768]
    c += [xh + d for d in (-2, -1, 0, 1, 2)]                    # cursor's first column at screen column d
    c += [W - cw + xh + d for d in (-2, -1, 0, 1, 2)]           # cursor's last column at the last screen column + d
    c += [W + xh + d for d in (-1, 0, 1)]                       # just off-screen to the right
    c += [xh - cw + d for d in (-1, 0, 1, 2)]                   # just off-screen to the left
    c += [rng.randint(0, W + cw) for _ in range(6)]
    return [v for v in c if 0 <= v <= 65535]


def gen_script(rng, big=False, midfail=False, scaled=False):
    bpp = rng.choice([1, 2, 4, 1, 2, 4, 3])
    if big:
        W, H, bpp = rng.choice([(100, 90), (128, 70), (96, 96)]) + (4,)
    elif rng.random() < 0.08 and not scaled:
        W, H = rng.choice([(1, 1), (2, 3), (3, 1), (1, 5), (8, 2)])
    else:
        W, H = rng.randint(6, 40), rng.randint(5, 30)
    lines = ["screen %d %d %d" % (W, H, bpp)]
    if rng.random() < 0.15:                # keep the library's built-in default cursor (8x7, hot-spot 3,3)
        spec = {"kind": "x", "w": 8, "h": 7, "xh": 3, "yh": 3}
    else:
        cl, spec = gen_cursor(rng, bpp)
        lines.append(cl)
    kinds = [rng.choice(["raw", "raw", "enc:raw,copyrect", "enc:copyrect,raw"])]
    if rng.random() < 0.7:
        kinds.append(gen_encs(rng))
    if rng.random() < 0.3:
        kinds.append(gen_encs(rng))
    rng.shuffle(kinds)
    for i, k in enumerate(kinds):
        if rng.random() < 0.4:
            # a 24-bit CLIENT format is only used on the 24-bit server (identity): table set-up for
            # 24-bit output (tableinit24.c) does misaligned 32-bit stores - C10's territory
            lines.append("client %d %s %s" % (i, k, rng.choice([f for f in sorted(FMTS) if f != "f24" or bpp == 3])))
        else:
            lines.append("client %d %s" % (i, k))
    # picture size of each client; with `scaled` some clients (never client 0) ask for 1/2 or 1/3
    dims = [(W, H)] * len(kinds)
    if scaled:
        if len(kinds) == 1:
            kinds.append(gen_encs(rng)); lines.append("client 1 %s" % kinds[1]); dims.append((W, H))
        for i in range(1, len(kinds)):
            if i == 1 or rng.random() < 0.5:
                f = rng.choice([2, 3])
                lines.append("scale %d %d" % (i, f))
                dims[i] = (W // f, H // f)
    unscaled = [i for i in range(len(kinds)) if dims[i] == (W, H)]
    nrounds = rng.choice([2, 4, 7, 10]) if not big else 3
    for r in range(nrounds):
        if rng.random() < 0.25:
            cl, spec = gen_cursor(rng, bpp)
            lines.append(cl)
        for _ in range(rng.choice([0, 0, 1, 2])):
            w, h = rng.randint(1, W), rng.randint(1, H)
            x, y = rng.randint(0, W - w), rng.randint(0, H - h)
            if rng.random() < 0.3:      # touching the last column / row
                x, y = W - w, H - h
            lines.append("draw %d %d %d %d %d" % (x, y, w, h, rng.randint(1, 1000)))
        cw, ch, xh, yh = (spec.get("w", 1), spec.get("h", 1), spec.get("xh", 0), spec.get("yh", 0))
        for _ in range(rng.choice([0, 1, 1, 2, 3])):
            px = rng.choice(positions(rng, W, cw, xh))
            py = rng.choice(positions(rng, H, ch, yh))
            b = 0 if rng.random() < 0.85 else rng.choice([1, 4])
            lines.append("ptr %d %d %d %d" % (rng.choice(unscaled), px, py, b))
        if rng.random() < 0.12:              # a client changes its cursor capability mid-session
            lines.append("setenc %d %s" % (rng.randrange(len(kinds)), gen_encs(rng)))
        # (not with scaled clients: a CopyRect for a scaled client can name a source outside its
        #  framebuffer, e.g. srcY = 65535 - scaling x CopyRect is C17/C02 territory, reported there)
        if rng.random() < 0.25 and W >= 4 and H >= 4 and not scaled:      # the application scrolls part of the screen
            for _ in range(rng.choice([1, 1, 2])):
                dx, dy = rng.choice([(0, -1), (0, 1), (-1, 0), (1, 0), (-1, -1), (1, -1), (0, -1), (0, 1)])
                dx *= rng.randint(1, max(1, W // 3)); dy *= rng.randint(1, max(1, H // 3))
                # destination rectangle so that destination and source lie on the screen
                xlo, xhi = max(0, dx), W + min(0, dx)
                ylo, yhi = max(0, dy), H + min(0, dy)
                if xhi - xlo < 1 or yhi - ylo < 1:
                    continue
                x1 = rng.randint(xlo, xhi - 1); x2 = rng.randint(x1 + 1, xhi)
                y1 = rng.randint(ylo, yhi - 1); y2 = rng.randint(y1 + 1, yhi)
                if rng.random() < 0.5:
                    x1, x2, y1, y2 = xlo, xhi, ylo, yhi
                lines.append("copy %d %d %d %d %d %d" % (x1, y1, x2, y2, dx, dy))
        for i in range(len(kinds)):
            q = rng.random()
            cw_, ch_ = dims[i]
            if q < 0.62 or big:
                lines.append("req %d 1 0 0 %d %d" % (i, cw_, ch_))
            elif q < 0.72 or (scaled and q < 0.8):
                lines.append("req %d 0 0 0 %d %d" % (i, cw_, ch_))
            elif q < 0.88:
                w, h = rng.randint(1, cw_), rng.randint(1, ch_)
                lines.append("req %d %d %d %d %d %d" % (i, rng.randint(0, 1), rng.randint(0, cw_ - w), rng.randint(0, ch_ - h), w, h))
        if midfail and r == nrounds - 1:
            lines.append("draw 0 0 %d %d %d" % (W, H, rng.randint(1, 99)))
            lines.append("failnext %d %d" % (rng.randrange(len(kinds)), rng.choice([1, 1, 2])))
        elif rng.random() < 0.07:
            lines.append("failnext %d 0" % rng.randrange(len(kinds)))
        lines.append("pump")
    return "\n".join(lines) + "\n"


PUMP_RE = re.compile(r"^c(\d+) n=1 res=(\d) before=(\w+) painted=(\w+) after=(\w+) cur=(\d+),(\d+) ucl=(\d+)"
                     r"(?: shape=(\S+) pos=(\S+) cov=(\w+) pic=(\w+)(?: ccov=\w+)?( PARSE-ERROR)?| closed)$")


def parse_cursor_op(t, bpp):
    if t[1] == "none":
        return {"kind": "none"}
    s = {"kind": t[1], "w": int(t[2]), "h": int(t[3]), "xh": int(t[4]), "yh": int(t[5])}
    b = lambda x: b"" if x == "-" else bytes.fromhex(x)
    if t[1] == "x":
        s.update(src=b(t[6]), mask=b(t[7]), fg=tuple(map(int, t[8:11])), bg=tuple(map(int, t[11:14])))
    elif t[1] == "xs":
        s.update(src=clear_padding(b(t[6]), s["w"], s["h"]), mask=clear_padding(b(t[7]), s["w"], s["h"]),
                 fg=(0xffff,) * 3, bg=(0, 0, 0))
    elif t[1] == "xm":
        s.update(src=clear_padding(b(t[6]), s["w"], s["h"]), fg=(0xffff,) * 3, bg=(0, 0, 0))
    elif t[1] == "rich":
        s.update(pix=b(t[6]), mask=b(t[7]), fg=tuple(map(int, t[8:11])), bg=tuple(map(int, t[11:14])))
    elif t[1] == "alpha":
        s.update(pix=b(t[6]), alpha=b(t[7]), fg=(0, 0, 0), bg=(0, 0, 0))
    return s


_DEFCUR = {}


def update_buf_size():
    """UPDATE_BUF_SIZE as regenerated by T0 for this run"""
    if "ubs" not in _DEFCUR:
        txt = open(os.path.join(common.LEAN, "VncModel", "Gen", "C15.lean")).read()
        _DEFCUR["ubs"] = int(re.search(r"def UPDATE_BUF_SIZE : Nat := (\d+)", txt).group(1))
    return _DEFCUR["ubs"]


def default_cursor_spec():
    """the library's built-in cursor, read from main.c by the T0 extractor's parser"""
    if "c" not in _DEFCUR:
        import importlib.util
        from .. import build
        spec = importlib.util.spec_from_file_location("consts_c15", os.path.join(common.VERIF, "tools", "consts", "c15.py"))
        m = importlib.util.module_from_spec(spec)
        spec.loader.exec_module(m)
        c = m.parse_default_cursor(build.REPO)
        _DEFCUR["c"] = {"kind": "x", "w": c["w"], "h": c["h"], "xh": c["xh"], "yh": c["yh"],
                        "src": bytes(c["src"]), "mask": bytes(c["mask"]), "fg": c["fg"], "bg": c["bg"]}
    return dict(_DEFCUR["c"])


def bit_at(bits, w, u, v):
    return (bits[v * rb(w) + u // 8] >> (7 - (u & 7))) & 1


def dilate3x3(src, w, h):
    """what rfbMakeMaskForXCursor is for: every source pixel and its eight neighbours"""
    return [[int(any(bit_at(src, w, uu, vv) for uu in range(max(0, u - 1), min(w, u + 2))
                     for vv in range(max(0, v - 1), min(h, v + 2)))) for u in range(w)] for v in range(h)]


def x_bitmap_of_rich(cur, bpp):
    """rfbMakeXCursorFromRichCursor as its comments specify it: with all six colours zero (and a 1-, 2- or
    4-byte true-colour pixel) interpolate to black and white by grey level >= 128 and report a white
    foreground; otherwise a bit is set where the pixel differs from the background colour.
    -> (bits per pixel row-major, colour bytes)"""
    _, mx, sh = FMTS[SERVER_FMT[bpp]]
    w, h = cur["w"], cur["h"]
    fg, bg = cur.get("fg", (0, 0, 0)), cur.get("bg", (0, 0, 0))
    interp = fg == (0, 0, 0) and bg == (0, 0, 0) and bpp in (1, 2, 4)
    back = sum(((mx[k] * bg[k]) // 0xffff) << sh[k] for k in range(3)) & ((1 << (8 * bpp)) - 1)
    bits = []
    for k in range(w * h):
        p = int.from_bytes(cur["pix"][k * bpp:(k + 1) * bpp], "little")
        if interp:
            g = sum(255 * ((p >> sh[c]) & mx[c]) // mx[c] for c in range(3)) // 3
            bits.append(1 if g >= 128 else 0)
        else:
            bits.append(1 if p != back else 0)
    if interp:
        fg = (0xffff, 0xffff, 0xffff)
    return bits, bytes([c >> 8 for c in fg + bg])


def check_shape(shape, ckind, cur, bpp, cfmt=None):
    """cursor pseudo-rectangle vs the script's cursor: exact size, hot-spot, colours/pixels, mask"""
    tag = "X" if ckind == "x" else "R"
    if shape == "-":
        return "no cursor-shape rectangle although the cursor changed"
    m = re.match(r"^([XR]):(\d+),(\d+),(\d+),(\d+):(\S+)$", shape)
    if not m or m.group(1) != tag:
        return "cursor rectangle of the wrong encoding: %s" % shape[:40]
    xh, yh, w, h = (int(m.group(i)) for i in (2, 3, 4, 5))
    payload = b"" if m.group(6) == "-" else bytes.fromhex(m.group(6))
    if cur["kind"] == "none":
        return None if (xh, yh, w, h, payload) == (0, 0, 0, 0, b"") else "cursor rectangle for 'no cursor' is not empty"
    empty = (0, 0, 0, 0, b"")
    maybe_empty = cur["w"] == 1 and cur["h"] == 1
    if maybe_empty and "mask" in cur:
        if cur["mask"][0] == 0:
            return None if (xh, yh, w, h, payload) == empty else "1x1 cursor with empty mask must be sent as empty"
        maybe_empty = False
    if maybe_empty and (xh, yh, w, h, payload) == empty:
        return None
    # a cursor whose rectangle (header, colours, mask, data) exceeds the update buffer is announced
    # as the empty cursor (rule of f43cbce)
    cb0 = FMTS[cfmt][0] if cfmt else bpp
    mb0 = rb(cur["w"]) * cur["h"]
    if 12 + 6 + mb0 + (mb0 if tag == "X" else cur["w"] * cur["h"] * cb0) > update_buf_size():
        return None if (xh, yh, w, h, payload) == empty else "a cursor that does not fit the update buffer must be sent as the empty cursor"
    if (xh, yh, w, h) != (cur["xh"], cur["yh"], cur["w"], cur["h"]):
        return "cursor rectangle says hot=%d,%d size=%dx%d, cursor is hot=%d,%d size=%dx%d" % (
            xh, yh, w, h, cur["xh"], cur["yh"], cur["w"], cur["h"])
    mb = rb(w) * h
    cb = FMTS[cfmt][0] if cfmt else bpp
    want_len = 6 + 2 * mb if tag == "X" else w * h * cb + mb
    if len(payload) != want_len:
        return "cursor payload has %d bytes, expected %d" % (len(payload), want_len)
    if "mask" in cur and payload[-mb:] != cur["mask"]:
        return "mask bytes differ from the cursor's mask"
    maskb = payload[-mb:] if mb else b""
    if cur["kind"] == "xm":
        # the mask the library derives for an X cursor: the source dilated by one pixel
        want = dilate3x3(cur["src"], w, h)
        for v in range(h):
            for u in range(w):
                if bit_at(maskb, w, u, v) != want[v][u]:
                    return "derived mask bit %d,%d is %d, the source dilated by one pixel has %d" % (
                        u, v, bit_at(maskb, w, u, v), want[v][u])
    if cur["kind"] == "alpha" and w * h > 0:
        # the mask dithered from the alpha source: threshold 0x80 at the first pixel; a fully
        # transparent source gives no bit at all, a fully opaque one every bit of the cursor
        al = cur["alpha"]
        if bit_at(maskb, w, 0, 0) != (1 if al[0] >= 0x80 else 0):
            return "alpha mask: first pixel has alpha %d but mask bit %d" % (al[0], bit_at(maskb, w, 0, 0))
        if all(a == 0 for a in al) and any(maskb):
            return "alpha mask of a fully transparent source is not empty"
        if all(a == 255 for a in al):
            for v in range(h):
                for u in range(w):
                    if not bit_at(maskb, w, u, v):
                        return "alpha mask of a fully opaque source lacks bit %d,%d" % (u, v)
    if tag == "X" and cur["kind"] in ("rich", "alpha"):
        bits, col = x_bitmap_of_rich(cur, bpp)
        if payload[:6] != col:
            return "XCursor colours %s for a rich cursor, expected %s" % (payload[:6].hex(), col.hex())
        for k in range(w * h):
            if bit_at(payload[6:6 + mb], w, k % w, k // w) != bits[k]:
                return "XCursor bitmap of a rich cursor: bit %d,%d is %d, expected %d" % (
                    k % w, k // w, 1 - bits[k], bits[k])
    if tag == "X" and cur["kind"] in ("x", "xs", "xm"):
        col = bytes([c >> 8 for c in cur["fg"] + cur["bg"]])
        if payload[:6] != col:
            return "XCursor colours %s, cursor has %s" % (payload[:6].hex(), col.hex())
        if payload[6:6 + mb] != cur["src"]:
            return "XCursor bitmap differs from the cursor's source bitmap"
    if tag == "R" and cur["kind"] in ("rich", "alpha"):
        if cfmt is None or cfmt == SERVER_FMT[bpp]:
            if payload[:w * h * bpp] != cur["pix"]:
                return "RichCursor pixels differ from the cursor's pixels"
        else:
            for k in range(w * h):
                src = int.from_bytes(cur["pix"][k * bpp:(k + 1) * bpp], "little")
                got = int.from_bytes(payload[k * cb:(k + 1) * cb], "little")
                want = translate_px(src, SERVER_FMT[bpp], cfmt)
                if got != want:
                    return "RichCursor pixel %d,%d is %x, the cursor's pixel %x translated to %s is %x" % (
                        k % w, k // w, got, src, cfmt, want)
    return None


def oracle(script, impl):
    """direct oracle on the implementation's observations (no model): harness oracle lines,
    framebuffer restored after every update, cursor pseudo-rectangles, PointerPos to others."""
    ops = [l for l in script.splitlines() if l and not l.startswith("#")]
    i = 0
    bpp, W, H = 4, 0, 0
    cur = default_cursor_spec()
    kinds, dead, owed_shape, owed_pos, cfmts, poscap = {}, set(), {}, {}, {}, {}
    pdim, fullni, fullpic, dirty = {}, {}, {}, 0    # scaled clients: picture size, pending full non-incremental request, last such picture
    pos, pclient = (0, 0), None
    for op in ops:
        t = op.split()
        if i >= len(impl):
            return "observations end before op %r" % op
        if t[0] == "pump" and impl[i] != "bad-op":
            lines, last = [], -1          # one `c<id> ...` line per client, ascending ids, + oracle lines
            while i < len(impl):
                mm = re.match(r"^c(\d+) ", impl[i])
                if mm:
                    if int(mm.group(1)) <= last:
                        break
                    last = int(mm.group(1))
                elif not (impl[i].startswith("oracle") or impl[i].startswith("inv ")):
                    break
                lines.append(impl[i])
                i += 1
            for l in lines:
                if l.startswith("oracle") or l.startswith("inv "):
                    if "BAD" in l:
                        return l
                    continue
                m = PUMP_RE.match(l)
                if not m:
                    if re.match(r"^c\d+ (n=0|dead)$", l):
                        continue
                    return "unparsable pump line %r" % l
                cid, res = int(m.group(1)), int(m.group(2))
                if m.group(3) != m.group(5):
                    return "framebuffer changed by the update of client %d (res=%d): %s -> %s" % (cid, res, m.group(3), m.group(5))
                if kinds.get(cid) != "raw" and m.group(4) != m.group(3):
                    return "framebuffer painted for cursor-shape client %d" % cid
                if not res:
                    dead.add(cid)
                    if pclient == cid:
                        pclient = None
                    continue
                if m.group(13):
                    return "client %d could not parse the server's output" % cid
                # a cursor-shape client (scaled or not) that is sent the whole screen again although the
                # application has not touched the framebuffer must get the same picture again
                if kinds.get(cid) != "raw" and fullni.get(cid):
                    if cid in fullpic and fullpic[cid][0] == dirty and fullpic[cid][1] != m.group(12):
                        return "client %d: a full refresh gives another picture (%s, before %s) although the application did not touch the framebuffer" % (cid, m.group(12), fullpic[cid][1])
                    fullpic[cid] = (dirty, m.group(12))
                fullni[cid] = False
                if kinds[cid] != "raw":
                    if owed_shape.get(cid):
                        e = check_shape(m.group(9), kinds[cid], cur, bpp, cfmts.get(cid))
                        if e:
                            return "client %d: %s" % (cid, e)
                        owed_shape[cid] = False
                    if owed_pos.get(cid):
                        if m.group(10) != "%d,%d" % pos:
                            return "client %d: PointerPos %s after another client moved the pointer to %d,%d" % ((cid, m.group(10)) + pos)
                        owed_pos[cid] = False
                    elif m.group(10) != "-":
                        # position updates are for movements by ANOTHER client (or a fresh SetEncodings)
                        return "client %d: PointerPos %s although no other client has moved the pointer since its last update" % (cid, m.group(10))
                elif m.group(10) != "-" or m.group(9) != "-":
                    return "client %d without cursor-shape support got a cursor pseudo-rectangle" % cid
            continue
        ob = impl[i]
        i += 1
        if ob == "bad-op":
            continue
        if t[0] == "screen":
            W, H, bpp = int(t[1]), int(t[2]), int(t[3])
        elif t[0] in ("draw", "copy"):
            dirty += 1
        elif t[0] == "scale":
            mm = re.match(r"^ok (\d+)x(\d+)$", ob)
            if mm:
                pdim[int(t[1])] = (int(mm.group(1)), int(mm.group(2)))
                fullpic.pop(int(t[1]), None)
        elif t[0] == "req":
            c = int(t[1])
            if t[2] == "0" and (int(t[3]), int(t[4])) == (0, 0) and (int(t[5]), int(t[6])) == pdim.get(c, (W, H)):
                fullni[c] = True
        elif t[0] == "cursor":
            cur = parse_cursor_op(t, bpp)
            for c in kinds:
                owed_shape[c] = True
        elif t[0] == "client":
            c = int(t[1])
            kinds[c], poscap[c], _ = enc_info(t[2])
            cfmts[c] = t[3] if len(t) > 3 else None
            owed_shape[c] = True
            owed_pos[c] = poscap[c]
        elif t[0] == "setenc":
            c = int(t[1])
            kinds[c], poscap[c], _ = enc_info(t[2])
            fullpic.pop(c, None)
            # shape and position become due again - the position whenever PointerPos is listed
            # together with a cursor-shape encoding, in whatever order
            owed_shape[c] = kinds[c] != "raw"
            owed_pos[c] = poscap[c]
        elif t[0] == "ptr":
            c, x, y, b = int(t[1]), int(t[2]), int(t[3]), int(t[4]) & 0xff
            if pclient is None or pclient == c:
                pclient = c if b else None
                if (x, y) != pos:
                    pos = (x, y)
                    for o in kinds:
                        if o not in dead and poscap.get(o):
                            owed_pos[o] = (o != c)
            m = re.match(r"^pos=(\d+),(\d+) ", ob)
            if not m or (int(m.group(1)), int(m.group(2))) != pos:
                return "pointer is at %d,%d after %r but the screen says %s" % (pos + (op, ob))
    return None


def stats_of(script, impl, dist):
    sbpp = 4
    for l in script.splitlines():
        t = l.split()
        if not t:
            continue
        k = t[0] + (":" + t[1] if t[0] == "cursor" else "") + (":" + ("list" if t[2].startswith("enc:") else t[2]) if t[0] in ("client", "setenc") else "")
        dist["ops"][k] = dist["ops"].get(k, 0) + 1
        if t[0] == "screen":
            dist["bpp"][t[3]] = dist["bpp"].get(t[3], 0) + 1
            sbpp = int(t[3])
        if t[0] == "client":
            cf = t[3] if len(t) > 3 else "server"
            key = "%s:%s" % (enc_info(t[2])[0], "server" if cf in ("server", SERVER_FMT.get(sbpp)) else "%dto%d" % (sbpp * 8, FMTS[cf][0] * 8) + ("" if FMTS[cf][0] != sbpp else "-other-shifts"))
            dist["client_format"][key] = dist["client_format"].get(key, 0) + 1
        if t[0] == "cursor" and len(t) > 3:
            sz = "%sx%s" % (t[2], t[3])
            if (int(t[2]), int(t[3])) not in SIZES:
                sz = "other(1..20 x 1..20)"
            dist["cursor_size"][sz] = dist["cursor_size"].get(sz, 0) + 1
    painted = 0
    for l in impl:
        m = PUMP_RE.match(l)
        if m:
            dist["updates"] += 1
            if m.group(2) == "0":
                dist["failed_updates"] += 1
            if m.group(4) != m.group(3):
                painted += 1
        elif l == "bad-op":
            dist["bad_ops"] += 1
        elif l.startswith(("oracle", "inv ")) and l.endswith("ok"):
            dist["oracle_checks"] += 1
    dist["updates_with_cursor_painted"] += painted
    return painted


def scaled_scripts(rng):
    """scaled clients next to a soft-cursor client (judged by the direct oracles only: the scaling filter
    is property C17): the unscaled soft-cursor client is updated with the pointer at several positions,
    then the scaled clients are sent the whole screen again"""
    out = []
    for sb in (1, 2, 4):
        for ck in ("default", "rich"):
            W, H = 24, 18
            lines = ["screen %d %d %d" % (W, H, sb)]
            if ck == "rich":
                lines.append("cursor rich 6 5 1 2 %s %s 65535 0 0 0 0 65535" % (
                    hx(bytes(rng.randrange(256) for _ in range(30 * sb))), hx(rand_bits(rng, 6, 5, "dense", True))))
            lines += ["client 0 raw", "client 1 rich", "client 2 raw", "client 3 x", "scale 1 2", "scale 2 3", "scale 3 2"]
            reqs = lambda inc: ["req 0 %d 0 0 24 18" % inc, "req 1 %d 0 0 12 9" % inc, "req 2 %d 0 0 8 6" % inc, "req 3 %d 0 0 12 9" % inc]
            lines += reqs(0) + ["pump"]
            for (px, py) in ((10, 8), (3, 3), (23, 17), (0, 0)):
                lines += ["ptr 0 %d %d 0" % (px, py), "req 0 1 0 0 24 18", "pump"]        # only the unscaled client is updated
                lines += reqs(0) + ["pump"]                                          # everybody gets everything again
            lines += ["draw 4 4 9 6 %d" % rng.randint(1, 99)] + reqs(1) + ["pump"] + reqs(0) + ["pump"]
            out.append("\n".join(lines) + "\n")
    return out


def matrix_scripts(rng):
    """deterministic part of every run: every server depth x every client pixel format x every client
    kind, with multi-row rich / X / alpha cursors, so that pixel translation of Raw data and of the
    RichCursor payload (input row stride!) is exercised for every bytes-per-pixel combination"""
    out = []
    for sb in (1, 2, 3, 4):
        for cf in sorted(FMTS):
            if cf == "f24" and sb != 3:
                continue
            for kind in ("rich", "raw", "x"):
                W, H = 13, 9
                lines = ["screen %d %d %d" % (W, H, sb)]
                w, h = rng.choice([(5, 4), (9, 3), (3, 7), (16, 2)])
                pix = bytes(rng.randrange(256) for _ in range(w * h * sb))
                mask = rand_bits(rng, w, h, "dense", True)
                lines.append("cursor rich %d %d %d %d %s %s 65535 0 0 0 0 65535" % (w, h, 1, 1, hx(pix), hx(mask)))
                lines.append("client 0 %s %s" % (kind, cf))
                lines.append("client 1 raw")
                lines += ["ptr 1 4 3 0", "req 0 0 0 0 %d %d" % (W, H), "req 1 0 0 0 %d %d" % (W, H), "pump"]
                src = rand_bits(rng, 7, 5, "random", True)
                lines.append("cursor x 7 5 0 0 %s %s 65535 32768 0 0 0 65535" % (hx(src), hx(rand_bits(rng, 7, 5, "dense", True))))
                lines += ["ptr 1 %d %d 0" % (W - 3, H - 2), "draw 2 1 6 5 %d" % rng.randint(1, 999),
                          "req 0 1 0 0 %d %d" % (W, H), "req 1 1 0 0 %d %d" % (W, H), "pump"]
                w, h = 6, 6
                pix = bytes(rng.randrange(256) for _ in range(w * h * sb))
                alpha = bytes(rng.choice([0, 255, 255, rng.randrange(256)]) for _ in range(w * h))
                lines.append("cursor alpha %d %d 2 2 %s %s %d" % (w, h, hx(pix), hx(alpha), rng.randint(0, 1)))
                lines += ["ptr 1 6 4 0", "req 0 1 0 0 %d %d" % (W, H), "req 1 1 0 0 %d %d" % (W, H), "pump"]
                out.append("\n".join(lines) + "\n")
    # cursor rectangles at the update-buffer limit: exactly at it (flush first), just below (with and
    # without the preliminary flush), one and two bytes over it (-> empty cursor); zero-size cursors
    L = update_buf_size()
    for sb, kind, cf, w, h in ((1, "rich", None, 116, 250), (1, "rich", None, 127, 229), (1, "rich", None, 157, 185),
                               (4, "rich", None, 567, 14), (4, "rich", None, 294, 27), (4, "rich", None, 89, 89),
                               (4, "rich", "f16b", 123, 125), (4, "rich", "f8b", 222, 131),
                               (2, "x", None, 200, 655), (2, "x", None, 184, 712)):
        W, H = 20, 15
        pix = bytes(rng.randrange(256) for _ in range(w * h * sb))
        mask = rand_bits(rng, w, h, "dense", False)
        lines = ["screen %d %d %d" % (W, H, sb)]
        if kind == "rich":
            lines.append("cursor rich %d %d %d %d %s %s 65535 0 0 0 0 65535" % (w, h, 2, 1, hx(pix), hx(mask)))
        else:
            lines.append("cursor x %d %d %d %d %s %s 65535 0 0 0 0 65535" % (w, h, 2, 1, hx(rand_bits(rng, w, h, "random", False)), hx(mask)))
        lines += ["client 0 rich" + (" " + cf if cf else ""), "client 1 x", "client 2 raw", "ptr 2 8 6 0"]
        lines += ["req %d 0 0 0 %d %d" % (i, W, H) for i in range(3)] + ["pump"]
        lines += ["cursor x 3 2 0 0 e040 e0e0 0 0 0 65535 65535 65535", "ptr 2 %d %d 0" % (W - 1, H - 1)]
        lines += ["req %d 1 0 0 %d %d" % (i, W, H) for i in range(3)] + ["pump"]
        out.append("\n".join(lines) + "\n")
        if (w, h) == (116, 250):      # the write of the preliminary flush fails
            out.append("\n".join(lines[:6] + ["req 0 0 0 0 %d %d" % (W, H), "failnext 0 0", "pump", "pump"]) + "\n")
    for sb in (1, 4):
        for w, h in ((0, 0), (0, 5), (7, 0)):
            W, H = 9, 7
            out.append("\n".join(["screen %d %d %d" % (W, H, sb), "client 0 raw", "req 0 0 0 0 %d %d" % (W, H), "pump",
                                  "cursor x %d %d 0 0 - - 65535 65535 65535 0 0 0" % (w, h), "ptr 0 4 3 0",
                                  "req 0 1 0 0 %d %d" % (W, H), "pump", "ptr 0 %d %d 0" % (W, H),
                                  "req 0 1 0 0 %d %d" % (W, H), "pump"]) + "\n")
    # derived masks and conversions seen by cursor-shape clients: alpha sources that are fully opaque,
    # fully transparent, and with the first pixel just below / at the dithering threshold; X cursors
    # with a derived mask whose source crosses byte boundaries in both directions; a rich cursor with
    # all-zero colours (black/white interpolation) at every depth; a PointerPos-only update that fails
    for sb in (1, 2, 3, 4):
        W, H = 12, 9
        full = lambda i, inc=1: "req %d %d 0 0 %d %d" % (i, inc, W, H)
        lines = ["screen %d %d %d" % (W, H, sb), "client 0 x", "client 1 rich", "client 2 raw", full(0, 0), full(1, 0), full(2, 0), "pump"]
        w, h = 11, 4
        pix = lambda: hx(bytes(rng.randrange(256) for _ in range(w * h * sb)))
        for al in (bytes([255]) * (w * h), bytes(w * h), bytes([127]) + bytes(rng.randrange(256) for _ in range(w * h - 1)),
                   bytes([128]) + bytes(rng.randrange(256) for _ in range(w * h - 1))):
            lines += ["cursor alpha %d %d 1 1 %s %s %d" % (w, h, pix(), hx(al), rng.randint(0, 1)), full(0), full(1), full(2), "pump"]
        # source with pixels on both sides of the byte boundaries 7|8 and 15|16
        src = bytearray(rb(19) * 5)
        for (u, v) in ((8, 0), (7, 2), (16, 3), (15, 4), (0, 4), (18, 1)):
            src[v * rb(19) + u // 8] |= 0x80 >> (u & 7)
        lines += ["cursor xm 19 5 2 2 %s" % hx(src), full(0), full(1), full(2), "pump"]
        lines += ["cursor rich %d %d 0 0 %s %s 0 0 0 0 0 0" % (w, h, pix(), hx(rand_bits(rng, w, h, "dense", True))),
                  full(0), full(1), full(2), "pump"]
        # a cursor-shape client moves the pointer itself: it gets no PointerPos, the other one does
        lines += ["ptr 0 3 3 0", full(0), full(1), "pump", "ptr 1 8 2 0", full(0), full(1), "pump"]
        # only a PointerPos rectangle is due for client 0, and its write fails
        lines += ["ptr 2 5 5 0", full(0), "failnext 0 0", "pump", "pump"]
        out.append("\n".join(lines) + "\n")
    # SetEncodings lists in every order: all permutations of every subset of the cursor
    # pseudo-encodings {PointerPos, XCursor, RichCursor} (Raw and CopyRect mixed in), for the first
    # SetEncodings of a client and for a later one; another client moves the pointer
    import itertools
    subsets = [s for k in range(1, 4) for s in itertools.combinations(("pos", "x", "rich"), k)]
    for sub in subsets:
        for perm in itertools.permutations(sub):
            W, H = 11, 8
            l1 = "enc:" + ",".join(["raw"] + list(perm))
            l2 = "enc:" + ",".join(list(reversed(perm)) + ["copyrect", "raw"])
            full = lambda i, inc=1: "req %d %d 0 0 %d %d" % (i, inc, W, H)
            out.append("\n".join([
                "screen %d %d 4" % (W, H), "client 0 %s" % l1, "client 1 raw", full(0, 0), full(1, 0), "pump",
                "ptr 1 6 3 0", full(0), full(1), "pump", "ptr 1 2 5 0", full(0), full(1), "pump",
                "setenc 0 raw", full(0), "pump", "setenc 0 %s" % l2, "ptr 1 7 7 0", full(0), full(1), "pump",
                "ptr 1 1 1 0", full(0), full(1), "pump"]) + "\n")
    # scrolling with a painted soft cursor: the pointer in the strip that is only source, only
    # destination, both, and across the boundary, for scrolls in five directions; arbitrary cursor
    # shapes, masks and hot-spots; a soft-cursor client and a cursor-shape client, both with CopyRect
    for (dx, dy) in ((0, -4), (0, 5), (-6, 0), (5, 0), (-3, -2)):
        for place in ("src", "dst", "both", "edge"):
            for ck in ("default", "rich", "x"):
                W, H, sb = 26, 20, rng.choice([1, 2, 4])
                xlo, xhi, ylo, yhi = max(0, dx), W + min(0, dx), max(0, dy), H + min(0, dy)   # destination
                lines = ["screen %d %d %d" % (W, H, sb)]
                if ck == "rich":
                    w, h = rng.choice([(5, 4), (9, 6), (3, 7)])
                    lines.append("cursor rich %d %d %d %d %s %s 65535 0 0 0 0 65535" % (
                        w, h, rng.randrange(w), rng.randrange(h), hx(bytes(rng.randrange(256) for _ in range(w * h * sb))),
                        hx(rand_bits(rng, w, h, rng.choice(["dense", "random", "full"]), True))))
                elif ck == "x":
                    w, h = rng.choice([(7, 5), (8, 8)])
                    lines.append("cursor x %d %d %d %d %s %s 65535 0 0 0 0 65535" % (
                        w, h, rng.randrange(w), rng.randrange(h), hx(rand_bits(rng, w, h, "random", True)),
                        hx(rand_bits(rng, w, h, "dense", True))))
                lines += ["client 0 enc:copyrect,raw", "client 1 enc:raw,rich,pos,copyrect", "client 2 raw"]
                full = lambda i, inc=1: "req %d %d 0 0 %d %d" % (i, inc, W, H)
                lines += [full(0, 0), full(1, 0), full(2, 0), "pump"]
                # pointer positions: source = destination displaced by -(dx,dy)
                def pick(lo, hi, d, which):
                    # one axis: destination [lo,hi), source [lo-d, hi-d)
                    if d == 0:
                        return (lo + hi) // 2
                    if which == "src":          # in the source but not in the destination
                        return (hi + (hi - d)) // 2 if d < 0 else ((lo - d) + lo) // 2
                    if which == "dst":
                        return (lo + (lo - d)) // 2 if d < 0 else ((hi - d) + hi) // 2
                    if which == "edge":
                        return hi if d < 0 else lo
                    return (lo + hi) // 2
                px = min(W - 1, max(0, pick(xlo, xhi, dx, place)))
                py = min(H - 1, max(0, pick(ylo, yhi, dy, place)))
                lines += ["ptr 2 %d %d 0" % (px, py), full(0), full(1), full(2), "pump"]
                lines += ["copy %d %d %d %d %d %d" % (xlo, ylo, xhi, yhi, dx, dy), full(0), full(1), full(2), "pump"]
                # two copies before the next update: same direction, then another direction
                lines += ["copy %d %d %d %d %d %d" % (xlo, ylo, xhi, yhi, dx, dy),
                          "copy %d %d %d %d %d %d" % (xlo, ylo, xhi, yhi, dx, dy), full(0), full(1), full(2), "pump"]
                lines += ["copy %d %d %d %d %d %d" % (xlo, ylo, xhi, yhi, dx, dy),
                          "copy %d %d %d %d %d %d" % (max(0, -dx), max(0, -dy), W + min(0, -dx), H + min(0, -dy), -dx, -dy),
                          "draw 1 1 4 3 %d" % rng.randint(1, 99), full(0), full(1), full(2), "pump",
                          full(0), full(1), full(2), "pump"]
                out.append("\n".join(lines) + "\n")
    # cursor capability switched mid-session, with the library's default cursor and without any
    # pointer movement between the switch and the next update
    for sb in (1, 3, 4):
        for a, b in (("x", "raw"), ("rich", "raw"), ("raw", "x"), ("raw", "rich"), ("x", "rich"), ("rich", "x")):
            W, H = 12, 9
            full = lambda i, inc=1: "req %d %d 0 0 %d %d" % (i, inc, W, H)
            out.append("\n".join([
                "screen %d %d %d" % (W, H, sb), "client 0 %s" % a, "client 1 raw",
                full(0, 0), full(1, 0), "pump", "setenc 0 %s" % b, full(0), full(1), "pump",
                "ptr 1 5 4 0", full(0), full(1), "pump", "setenc 0 %s" % a, full(0), "pump",
                "ptr 1 %d %d 0" % (W - 1, H - 1), "setenc 0 %s" % b, full(0), full(1), "pump"]) + "\n")
    return out


def load_corpus():
    out = []
    for p in sorted(glob.glob(os.path.join(common.VERIF, "corpus", "C15", "*.ops"))):
        out.append((os.path.basename(p), open(p).read()))
    return out


def run(ctx):
    h = ctx.harness("c15", extra=("-ldl",))
    d = ctx.driver("drv_c15")
    fails, samples = [], []
    dist = {"ops": {}, "bpp": {}, "cursor_size": {}, "updates": 0, "failed_updates": 0, "bad_ops": 0,
            "oracle_checks": 0, "updates_with_cursor_painted": 0, "client_format": {}, "midstream_failure_scripts": 0,
            "explained_by_known_defect": {}}
    scripts = []
    # known defect "copyregion-null-cursor" (rfbScheduleCopyRegion dereferences a NULL screen->cursor):
    # its witness is replayed with the corpus; while the tree still has it, the generated scripts
    # do not combine "no cursor" with scheduled copies (exclude predicate), everything else is explored
    wit = os.path.join(common.VERIF, "corpus", "C15", "copyregion-null-cursor.ops")
    nullcur_defect = False
    if os.path.exists(wit):
        rcw, _, _ = ctx.run_lines(h, open(wit).read(), timeout=120)
        nullcur_defect = rcw != 0
    dist["tree_has_copyregion_null_cursor_defect"] = nullcur_defect

    def excl(sc):
        if nullcur_defect and "cursor none" in sc and "\ncopy " in sc:
            return sc.replace("cursor none", "cursor x 1 1 0 0 00 00 0 0 0 0 0 0")
        return sc
    if ctx.replay:
        rec = json.load(open(ctx.replay))
        scripts = [("replay", "\n".join(rec.get("script", [])) + "\n", True)]
    else:
        for name, sc in load_corpus():
            scripts.append(("corpus:" + name, sc, True))
        for sc in matrix_scripts(ctx.rng):
            scripts.append(("matrix", excl(sc), True))
        # scaled clients: the scaling filter is C17's, these scripts are judged by the direct oracles only
        for sc in scaled_scripts(ctx.rng):
            scripts.append(("scaled", sc, False))
        for k in range(30 if ctx.tier == "quick" else 600):
            scripts.append(("gen-scaled", excl(gen_script(ctx.rng, scaled=True)), False))
        n = 350 if ctx.tier == "quick" else 15000
        for k in range(n):
            scripts.append(("gen", excl(gen_script(ctx.rng)), True))
        for k in range(8 if ctx.tier == "quick" else 300):
            scripts.append(("gen-big", excl(gen_script(ctx.rng, big=True)), True))
        # failure in the middle of the stream (2nd/3rd write): the number of writes of an update is
        # not modelled, so these are judged by the direct oracles only
        for k in range(20 if ctx.tier == "quick" else 600):
            scripts.append(("gen-midfail", excl(gen_script(ctx.rng, big=True, midfail=True)), False))

    def one(item):
        what, sc, with_model = item
        if with_model:
            impl, model, f = common.compare_streams(ctx, sc, h, d, "cursor session", timeout=300)
        else:
            rc, impl, err = ctx.run_lines(h, sc, timeout=300)
            f = None
            if rc != 0:
                f = {"kind": "crash", "what": "cursor session (%s): harness exit %d" % (what, rc),
                     "script": sc.splitlines()[:400], "impl": impl[-20:], "detail": err}
        o = None
        if not (f and f["kind"] == "crash"):
            try:
                o = oracle(sc, impl)
            except Exception as e:      # the oracle must never hide a problem
                o = "oracle raised %r" % (e,)
        explained = None
        if f and f["kind"] == "crash" and "rfbScheduleCopyRegion" in str(f.get("detail")) and \
                "null pointer of type 'struct rfbCursor'" in str(f.get("detail")):
            explained = [FINDING_NULLCUR]
        if f and f["kind"] == "exact":
            # the repaired model disagrees: does the implementation behave exactly like the model of
            # the known-defective original?
            for args, fid in ((("orig-setenc",), [FINDING_SETENC]),
                              (("orig-clip",), [FINDING_CLIP]), (("orig-colour",), [FINDING_COLOUR]),
                              (("orig-clip", "orig-colour"), [FINDING_CLIP, FINDING_COLOUR]),
                              (("orig-clip", "orig-colour", "orig-setenc"), [FINDING_CLIP, FINDING_COLOUR, FINDING_SETENC])):
                if not ctx.driver_ok or not with_model:
                    break
                rc2, m2, _ = ctx.run_lines(d, sc, args=args, timeout=300)
                if rc2 == 0 and [l for l in m2 if not l.startswith(("oracle", "inv "))] == [l for l in impl if not l.startswith(("oracle", "inv "))]:
                    explained = fid
                    break
        return what, sc, impl, f, o, explained

    results = common.pmap(one, scripts)
    evals, nontrivial = 0, set()
    for what, sc, impl, f, o, explained in results:
        evals += 1
        if what == "gen-midfail":
            dist["midstream_failure_scripts"] += 1
        if what in ("scaled", "gen-scaled"):
            dist["scaled_client_scripts"] = dist.get("scaled_client_scripts", 0) + 1
        recs = []
        if f:
            recs.append(f)
        if o:
            recs.append({"kind": "oracle", "what": "C15 direct oracle (%s)" % what, "detail": o,
                         "script": sc.splitlines()[:400], "impl": impl[-30:]})
        if not explained and o and not f:
            # no model run to compare with (mid-stream failure scripts): the harness classifies the
            # wrong pixel itself - precisely the pixel value the known-defective formula yields
            if "cause=clip-last-col-row" in o:
                explained = [FINDING_CLIP]
            elif "cause=xcolour-unscaled" in o:
                explained = [FINDING_COLOUR]
        for r in recs:
            if explained:
                for fid in explained:
                    rr = dict(r)
                    rr["finding"] = fid
                    fails.append(rr)
                    dist["explained_by_known_defect"][fid] = dist["explained_by_known_defect"].get(fid, 0) + 1
            else:
                fails.append(r)
        if stats_of(sc, impl, dist) > 0:
            nontrivial.add(sc)
        if len(samples) < 3 and what == "gen":
            samples.append({"script": sc.splitlines()[:60], "impl": impl[:60]})
    # keep the report small but make sure an unexplained failure comes first
    fails.sort(key=lambda r: (1 if r.get("finding") else 0, 0 if r["kind"] in ("oracle", "crash") else 1))
    return {
        "evaluations": evals, "distinct_nontrivial": len(nontrivial),
        "rule": "scripted sessions (screen 8/16/32 bpp, cursors 1x1..64x64 of five kinds, 1-3 clients raw/XCursor/RichCursor in the server's or a different pixel format (6 formats; all 3x6x3 depth/format/kind combinations deterministically), "
                "pointer events on an edge lattice incl. off-screen and 65535, draws, requests, cursor replacement, write failures); "
                "non-trivial = distinct script with at least one update during which the soft cursor was really painted "
                "(framebuffer hash at the pre-encode hook differs from the hash before the update)",
        "samples": samples, "distribution": dist, "failures": fails[:40],
        "partial": PARTIAL,
        "assumptions": ASSUMPTIONS,
        "trusted_extra": ["harness/c15.c decoder of the server's output (Raw rectangles, cursor pseudo-rectangles) and its reference composition"],
    }


PARTIAL = [
    "alpha blending: proved per channel (a*src/255 + (255-a)*dst/255, within the format) for non-premultiplied sources on packed formats; premultiplied sources are characterised by the model's `blend` only (tied by correspondence)",
    "rfbMakeMaskFromAlphaSource: threshold of the first pixel, all-transparent -> empty mask, all-opaque -> full mask are proved; the error diffusion in general is tied by correspondence only",
    "big-endian server pixel formats (the `back += 4-bpp` arms of the conversions) are not modelled",
]
ASSUMPTIONS = [
    "regions are pixel sets (that rfbregion.c implements set algebra is property C11); the harness sets maxRectsPerUpdate high so that the update region is not coarsened to its bounding box (coarsening only enlarges what is sent)",
    "row stride = width*bytesPerPixel (asserted by the harness); client pixel formats are little-endian true-colour formats whose channels fit the pixel: translation of a pixel is modelled by its value (rescaled channels), the table machinery is property C10",
    "single-threaded application-driven event loop; no CopyRect, no scaling, no NewFBSize (C02/C16/C17)",
    "cursor change and pointer movement happen between updates (the bracket show..hide is not interrupted)",
]

META = {
    "technique": "Lean 4 theorems about an executable model of cursor.c and the cursor bracket of rfbSendFramebufferUpdate (checked-index loops; show/hide identity, overlay characterisation, dirty region, pseudo-rectangle layout, whole-history client-picture invariant) + exact correspondence run against the real server + two model-independent oracles",
    "level_text": "Proof: Props/C15.lean proves, for every screen size, cursor (any size, hot-spot, mask, rich/alpha), pointer position and history of operations, that hide∘show restores the framebuffer (also when the update fails), that no index leaves the framebuffer / underCursorBuffer, that the painted framebuffer is the clipped overlay, that the dirty region covers old and new cursor boxes, the exact layout of the cursor pseudo-rectangles and the PointerPos flags. The model is the REPAIRED code (fixes/C15-*.diff); the original variants are kept executable and refuted by counterexample theorems.",
    "level_note": "Trusted: Lean kernel, T0 probe, harness + decoder + generators (testing; distribution in evidence). Not modelled: threads, scaling, CopyRect, pixel translation, rectangle decomposition of regions.",
    "design_ref": "DESIGN.md section 7, C15; section 11 item f",
}
