"""Independent RFB rectangle decoders in plain Python (direct oracle of C01).

Written from the RFB specification (RFC 6143 + the community rfbproto document for Tight/TightPng/
Ultra); shares no code with the Lean spec decoders nor with LibVNCClient.  zlib comes from Python's
zlib module; LZO and JPEG are decoded by trusted codecs reached through callbacks.

Pixels are handled as byte strings in the client's wire format (`bpp` bytes each, row-major).
"""
import zlib, struct


class Malformed(Exception):
    pass


class Fmt:
    def __init__(self, bpp, depth, be, tc, rmax, gmax, bmax, rs, gs, bs):
        self.bpp, self.depth, self.be, self.tc = bpp, depth, be, tc
        self.rmax, self.gmax, self.bmax, self.rs, self.gs, self.bs = rmax, gmax, bmax, rs, gs, bs
        self.bytespp = bpp // 8

    def tuple(self):
        return (self.bpp, self.depth, self.be, self.tc, self.rmax, self.gmax, self.bmax, self.rs, self.gs, self.bs)

    def value(self, pb):
        return int.from_bytes(pb, "big" if self.be else "little")

    def of_value(self, v):
        return (v & ((1 << self.bpp) - 1)).to_bytes(self.bytespp, "big" if self.be else "little")

    def comps(self, pb):
        v = self.value(pb)
        return ((v >> self.rs) & self.rmax, (v >> self.gs) & self.gmax, (v >> self.bs) & self.bmax)

    def of_comps(self, r, g, b):
        return self.of_value((r << self.rs) | (g << self.gs) | (b << self.bs))

    def cpix(self):
        """CPIXEL rule (RFC 6143 7.7.5/7.7.6) -> ('full', n) | ('lo3',) | ('hi3',) in wire-byte terms"""
        return self._cpix(True)

    def cpix_defacto(self):
        """the rule every known implementation uses: as cpix() but without the test depth <= 24
        (known finding cpixel-depth)"""
        return self._cpix(False)

    def _cpix(self, strict):
        if self.bpp == 32 and self.tc and (self.depth <= 24 or not strict):
            ls = all((m << s) < (1 << 24) for m, s in ((self.rmax, self.rs), (self.gmax, self.gs), (self.bmax, self.bs)))
            ms = all(s > 7 for s in (self.rs, self.gs, self.bs))
            if (ls and not self.be) or (ms and self.be):
                return ("lo3",)
            if (ls and self.be) or (ms and not self.be):
                return ("hi3",)
        return ("full", self.bytespp)

    def cpix_int32_overflow(self):
        """CPIXEL choice of a server that evaluates `max << shift` in 32-bit signed arithmetic
        (the defect 'zrle-cpixel-shift-overflow'); equals cpix() whenever nothing overflows"""
        def s32(v):
            v &= 0xFFFFFFFF
            return v - (1 << 32) if v & 0x80000000 else v
        if self.bpp == 32 and self.tc:
            ls = all(s32(m << s) < (1 << 24) for m, s in ((self.rmax, self.rs), (self.gmax, self.gs), (self.bmax, self.bs)))
            ms = all(s > 7 for s in (self.rs, self.gs, self.bs))
            if (ls and not self.be) or (ms and self.be):
                return ("lo3",)
            if (ls and self.be) or (ms and not self.be):
                return ("hi3",)
        return ("full", self.bytespp)

    def tpix_rgb(self):
        return self.bpp == 32 and self.depth == 24 and self.rmax == 255 and self.gmax == 255 and self.bmax == 255


class Rd:
    """cursor over a bytes object"""
    def __init__(self, b, o=0):
        self.b, self.o = b, o

    def take(self, n):
        if n < 0 or self.o + n > len(self.b):
            raise Malformed("truncated: need %d at %d of %d" % (n, self.o, len(self.b)))
        r = self.b[self.o:self.o + n]
        self.o += n
        return r

    def u8(self):
        return self.take(1)[0]

    def u16(self):
        return struct.unpack(">H", self.take(2))[0]

    def u32(self):
        return struct.unpack(">I", self.take(4))[0]

    def left(self):
        return len(self.b) - self.o


def paint(w, h, bpp, bg, rects):
    cv = bytearray(bg * (w * h))
    for (c, x, y, rw, rh) in rects:
        if x + rw > w or y + rh > h:
            raise Malformed("subrect %r outside %dx%d" % ((x, y, rw, rh), w, h))
        row = c * rw
        for yy in range(y, y + rh):
            o = (yy * w + x) * bpp
            cv[o:o + rw * bpp] = row
    return bytes(cv)


def dec_raw(rd, w, h, bpp):
    return rd.take(w * h * bpp)


def dec_rre(rd, w, h, bpp, corre=False):
    n = rd.u32()
    bg = rd.take(bpp)
    rects = []
    for _ in range(n):
        c = rd.take(bpp)
        if corre:
            x, y, rw, rh = rd.u8(), rd.u8(), rd.u8(), rd.u8()
        else:
            x, y, rw, rh = rd.u16(), rd.u16(), rd.u16(), rd.u16()
        rects.append((c, x, y, rw, rh))
    return paint(w, h, bpp, bg, rects)


def blit(cv, W, bpp, x, y, tw, th, tile):
    for r in range(th):
        o = ((y + r) * W + x) * bpp
        cv[o:o + tw * bpp] = tile[r * tw * bpp:(r + 1) * tw * bpp]


def dec_hextile(rd, w, h, bpp, stats=None):
    cv = bytearray(w * h * bpp)
    bg = fg = None
    for ty in range(0, h, 16):
        th = min(16, h - ty)
        for tx in range(0, w, 16):
            tw = min(16, w - tx)
            m = rd.u8()
            if stats is not None:
                stats[m & 31] = stats.get(m & 31, 0) + 1
            if m & 1:
                tile = rd.take(tw * th * bpp)
            else:
                if m & 2:
                    bg = rd.take(bpp)
                if m & 4:
                    fg = rd.take(bpp)
                if bg is None:
                    raise Malformed("hextile: no background yet")
                rects = []
                if m & 8:
                    n = rd.u8()
                    for _ in range(n):
                        if m & 16:
                            c = rd.take(bpp)
                        else:
                            if fg is None:
                                raise Malformed("hextile: no foreground yet")
                            c = fg
                        xy, wh = rd.u8(), rd.u8()
                        rects.append((c, xy >> 4, xy & 15, (wh >> 4) + 1, (wh & 15) + 1))
                tile = paint(tw, th, bpp, bg, rects)
            blit(cv, w, bpp, tx, ty, tw, th, tile)
    return bytes(cv)


def cpix_read(rd, cp):
    if cp[0] == "full":
        return rd.take(cp[1])
    b = rd.take(3)
    return b + b"\0" if cp[0] == "lo3" else b"\0" + b


def runlen(rd):
    n = 1
    while True:
        b = rd.u8()
        n += b
        if b != 255:
            return n


def dec_zrle_tile(rd, tw, th, cp, stats=None, raw15bug=False, zywrle=None):
    m = rd.u8()
    n = tw * th
    if m == 0 and zywrle is not None:
        # ZYWRLE: sub-encoding 0 is followed by a NESTED tile (any sub-encoding) that carries the wavelet
        # coefficients of this tile; well-formedness only (no inverse transform here)
        dec_zrle_tile(rd, tw, th, cp, None, False, None)
        zywrle.append(True)
        return None
    if m == 0 and raw15bug:
        # interpretation under the defect "raw tile of a 15-bit format written with w*h*(15/8) bytes"
        rd.take(n)
        return b"\0\0" * n
    if stats is not None:
        k = "raw" if m == 0 else "solid" if m == 1 else "packed%d" % m if m <= 16 else "rle" if m == 128 else "prle" if m >= 130 else "bad"
        stats[k] = stats.get(k, 0) + 1
    if m == 0:
        return b"".join(cpix_read(rd, cp) for _ in range(n))
    if m == 1:
        return cpix_read(rd, cp) * n
    if 2 <= m <= 16:
        pal = [cpix_read(rd, cp) for _ in range(m)]
        bits = 1 if m == 2 else 2 if m <= 4 else 4
        out = []
        rowbytes = (tw * bits + 7) // 8
        for _ in range(th):
            row = rd.take(rowbytes)
            for i in range(tw):
                bit = i * bits
                idx = (row[bit >> 3] >> (8 - bits - (bit & 7))) & ((1 << bits) - 1)
                if idx >= m:
                    raise Malformed("zrle packed index %d >= %d" % (idx, m))
                out.append(pal[idx])
        return b"".join(out)
    if m == 128:
        out, got = [], 0
        while got < n:
            p = cpix_read(rd, cp)
            ln = runlen(rd)
            if got + ln > n:
                raise Malformed("zrle run too long")
            out.append(p * ln)
            got += ln
        return b"".join(out)
    if m >= 130:
        ps = m - 128
        pal = [cpix_read(rd, cp) for _ in range(ps)]
        out, got = [], 0
        while got < n:
            b = rd.u8()
            if b < 128:
                idx, ln = b, 1
            else:
                idx, ln = b - 128, runlen(rd)
            if idx >= ps:
                raise Malformed("zrle palette index")
            if got + ln > n:
                raise Malformed("zrle run too long")
            out.append(pal[idx] * ln)
            got += ln
        return b"".join(out)
    raise Malformed("zrle: unused subencoding %d" % m)


def dec_zrle_data(data, w, h, fmt, stats=None, cp=None, raw15bug=False, skipped=None):
    rd = Rd(data)
    cp = cp or fmt.cpix_defacto()
    bpp = fmt.bytespp
    cv = bytearray(w * h * bpp)
    for ty in range(0, h, 64):
        th = min(64, h - ty)
        for tx in range(0, w, 64):
            tw = min(64, w - tx)
            zy = [] if skipped is not None else None
            tile = dec_zrle_tile(rd, tw, th, cp, stats, raw15bug, zy)
            if tile is None:
                skipped.append((tx, ty, tw, th))
            else:
                blit(cv, w, bpp, tx, ty, tw, th, tile)
    if rd.left():
        raise Malformed("zrle: %d trailing bytes in the inflated data" % rd.left())
    return bytes(cv)


def compact_len(rd):
    a = rd.u8()
    n = a & 0x7F
    if a & 0x80:
        b = rd.u8()
        n |= (b & 0x7F) << 7
        if b & 0x80:
            n |= rd.u8() << 14
    return n


def png_decode_rgb(data, w, h):
    """minimal PNG reader: 8-bit RGB, non-interlaced (what TightPng carries) -> RGB bytes"""
    if data[:8] != b"\x89PNG\r\n\x1a\n":
        raise Malformed("png signature")
    o, idat, ihdr = 8, [], None
    while o + 8 <= len(data):
        ln, typ = struct.unpack(">I4s", data[o:o + 8])
        body = data[o + 8:o + 8 + ln]
        crc = data[o + 8 + ln:o + 12 + ln]
        if len(body) != ln or len(crc) != 4 or struct.unpack(">I", crc)[0] != (zlib.crc32(typ + body) & 0xFFFFFFFF):
            raise Malformed("png chunk")
        o += 12 + ln
        if typ == b"IHDR":
            ihdr = struct.unpack(">IIBBBBB", body)
        elif typ == b"IDAT":
            idat.append(body)
        elif typ == b"IEND":
            break
    if ihdr is None or ihdr[0] != w or ihdr[1] != h or ihdr[2] != 8 or ihdr[3] != 2 or ihdr[6] != 0:
        raise Malformed("png header %r for %dx%d" % (ihdr, w, h))
    raw = zlib.decompress(b"".join(idat))
    stride = w * 3
    if len(raw) != (stride + 1) * h:
        raise Malformed("png data size")
    out = bytearray()
    prev = bytearray(stride)
    for y in range(h):
        ft = raw[y * (stride + 1)]
        line = bytearray(raw[y * (stride + 1) + 1:(y + 1) * (stride + 1)])
        if ft == 1:
            for i in range(3, stride):
                line[i] = (line[i] + line[i - 3]) & 255
        elif ft == 2:
            for i in range(stride):
                line[i] = (line[i] + prev[i]) & 255
        elif ft == 3:
            for i in range(stride):
                a = line[i - 3] if i >= 3 else 0
                line[i] = (line[i] + ((a + prev[i]) >> 1)) & 255
        elif ft == 4:
            for i in range(stride):
                a = line[i - 3] if i >= 3 else 0
                b = prev[i]
                c = prev[i - 3] if i >= 3 else 0
                p = a + b - c
                pa, pb, pc = abs(p - a), abs(p - b), abs(p - c)
                pr = a if (pa <= pb and pa <= pc) else b if pb <= pc else c
                line[i] = (line[i] + pr) & 255
        elif ft != 0:
            raise Malformed("png filter %d" % ft)
        out += line
        prev = line
    return bytes(out)


def rgb8_to_client(rgb, fmt):
    """still-image pixels (8 bit per channel) -> client format, colour-scaling rule
    c = (c8 * max + 127) / 255"""
    out = []
    cache = {}
    for i in range(0, len(rgb), 3):
        k = rgb[i:i + 3]
        v = cache.get(k)
        if v is None:
            v = fmt.of_comps((k[0] * fmt.rmax + 127) // 255, (k[1] * fmt.gmax + 127) // 255, (k[2] * fmt.bmax + 127) // 255)
            cache[k] = v
        out.append(v)
    return b"".join(out)


class Conn:
    """decoder state of one connection: persistent zlib streams"""
    def __init__(self):
        self.zlib = zlib.decompressobj()
        self.zrle = zlib.decompressobj()
        self.tight = [zlib.decompressobj() for _ in range(4)]

    @staticmethod
    def infl(z, data):
        try:
            out = z.decompress(data)
        except zlib.error as e:
            raise Malformed("zlib: %s" % e)
        if z.unused_data:
            raise Malformed("zlib: unused data")
        return out


def dec_tight(rd, w, h, fmt, conn, png, unjpeg, info):
    """-> (pixels, kind, pieces) ; pieces = list of ('z', streamid, inflated) replacements used by the
    caller to build the decompressed wire image for the Lean decoder"""
    start = rd.o
    c = rd.u8()
    for i in range(4):
        if c & (1 << i):
            conn.tight[i] = zlib.decompressobj()
            info["resets"] = info.get("resets", 0) + 1
    t = c >> 4
    rgb = fmt.tpix_rgb()
    tsz = 3 if rgb else fmt.bytespp
    n = w * h

    def tpix(b):
        return fmt.of_comps(b[0], b[1], b[2]) if rgb else bytes(b)

    def tpixels(data, cnt):
        if len(data) != cnt * tsz:
            raise Malformed("tight: pixel data size %d != %d" % (len(data), cnt * tsz))
        if not rgb:
            return data
        return b"".join(tpix(data[i:i + 3]) for i in range(0, len(data), 3))

    if t == 8:
        info["kind"] = "fill"
        px = tpix(rd.take(tsz)) * n
        return px, rd.b[start:rd.o], None
    if t == 9:
        info["kind"] = "jpeg"
        ln = compact_len(rd)
        data = rd.take(ln)
        rgbimg = unjpeg(data, w, h)
        info["jpeg"] = data
        return rgb8_to_client(rgbimg, fmt), rd.b[start:rd.o], "lossy"
    if t == 10 and png:
        info["kind"] = "png"
        ln = compact_len(rd)
        data = rd.take(ln)
        return rgb8_to_client(png_decode_rgb(data, w, h), fmt), rd.b[start:rd.o], "still"
    nozlib = t in (10, 14)
    if t >= 8 and not nozlib:
        raise Malformed("tight: control %#x" % c)
    if nozlib:
        info["nozlib"] = info.get("nozlib", 0) + 1   # TurboVNC extension, not in the RFB spec
    explicit = bool(t & 4)
    flt = rd.u8() if explicit else 0
    head_end = None

    def data_block(size):
        nonlocal head_end
        head_end = rd.o
        if size < 12:
            return rd.take(size)
        ln = compact_len(rd)
        z = rd.take(ln)
        if nozlib:
            d = z
        else:
            try:
                d = Conn.infl(conn.tight[t & 3], z)
            except Malformed as e:
                if png and ln == size:
                    # defect "TightPng, compression level 0, PNG not usable (8 bpp): data sent raw under a
                    # control byte that announces zlib stream" -- keep parsing under that interpretation
                    info["error"] = "tight basic rectangle announces zlib stream %d but carries %d raw bytes (%s)" % (t & 3, ln, e)
                    info["finding"] = "tightpng-level0-nozlib"
                    conn.tight[t & 3] = zlib.decompressobj()
                    d = z
                else:
                    raise
        if len(d) != size:
            raise Malformed("tight: inflated %d != %d" % (len(d), size))
        return d

    def wire(d):
        # decompressed wire image: header bytes as sent, then compact length of the inflated data + data
        hdr = rd.b[start:head_end]
        if len(d) < 12:
            return hdr + d
        ln = len(d)
        cl = bytes([ln & 0x7F | (0x80 if ln > 0x7F else 0)])
        if ln > 0x7F:
            cl += bytes([(ln >> 7) & 0x7F | (0x80 if ln > 0x3FFF else 0)])
            if ln > 0x3FFF:
                cl += bytes([(ln >> 14) & 0xFF])
        return hdr + cl + d

    if flt == 0:
        info["kind"] = "copy"
        d = data_block(n * tsz)
        return tpixels(d, n), wire(d), None
    if flt == 1:
        nc = rd.u8() + 1
        pal = [tpix(rd.take(tsz)) for _ in range(nc)]
        if nc == 2:
            info["kind"] = "mono"
            rowb = (w + 7) // 8
            d = data_block(rowb * h)
            out = []
            for y in range(h):
                row = d[y * rowb:(y + 1) * rowb]
                for x in range(w):
                    out.append(pal[(row[x >> 3] >> (7 - (x & 7))) & 1])
            return b"".join(out), wire(d), None
        info["kind"] = "indexed"
        d = data_block(n)
        out = []
        for i in d:
            if i >= nc:
                raise Malformed("tight: palette index %d >= %d" % (i, nc))
            out.append(pal[i])
        return b"".join(out), wire(d), None
    if flt == 2:
        info["kind"] = "gradient"
        d = data_block(n * tsz)
        diffs = tpixels(d, n)
        mx = (fmt.rmax, fmt.gmax, fmt.bmax)
        out = []
        prev = [(0, 0, 0)] * w
        bpp = fmt.bytespp
        for y in range(h):
            left = upleft = (0, 0, 0)
            row = []
            for x in range(w):
                dc = fmt.comps(diffs[(y * w + x) * bpp:(y * w + x + 1) * bpp])
                up = prev[x]
                cur = tuple((dc[k] + max(0, min(mx[k], left[k] + up[k] - upleft[k]))) & mx[k] for k in range(3))
                row.append(cur)
                out.append(fmt.of_comps(*cur))
                left, upleft = cur, up
            prev = row
        return b"".join(out), wire(d), None
    raise Malformed("tight: filter %d" % flt)


ENC_NAMES = {0: "raw", 1: "copyrect", 2: "rre", 4: "corre", 5: "hextile", 6: "zlib", 7: "tight", 9: "ultra",
             16: "zrle", 17: "zywrle", 0xFFFFFEFC: "tightpng", 0xFFFFFF20: "lastrect"}


def parse_server_stream(buf, fmt, conn, unlzo, unjpeg, stats, one_update=False):
    """parse everything the server sent during one op.
    -> list of messages; an FBU is ('fbu', [rect dicts]); rect: x,y,w,h,enc,px (client-format pixels,
    or None for lossy where px is approximate with 'lossy': True), dwire (decompressed wire payload
    for the Lean decoder)"""
    rd = Rd(buf)
    msgs = []
    while rd.left():
        t = rd.u8()
        if t == 1:                       # SetColourMapEntries
            rd.u8()
            first, n = rd.u16(), rd.u16()
            msgs.append(("cmap", first, rd.take(n * 6)))
            continue
        if t != 0:
            raise Malformed("%d byte(s) at offset %d belong to no announced rectangle and to no server message (type %d)%s"
                            % (rd.left() + 1, rd.o - 1, t, " - every byte of an update must belong to a rectangle the header announced" if msgs else ""))
        rd.u8()
        nrects = rd.u16()
        rects = []
        i = 0
        while nrects == 0xFFFF or i < nrects:
            x, y, w, h, enc = rd.u16(), rd.u16(), rd.u16(), rd.u16(), rd.u32()
            i += 1
            if enc == 0xFFFFFF20:
                if nrects != 0xFFFF:
                    raise Malformed("LastRect inside a counted update")
                break
            r = {"x": x, "y": y, "w": w, "h": h, "enc": enc, "lossy": False, "still": None}
            name = ENC_NAMES.get(enc, str(enc))
            stats["enc"][name] = stats["enc"].get(name, 0) + 1
            bpp = fmt.bytespp
            st = rd.o
            if enc == 0:
                r["px"] = dec_raw(rd, w, h, bpp)
                r["dwire"] = rd.b[st:rd.o]
            elif enc == 2 or enc == 4:
                r["px"] = dec_rre(rd, w, h, bpp, corre=(enc == 4))
                r["dwire"] = rd.b[st:rd.o]
                r["nsub"] = struct.unpack(">I", rd.b[st:st + 4])[0]
            elif enc == 5:
                r["px"] = dec_hextile(rd, w, h, bpp, stats["hextile"])
                r["dwire"] = rd.b[st:rd.o]
            elif enc == 6:
                z = rd.take(rd.u32())
                raw = Conn.infl(conn.zlib, z)
                if len(raw) != w * h * bpp:
                    raise Malformed("zlib rect inflates to %d, want %d" % (len(raw), w * h * bpp))
                r["px"] = raw
                r["dwire"] = struct.pack(">I", len(raw)) + raw
            elif enc == 9:
                z = rd.take(rd.u32())
                raw = unlzo(z, w * h * bpp)
                if len(raw) != w * h * bpp:
                    raise Malformed("ultra rect decompresses to %d, want %d" % (len(raw), w * h * bpp))
                r["px"] = raw
                r["dwire"] = struct.pack(">I", len(raw)) + raw
            elif enc == 16 or enc == 17:
                z = rd.take(rd.u32())
                data = Conn.infl(conn.zrle, z)
                r["zdata"] = data
                r["dwire"] = struct.pack(">I", len(data)) + data
                if enc == 16:
                    try:
                        r["px"] = dec_zrle_data(data, w, h, fmt, stats["zrle"])
                    except Malformed as e:
                        r["px"] = None
                        r["error"] = "zrle tile data: %s" % e
                        if fmt.bpp == 16 and fmt.gmax <= 31:
                            try:
                                dec_zrle_data(data, w, h, fmt, None, raw15bug=True)
                                r["finding"] = "zrle-15bpp-raw-tile"
                            except Malformed:
                                pass
                else:
                    # ZYWRLE: tiles of sub-encoding 0 are wavelet-coded (not decoded here), all others are
                    # plain ZRLE tiles and must be exact
                    sk = []
                    try:
                        r["px"] = dec_zrle_data(data, w, h, fmt, stats["zrle"], skipped=sk)
                        r["skip"] = sk
                    except Malformed as e:
                        r["px"] = None
                        r["error"] = "zywrle tile data: %s" % e
            elif enc == 7 or enc == 0xFFFFFEFC:
                info = {}
                px, dwire, flag = dec_tight(rd, w, h, fmt, conn, enc != 7, unjpeg, info)
                r["px"], r["dwire"] = px, dwire
                r["lossy"] = flag == "lossy"
                if flag in ("lossy", "still"):
                    r["still"] = px
                if "jpeg" in info:
                    r["jpeg"] = info["jpeg"]
                if "error" in info:
                    r["error"], r["finding"] = info["error"], info.get("finding")
                k = info.get("kind", "?")
                r["tkind"] = k
                stats["tight"][k] = stats["tight"].get(k, 0) + 1
                for kk in ("nozlib", "resets"):
                    if kk in info:
                        stats["tight"][kk] = stats["tight"].get(kk, 0) + info[kk]
            else:
                raise Malformed("unknown encoding %d" % enc)
            rects.append(r)
        msgs.append(("fbu", rects, nrects))
        if one_update and rd.left():
            # one request -> one FramebufferUpdate: every byte of it must belong to a rectangle the header
            # announced (count, or 0xFFFF ... LastRect); what follows is never skipped or re-synchronised
            raise Malformed("%d byte(s) follow the %s rectangle(s) the FramebufferUpdate header announced (first: %s)"
                            % (rd.left(), "LastRect-terminated" if nrects == 0xFFFF else str(nrects), rd.b[rd.o:rd.o + 16].hex()))
    return msgs


def jpeg_tables(data):
    """-> dict(qdc = {table id: DC quantisation step}, comps = [(id, h, v, tq)], w, h) from the JPEG's own
    DQT / SOF0 segments (baseline JPEG as libjpeg-turbo writes it); raises Malformed on anything else"""
    if data[:2] != b"\xff\xd8":
        raise Malformed("jpeg: no SOI")
    o, qdc, comps, dims = 2, {}, None, None
    while o + 4 <= len(data):
        if data[o] != 0xFF:
            raise Malformed("jpeg: marker expected at %d" % o)
        mk = data[o + 1]
        ln = struct.unpack(">H", data[o + 2:o + 4])[0]
        seg = data[o + 4:o + 2 + ln]
        if mk == 0xDB:
            q = 0
            while q < len(seg):
                pq, tq = seg[q] >> 4, seg[q] & 15
                if pq == 0:
                    qdc[tq] = seg[q + 1]
                    q += 65
                else:
                    qdc[tq] = struct.unpack(">H", seg[q + 1:q + 3])[0]
                    q += 129
        elif mk in (0xC0, 0xC1):
            dims = (struct.unpack(">H", seg[3:5])[0], struct.unpack(">H", seg[1:3])[0])
            n = seg[5]
            comps = [(seg[6 + 3 * i], seg[7 + 3 * i] >> 4, seg[7 + 3 * i] & 15, seg[8 + 3 * i]) for i in range(n)]
        elif mk == 0xC2:
            raise Malformed("jpeg: progressive")
        elif mk == 0xDA:
            break
        o += 2 + ln
    if comps is None or not qdc:
        raise Malformed("jpeg: no SOF0/DQT")
    return {"qdc": qdc, "comps": comps, "w": dims[0], "h": dims[1]}
