"""C20 — the built-in HTTP server only serves files below its directory and survives any request.

Proof: lean/VncModel/Props/C20.lean about the executable model lean/VncModel/Httpd/Model.lean
(request accumulation, proxy branch, GET-line parse, query parameters, '..' rejection, index rule,
$-substitution; every literal and buffer size regenerated from httpd.c by tools/consts/c20.{c,py}).
Tie: correspondence run harness/c20.c (the real rfbProcessEvents -> rfbHttpCheckFds ->
httpProcessInput on AF_UNIX listeners inside a sandbox, interposed read/fopen/open/select) against
Driver/C20.lean on generated request scripts: exact comparison of opened paths, response (status
line, length, hash, body hash, $PARAMS region), connection state, plus the direct oracle below which
only uses the property's words.
"""
import json, os, glob, shutil, re
from .. import common

PROPS_MOD = "VncModel.Props.C20"
EXTRA_TARGETS = ["drv_c20"]
BUF = 32768
CORPUS = os.path.join(common.VERIF, "corpus", "C20")

FNV0, FNVP, M64 = 1469598103934665603, 1099511628211, (1 << 64) - 1


def fnv(b):
    h = FNV0
    for x in b:
        h = ((h ^ x) * FNVP) & M64
    return h


def hx(b):
    return bytes(b).hex() if b else "-"


def unhx(s):
    return b"" if s == "-" else bytes.fromhex(s)


# ------------------------------------------------------------------ sandbox content
INDEX = (b"<html>W=$WIDTH H=$HEIGHT AW=$APPLETWIDTH AH=$APPLETHEIGHT P=$PORT D=$DESKTOP DI=$DISPLAY "
         b"U=$USER \x01$PARAMS\x02 $$ $X $WIDTHX $ $$$ $PARAM $WIDT</html>\n")


def sandbox(rng):
    big = bytes((i * 7 + (i >> 8)) & 0xff for i in range(40000))
    # .vnc file longer than one fread chunk, a variable straddling the chunk boundary, a NUL inside
    bigvnc = (b"$PORT " * 20 + b"x" * (BUF - 1 - 120 - 3) + b"$WIDTH" + b"y" * 500 + b"\x00tail $HEIGHT\n" + b"z" * 3000)
    files = {
        b"index.vnc": INDEX, b"a.txt": b"hello a\n", b"sub/b.html": b"<b>b</b>\n", b"sub/index.vnc": b"sub $WIDTH\n",
        b"s.css": b"p{}\n", b"x.js": b"var x;\n", b"p.svg": b"<svg/>\n", b"UP.VNC": b"up $WIDTH\n", b"noext": b"noext\n",
        b"nul.vnc": b"a$WIDTH\x00b$WIDTH\n", b"big.bin": big, b"big.vnc": bigvnc, b"empty": b"", b"d.ir/f": b"f\n",
        b"proxied.connection": b"not a proxy\n", b"q.vnc": b"\x01$PARAMS\x02",
        # substitution edge cases: size 0, exactly one fread chunk (BUF_SIZE-1), BUF_SIZE with a variable name
        # cut by the chunk boundary, "$$" cut by it, files that START with an unknown variable / the escape
        b"empty.vnc": b"", b"ex32767.vnc": b"a" * (BUF - 8) + b"$WIDTH!",
        b"ex32768.vnc": b"a" * (BUF - 6) + b"$WIDTH", b"straddle2.vnc": b"a" * (BUF - 2) + b"$$z$PORT\n",
        b"d.vnc": b"$$ and $X\n", b"e.vnc": b"$X$WIDTH$", b"desk.vnc": b"D=$DESKTOP U=$USER DI=$DISPLAY\n",
    }
    dirs = [b"sub", b"d.ir"]
    return files, dirs


def setup_lines(dirlen, listener, files, dirs):
    l = ["dir %d %d" % (dirlen, listener)]
    for d in dirs:
        l.append("mkdir " + hx(d))
    for p, c in files.items():
        l.append("file %s %s" % (hx(p), hx(c)))
    return l


# ------------------------------------------------------------------ request generators
TERMS = [b"\r\n\r\n", b"\n\n", b"\r\r", b"\n\r\n\r"]
GOOD_PATHS = [b"/", b"/a.txt", b"/sub/b.html", b"/index.vnc", b"/big.bin", b"/big.vnc", b"/s.css", b"/x.js", b"/p.svg",
              b"/UP.VNC", b"/noext", b"/sub", b"/sub/", b"/sub/index.vnc", b"/nul.vnc", b"//a.txt", b"/./a.txt",
              b"/sub/./b.html", b"/sub//b.html", b"/a.txt/", b"/a.txt/.", b"/a.txt/x", b"/nonexist", b"/.", b"/./",
              b"//", b"/empty", b"/d.ir/f", b"/d.ir", b"/proxied.connection", b"/q.vnc", b"/sub/.", b"/S.CSS", b"/x.JS",
              b"/index.vnc/", b"/.vnc", b"/a.vnc", b"/sub/index.vnc?x=y", b"/empty.vnc", b"/ex32767.vnc",
              b"/ex32768.vnc", b"/straddle2.vnc", b"/d.vnc", b"/e.vnc", b"/desk.vnc"]
TRAVERSAL = [b"/../secret", b"/sub/../../secret", b"/..", b"/...", b"/a..b", b"/sub/..", b"/%2e%2e/secret",
             b"/%2e%2e%2fsecret", b"/..%2fsecret", b"/.%2e/secret", b"/?/../secret", b"/a.txt?/../../secret",
             b"/a.txt?x=/../secret", b"\\..\\secret", b"/..\\secret", b"//../secret", b"/./../secret", b"/sub/.../x",
             b"/../../../../../../etc/passwd", b"//etc/passwd", b"/sub/../a.txt", b"/.?./secret", b"/a.txt?..",
             b"/?..", b"/..?", b"/.\t./secret", b"/. ./secret", b"/.%00./secret", b"/\x2e\x2e/secret", b"/a/..",
             b"/index.vnc?a=../../secret", b"/..;/secret", b"/.../.../secret", b"/sub/..%2f..%2fsecret", b"/..\x00/secret"]
QUERIES = [b"?a=b", b"?a=b&c=d", b"?name=x+y", b"?a.b_c:[1]=Z9", b"?", b"?&", b"?a", b"?a=", b"?=b", b"?a=b&", b"?a=b&&c=d",
           b"?a==b", b"?a=b=c", b"?a=<script>", b"?a=\"", b"?a=b;c", b"?a=%41", b"?a=b&c=\x80", b"?a=b?c=d", b"?a=b&c", b"?a=b&c=", b"?a=b&c=d&e",
           b"?a=b&=c", b"?+=+", b"?a=b c", b"?a=\xe9", b"?a=b&c=d&e=f&g=h", b"?A=1&B=2", b"?a='", b"?a=b>", b"?a=b/c",
           b"?a=-", b"?a=b\\", b"?[]=[]", b"?:=:", b"?.=.", b"?_=_", b"?a=b&x", b"?x=\x7f", b"?x=@", b"?x=`", b"?x={",
           b"?x=/", b"?x=0", b"?x=9", b"?x=:", b"?x=;", b"?x=Z", b"?x=[", b"?x=\\", b"?x=]", b"?x=^", b"?x=z", b"?x=~"]


def query_boundaries(rng):
    out = []
    for k in (125, 126, 127, 128, 129):           # param_request[128]
        out.append(b"?" + b"n" * (k - 2) + b"=v")
        out.append(b"?a=b&" + b"n" * (k - 2) + b"=v")
        out.append(b"?" + b"n" * (k - 2) + b"=v&a=b")
        out.append(b"?n=" + b"v" * (k - 2))
    for n in (35, 36, 37, 38, 40):                # params[1024]: "a=b" formats to 27 bytes
        out.append(b"?" + b"&".join([b"a=b"] * n))
    for total in (1021, 1022, 1023, 1024, 1025):   # strlen(result) after the last pair: 1023 is the last that fits
        nv = total - 36 * 27 - 25
        out.append(b"?" + b"&".join([b"a=b"] * 36) + b"&" + b"n" * (nv // 2) + b"=" + b"v" * (nv - nv // 2))
    return out


def first_lines(rng, maxfn):
    """request lines (without terminator)"""
    L = []
    for p in GOOD_PATHS + TRAVERSAL:
        L.append(b"GET " + p + b" HTTP/1.0")
        if rng.random() < 0.3:
            L.append(b"GET " + p)
    for q in QUERIES + query_boundaries(rng):
        L.append(b"GET " + rng.choice([b"/index.vnc", b"/", b"/q.vnc", b"/a.txt"]) + q + b" HTTP/1.1")
    L += [b"GET  /a.txt HTTP/1.0", b"GET\t/a.txt HTTP/1.0", b"GET \t /a.txt HTTP/1.0", b"GET /a.txt\tHTTP/1.0",
          b"get /a.txt HTTP/1.0", b"GET/a.txt HTTP/1.0", b"POST /a.txt HTTP/1.0", b"HEAD / HTTP/1.0", b"PUT /a.txt HTTP/1.1",
          b"OPTIONS * HTTP/1.1", b"DELETE /a.txt HTTP/1.1", b"", b"GET", b"GET ", b"GET  ", b"GET \t", b"GET a.txt HTTP/1.0",
          b"GET http://h/a.txt HTTP/1.0", b"GET * HTTP/1.0", b" GET /a.txt HTTP/1.0", b"GET /a.txt HTTP/9.9", b"GET /a.txt FTP",
          b"GET /\xff\xfe HTTP/1.0", b"GET /a.txt\x85 HTTP/1.0", b"GET \x0b/a.txt", b"GET \x0c/a.txt", b"GET /a.txt\x0bHTTP",
          b"GET /a\x00.txt HTTP/1.0", b"\x00GET / HTTP/1.0", b"GET /a.txt\x00", b"GETGET /a.txt", b"GET /a.txt GET /../secret",
          b"TRACE / HTTP/1.1", b"CONNECT x:5900 HTTP/1.0", b"GET /proxied.connection HTTP/1.0"]
    # GET line length against maxFnameLen = 511 - strlen(httpDir) (line = "GET /" + name)
    for d in (-2, -1, 0, 1, 2):
        n = maxfn + d
        if n >= 6:
            L.append(b"GET /" + b"a" * (n - 5))
            L.append(b"GET /a.txt?" + b"a=" + b"b" * max(0, n - 13))
        if n >= 15:
            L.append(b"GET /" + b"a" * (n - 5 - 9) + b" HTTP/1.0")
            L.append(b"GET /" + b"a" * (n - 5 - 4) + b".vnc")
    return L


def proxy_lines(port):
    P = str(port).encode()
    big = str(port + (1 << 32)).encode() if port >= 0 else str(port - (1 << 32)).encode()
    return [b"CONNECT host:" + P + b" HTTP/1.0", b"CONNECT host:" + P, b"CONNECT nocolon HTTP/1.0", b"CONNECT :" + P,
            b"CONNECT x: " + P, b"CONNECT x:+" + P, b"CONNECT x:\t\n " + P, b"CONNECT x:-1", b"CONNECT x:" + P + b"abc",
            b"CONNECT x:" + big, b"CONNECT x:99999999999999999999", b"CONNECT x:-99999999999999999999", b"CONNECT x:",
            b"CONNECT x:0", b"CONNECT x:00" + P, b"CONNECT x:" + str(port + 1).encode(), b"CONNECT", b"CONNECT ",
            b"connect x:" + P, b"CONNECT x:" + P + b":1", b"CONNECT a:b:" + P, b"CONNECT a\r\nHost: b:" + P,
            b"CONNECT a\r\nHost: b", b"CONNECT x:--" + P, b"CONNECT x:0x10", b"CONNECT x:9223372036854775807",
            b"CONNECT x:9223372036854775808", b"CONNECT x:4294967295", b"CONNECT x:2147483648", b"CONNECT x:-2147483649",
            b"GET /proxied.connection HTTP/1.0", b"GET /proxied.connection HTTP/1.", b"GET /proxied.connection HTTP/1",
            b"GET /proxied.connection", b"GET /proxied.connectionX HTTP/1.0", b"GET noslash", b"GET noslash HTTP",
            b"GET x\r\nX: /proxied.connection HTTP/1.1", b"GET x HTTP/1.0\r\nReferer: /proxied.connection HTTP/1.",
            b"GET  /proxied.connection HTTP/1.0", b"GET x/proxied.connection HTTP/1.0", b"GET /a.txt HTTP/1.0",
            b"GET /a.txt\r\nX: /proxied.connection HTTP/1.0", b"GET\t/proxied.connection HTTP/1.0", b"POST /proxied.connection HTTP/1.0",
            b"GET ", b"GET \x00/proxied.connection HTTP/1.0", b"CONNECT \x00x:" + P, b"GET /", b"GET ?a=b"]


def long_requests(rng):
    """bursts around the size of buf[32768] (read room 32767), with and without a blank line"""
    out = []
    for n in (32765, 32766, 32767, 32768, 32769, 40000, 70000):
        out.append(b"A" * n)                                            # no blank line at all
        out.append(b"GET /a.txt HTTP/1.0\r\nX: " + b"h" * (n - 25))      # still no blank line
    for total in (32764, 32766, 32767, 32768, 32769, 32770, 33000):
        for t in (b"\r\n\r\n", b"\n\n"):                                # blank line ends exactly at `total`
            head = b"GET /a.txt HTTP/1.0\r\nX: "
            out.append(head + b"h" * (total - len(head) - len(t)) + t)
    out.append(b"GET /" + b"a" * 600 + b" HTTP/1.0\r\n\r\n")
    out.append(b"GET /" + b"a" * 33000 + b" HTTP/1.0\r\n\r\n")
    out.append(b"GET /a.txt HTTP/1.0\r\n" + b"H: v\r\n" * 3000 + b"\r\n")
    out.append(b"\n" * 40000)
    out.append(b"\x00" * 100 + b"\n\n")
    out.append(b"GET /a.txt\n\n" + b"B" * 50000)
    return out


def mutate(rng, b):
    b = bytearray(b)
    for _ in range(rng.randint(1, 3)):
        r = rng.random()
        pos = rng.randrange(len(b) + 1)
        if r < 0.35 and b:
            b[pos % len(b)] = rng.choice([0, 9, 10, 13, 32, 36, 38, 43, 46, 47, 58, 61, 63, 0x80, 0xff, rng.randrange(256)])
        elif r < 0.65:
            b[pos:pos] = rng.choice([b"..", b"/", b"?", b"%2e", b"\x00", b"\n", b"\r", b" ", b"&", b"=", b"$", bytes([rng.randrange(256)])])
        elif b:
            del b[pos % len(b)]
    return bytes(b)


def terminator_seen(b):
    s = b[:BUF - 1]
    s = s.split(b"\x00", 1)[0]
    return any(t in s for t in TERMS)


class Case:
    """one `req` op; `group` keeps ops that must stay on one connection together"""
    __slots__ = ("b", "cuts", "end", "race")

    def __init__(self, b, cuts=(), end="keep", race=False):
        self.b, self.cuts, self.end, self.race = bytes(b), tuple(cuts), end, race

    def line(self):
        return "req %s %s %s%s" % (hx(self.b), ",".join(str(c) for c in self.cuts) or "-", self.end,
                                   " race" if self.race else "")


def safe_cuts(proxy, b, cuts):
    """with proxy support on, bytes left unread after the deciding read are handed to the RFB layer;
    only the two forms the model covers are generated there (nothing, or a client version string)"""
    if not proxy or not cuts:
        return cuts
    prev = 0
    for c in list(cuts) + [len(b)]:
        if terminator_seen(b[:c]):
            rest = b[c:]
            if rest and not rest.startswith(b"RFB 003.008\n"):
                return ()
            return cuts
        prev = c
    return cuts


def gen_cases(rng, proxy, port, dirlen, n, focus):
    """-> list of groups (each a list of Case that run consecutively)"""
    maxfn = max(0, 511 - dirlen)
    fl = first_lines(rng, maxfn)
    pl = proxy_lines(port)
    lg = long_requests(rng) if focus == "long" else []
    groups = []

    def term():
        return rng.choice(TERMS) if rng.random() < 0.5 else b"\r\n\r\n"

    def hdrs():
        r = rng.random()
        if r < 0.6:
            return b""
        return rng.choice([b"\r\nHost: localhost:5900", b"\r\nUser-Agent: x/1.0\r\nAccept: */*", b"\r\nX: /../secret",
                           b"\r\nX: a:b/c?d=e&f", b"\nY: z"])

    def one(b, cuts=(), end="keep"):
        groups.append([Case(b, safe_cuts(proxy, b, cuts), end)])

    if focus == "leak":
        # state carried from one request/connection into the next: a .vnc page with valid parameters,
        # then pages that contain $PARAMS requested without '?', with bad parameters, the reverse order, three in a row
        with_q = [b"/index.vnc?password=hunter2&host=internal.example", b"/?password=hunter2", b"/q.vnc?a=b&c=d+e",
                  b"/index.vnc?" + b"&".join([b"k%d=v%d" % (j, j) for j in range(30)]), b"/q.vnc?x=1"]
        no_q = [b"/index.vnc", b"/", b"/q.vnc"]
        bad_q = [b"/index.vnc?x=<script>", b"/q.vnc?", b"/?a", b"/q.vnc?a=b&", b"/index.vnc?" + b"n" * 200 + b"=v"]
        other = [b"/a.txt", b"/a.txt?secret=1", b"/nonexist?s=t", b"/../secret?u=v", b"/sub/index.vnc?w=x"]

        def rq(t):
            return Case(b"GET " + t + rng.choice([b" HTTP/1.0\r\n\r\n", b"\n\n", b" HTTP/1.1\r\nHost: h\r\n\r\n"]))
        for _ in range(n):
            k = rng.random()
            if k < 0.35:
                seq = [rng.choice(with_q), rng.choice(no_q)]
            elif k < 0.5:
                seq = [rng.choice(no_q), rng.choice(with_q), rng.choice(no_q)]
            elif k < 0.65:
                seq = [rng.choice(with_q), rng.choice(bad_q), rng.choice(no_q)]
            elif k < 0.8:
                seq = [rng.choice(with_q), rng.choice(other), rng.choice(no_q)]
            elif k < 0.9:
                seq = [rng.choice(with_q), rng.choice(with_q), rng.choice(no_q), rng.choice(no_q)]
            else:
                seq = [rng.choice(with_q + bad_q + no_q + other) for _ in range(rng.randint(2, 5))]
            groups.append([rq(t) for t in seq])
        return groups
    if focus == "abandon":
        # downloads the peer abandons (gone before the answer, half closed, read error, still there), for files
        # of more than one 32767-byte write, .vnc pages, small files, directories, 404s, refused and proxy requests:
        # the descriptor count must be back at the baseline after every one (observation `leak`)
        tg = [b"/big.bin", b"/big.vnc", b"/a.txt", b"/index.vnc", b"/ex32768.vnc", b"/straddle2.vnc", b"/nonexist",
              b"/../secret", b"/sub", b"/empty", b"/d.vnc"]
        for rep in range(2):
            for t_ in tg:
                for e_ in ("full", "half", "reset", "keep"):
                    one(b"GET " + t_ + b" HTTP/1.0\r\n\r\n", (), e_)
                one(b"GET " + t_ + b"\n\n", (5,), "full")
        if proxy:
            P = str(port).encode()
            for e_ in ("full", "half", "keep"):
                one(b"CONNECT h:" + P + b"\r\n\r\n", (), e_)
                one(b"GET /proxied.connection HTTP/1.0\r\n\r\n", (), e_)
                one(b"CONNECT h:1\r\n\r\n", (), e_)
            b_ = b"CONNECT h:" + P + b"\r\n\r\n"
            one(b_ + b"RFB 003.008\n", (len(b_),), "half")
            # the application's newClientHook refuses the proxied client: one teardown, one close
            g_ = ["hook refuse"]
            for rq_ in (b_, b"GET /proxied.connection HTTP/1.0\r\n\r\n"):
                g_ += [Case(rq_ + b"RFB 003.008\n", (len(rq_),), "keep"), Case(rq_, (), "keep"), Case(rq_, (), "half"),
                       Case(rq_, (), "full"), Case(b"GET /a.txt\n\n")]
            groups.append(g_ + ["hook accept", Case(b_ + b"RFB 003.008\n", (len(b_),), "keep")])
        return groups
    if focus == "fname":
        # the name written behind httpDir in fullFname[512]: every name length around the room that is left,
        # in every request-line form sscanf accepts (version, no version, short tails, trailing blanks)
        tails = [b" HTTP/1.0", b" HTTP/1.1", b"", b" x", b"   ", b"\tHTTP/1.0", b" H", b" HTTP/1."]
        for dlt in range(-12, 13):
            L = maxfn + dlt
            if L < 2:
                continue
            for tl in tails:
                one(b"GET /" + b"a" * (L - 1) + tl + b"\r\n\r\n")
            one(b"GET  /" + b"b" * (L - 1) + b"\n\n")
            one(b"GET /" + b"c" * max(0, L - 6) + b"?x=y1" + b"\n\n")
        return groups
    if focus == "subst":
        # every $-variable under several desktop names / USER settings (also unset), every edge-case .vnc file,
        # peers that are gone before / while the page is expanded
        vnc = [b"/index.vnc", b"/", b"/q.vnc", b"/nul.vnc", b"/big.vnc", b"/empty.vnc", b"/ex32767.vnc", b"/ex32768.vnc",
               b"/straddle2.vnc", b"/d.vnc", b"/e.vnc", b"/desk.vnc", b"/UP.VNC", b"/sub/index.vnc"]
        envs = [(b"verif desk", b"vuser"), (b"a$WIDTH<b>&\"'$$", None), (b"$PARAMS$", b"<u>$USER"), (b"", b""),
                (b"D" * 300, b"u" * 100), (b"\xc3\xa9 caf\xe9", b"root")]
        for dsk, usr in envs:
            groups.append(["env %s %s" % (hx(dsk), "none" if usr is None else hx(usr))] +
                          [Case(b"GET " + v + rng.choice([b"", b"?a=b", b"?x=1&y=2+3"]) + b" HTTP/1.0\r\n\r\n",
                                (), e)
                           for v in vnc for e in (["keep"] + ([rng.choice(["full", "half"])] if rng.random() < 0.4 else []))] +
                          [Case(b"GET " + v + b"\n\n", (), "full") for v in (b"/d.vnc", b"/e.vnc", b"/index.vnc")])
        groups.append(["env %s %s" % (hx(b"verif desk"), hx(b"vuser"))])
        return groups
    if focus == "accept":
        # rfbHttpCheckFds: both listeners, a second connection while one is open (idle, pending, with unread input
        # = one call handles input and accept), proxy hand-over followed by a new connection
        reqs = [b"GET /a.txt HTTP/1.0\r\n\r\n", b"GET /a.tx", b"", b"POST / HTTP/1.0\r\n\r\n", b"GET /../secret\n\n",
                b"GET /index.vnc?a=b\n\n", b"A" * 40000]
        if proxy:
            reqs += [b"CONNECT h:" + str(port).encode() + b"\r\n\r\n", b"GET /proxied.connection HTTP/1.0\r\n\r\n",
                     b"CONNECT h:1\r\n\r\n"]
        for l in (4, 6, 4, 6):
            g = ["listener %d" % l]
            for b in reqs:
                g += [Case(b, (), "keep", race=True), Case(b"GET /a.txt\n\n")]
                g += [Case(b[:max(0, len(b) // 2)]), "newconn", Case(b"GET /s.css\n\n"), "newconn", "newconn", "hangup"]
                g += ["listener %d" % (10 - l), Case(b, (), rng.choice(["keep", "half", "reset"])), "listener %d" % l]
            groups.append(g)
        return groups
    if focus == "long":
        # deterministic core: headers of BUF_SIZE-2 .. BUF_SIZE+1 bytes without a blank line: one burst, many
        # short reads, two bursts; the same with the blank line as the last bytes that still fit / no longer fit
        head = b"GET /a.txt HTTP/1.0\r\nX: "
        for n_ in (BUF - 2, BUF - 1, BUF, BUF + 1):
            for b in (head + b"h" * (n_ - len(head)), b"\x00" + b"q" * (n_ - 1),
                      head + b"h" * (n_ - len(head) - 2) + b"\n\n"):
                one(b)
                one(b, tuple(range(1024, len(b), 1024)))
                one(b, tuple(range(1, 200)))
                one(b, (), "half")
                one(b, (), "reset")
                k = rng.randrange(1, len(b))
                groups.append([Case(b[:k]), Case(b[k:])])
                groups.append([Case(b[:BUF - 1]), Case(b[BUF - 1:] + b"\r\n\r\n")])
        for b in lg:
            one(b)
            if len(b) > 100:
                k = rng.randrange(1, len(b))
                one(b, (k,))
                one(b, tuple(sorted(rng.sample(range(1, len(b)), 3))))
                one(b, (), "half")
        return groups
    if focus == "seg":
        # all 1-cut segmentations (short read inside one call; EAGAIN between two calls) and early
        # closes at every prefix, for a few requests
        base = [b"GET /a.txt HTTP/1.0\r\n\r\n", b"GET /index.vnc?a=b HTTP/1.1\r\nHost: x\r\n\r\n", b"GET /../secret\n\n",
                b"POST / HTTP/1.0\r\n\r\n"]
        if proxy:
            base += [b"CONNECT h:" + str(port).encode() + b" HTTP/1.0\r\n\r\nRFB 003.008\n", b"GET noslash\n\n",
                     b"CONNECT nocolon\r\n\r\n"]
        b = base[rng.randrange(len(base))]
        body_end = len(b) - (12 if b.endswith(b"RFB 003.008\n") else 0)
        for k in range(1, len(b)):
            one(b, (k,))
        for k in range(1, body_end + 1):
            groups.append([Case(b[:k], (), "keep"), Case(b[k:body_end], (), "keep")] if k < body_end else [Case(b[:k])])
            one(b[:k], (), "half")
            one(b[:k], (), "full")
        return groups
    for _ in range(n):
        r = rng.random()
        if proxy and r < 0.35:
            line = rng.choice(pl)
            b = line + hdrs() + term()
            if rng.random() < 0.5:
                one(b + b"RFB 003.008\n", (len(b),))      # client version follows: no 100 ms WebSocket probe wait
            else:
                one(b, (), rng.choice(["keep", "keep", "half", "full"]))
        elif r < 0.80:
            line = rng.choice(fl)
            if rng.random() < 0.2:
                line = mutate(rng, line)
            b = line + hdrs() + (term() if rng.random() < 0.93 else b"")
            rr = rng.random()
            if rr < 0.55 or len(b) < 3:
                one(b, (), rng.choice(["keep"] * 5 + ["half", "full", "reset"]))
            elif rr < 0.8:
                k = sorted(rng.sample(range(1, len(b)), min(len(b) - 1, rng.randint(1, 4))))
                one(b, k, rng.choice(["keep", "keep", "half"]))
            else:
                k = rng.randrange(1, len(b))          # two bursts: the server forgets the first one
                groups.append([Case(b[:k]), Case(b[k:], (), rng.choice(["keep", "half"]))])
        elif r < 0.90:
            b = bytes(rng.randrange(256) for _ in range(rng.choice([1, 4, 20, 200]))) + (term() if rng.random() < 0.7 else b"")
            one(b, (), rng.choice(["keep", "half", "full"]))
        else:
            b = mutate(rng, rng.choice(pl if proxy else fl) + term())
            one(b, (), "keep")
    return groups


def build_script(rng, proxy, port, dirlen, listener, groups, boot=None):
    files, dirs = sandbox(rng)
    lines = (["boot " + boot] if boot else []) + setup_lines(dirlen, listener, files, dirs) + ["cfg %d %d" % (proxy, port)]
    meta = [None] * len(lines)
    for g in groups:
        for i, c in enumerate(g):
            lines.append(c.line() if isinstance(c, Case) else c)
            meta.append(c if isinstance(c, Case) else None)
        if not isinstance(g[-1], Case):
            continue
        if rng.random() < 0.1:
            lines.append(rng.choice(["hangup", "newconn"]))
            meta.append(None)
        elif not terminator_seen(g[-1].b) and g[-1].end == "keep":
            if rng.random() < 0.5:          # leave some pending connections to the next request / newconn
                lines.append(rng.choice(["hangup", "newconn"]))
                meta.append(None)
    lines.append("hangup")
    meta.append(None)
    return {"script": "\n".join(lines) + "\n", "meta": meta, "proxy": proxy, "port": port, "dirlen": dirlen,
            "files": files, "dirs": dirs}


# ------------------------------------------------------------------ direct oracle (no model)
STATUS = {b"HTTP/1.0 200 OK": 200, b"HTTP/1.0 404 Not found": 404, b"HTTP/1.0 400 Invalid Request": 400}
PROXY_OK = b"HTTP/1.0 200 OK\r\nContent-Type: octet-stream\r\nPragma: no-cache\r\n\r\n"
# "harmless": printable ASCII without the bytes that could leave the quoted HTML attribute or start markup
PARAM_RE = re.compile(rb'(<PARAM NAME="[^\x00-\x1f\x7f-\xff<>"\'&\\`]*" VALUE="[^\x00-\x1f\x7f-\xff<>"\'&\\`]+">\n)*\Z')


def lexical_inside(rel):
    """rel = opened path minus the directory prefix; does it stay below the directory lexically?"""
    if rel and not rel.startswith(b"/"):
        return False
    depth = 0
    for c in rel.split(b"/"):
        if c in (b"", b"."):
            continue
        if c == b"..":
            depth -= 1
            if depth < 0:
                return False
        else:
            depth += 1
    return True


def valid_get(seen):
    """the property's 'a GET for a file under the directory': loose, independent of the model"""
    s = seen.split(b"\x00", 1)[0]
    if not s.startswith(b"GET "):
        return None
    line = re.split(rb"[\r\n]", s, 1)[0]
    m = re.match(rb"GET[ \t\x0b\x0c]+([^ \t\x0b\x0c]+)", line)
    if not m:
        return None
    target = m.group(1)
    path = target.split(b"?", 1)[0]
    if not path.startswith(b"/") or b".." in path:
        return None
    return path


def query_of(seen):
    """query string of the request target (bytes after the first '?'), None when there is no '?'"""
    s = seen.split(b"\x00", 1)[0]
    line = re.split(rb"[\r\n]", s, 1)[0]
    m = re.match(rb"GET[ \t\x0b\x0c]+([^ \t\x0b\x0c]+)", line)
    if not m or b"?" not in m.group(1):
        return None
    return m.group(1).split(b"?", 1)[1]


def pairs_of(q):
    """name/value pairs a query string can legitimately contribute to $PARAMS ('+' shown as ' ')"""
    out = set()
    if q is None:
        return out
    for seg in q.split(b"&"):
        i = seg.find(b"=", 1)
        if i >= 1:
            out.add((seg[:i].replace(b"+", b" "), seg[i + 1:].replace(b"+", b" ")))
    return out


PAIR_RE = re.compile(rb'<PARAM NAME="([^"]*)" VALUE="([^"]*)">\n')


def params_from_this_request(region, candidates):
    """is the $PARAMS region made only of pairs of THIS request's query (one of the readings of it)?"""
    got = PAIR_RE.findall(region)
    if b"".join(b'<PARAM NAME="%s" VALUE="%s">\n' % g for g in got) != region:
        return False
    return any(all(g in pairs_of(q) for g in got) for q in candidates)


SIMPLE_SEG = re.compile(rb"[A-Za-z0-9_.:\[\]+]+=[A-Za-z0-9_.:\[\]+]+\Z")


def documented_params(q):
    """what $PARAMS must be for a plainly well-formed query (None: not plainly well-formed, no claim)"""
    if q is None:
        return b""
    out = b""
    for seg in q.split(b"&"):
        if len(seg) > 100 or not SIMPLE_SEG.match(seg):
            return None
        n, v = seg.split(b"=", 1)
        out += b'<PARAM NAME="%s" VALUE="%s">\n' % (n.replace(b"+", b" "), v.replace(b"+", b" "))
    return out if len(out) <= 1000 else None


def documented_subst(c, env, params):
    """the documented $-substitution of a .vnc page (one fread chunk, no NUL), written from the comments in
    httpd.c / the classic index.vnc: first match in the order WIDTH HEIGHT APPLETWIDTH APPLETHEIGHT PORT DESKTOP
    DISPLAY USER PARAMS, "$$" -> "$", any other "$" stays; inserted text is not looked at again"""
    table = [(b"$WIDTH", b"%d" % env["w"]), (b"$HEIGHT", b"%d" % env["h"]), (b"$APPLETWIDTH", b"%d" % env["w"]),
             (b"$APPLETHEIGHT", b"%d" % (env["h"] + 32)), (b"$PORT", b"%d" % env["port"]), (b"$DESKTOP", env["desktop"]),
             (b"$DISPLAY", env["host"] + b":%d" % (env["port"] - 5900)),
             (b"$USER", env["user"] if env["user"] is not None else b"?"), (b"$PARAMS", params)]
    out, i = bytearray(), 0
    while i < len(c):
        if c[i] != 0x24:
            out.append(c[i])
            i += 1
            continue
        for name, val in table:
            if c.startswith(name, i):
                out += val
                i += len(name)
                break
        else:
            out.append(0x24)
            i += 2 if c.startswith(b"$$", i) else 1
    return bytes(out)


def parse_ob(ob):
    d = {}
    for t in ob.split():
        if "=" in t:
            k, v = t.split("=", 1)
            d[k] = v
    return d


def content_of(files, dirs, rel):
    comps = [c for c in rel.split(b"/") if c not in (b"", b".")]
    key = b"/".join(comps)
    if key in files and not (rel.endswith(b"/") or rel.endswith(b"/.")):
        return files[key]
    return None


def oracle(sc, impl):
    """-> first violation of the property's words on the implementation's observations, or None"""
    ops = [l for l in sc["script"].splitlines() if l]
    proxy = sc["proxy"]
    hist = b""          # bytes sent on the current connection before this burst
    env = {"w": 16, "h": 8, "port": sc["port"], "desktop": b"verif desk", "host": b"vhost", "user": b"vuser"}
    for i, (op, ob) in enumerate(zip(ops, impl)):
        t = op.split()
        if t[0] in ("newconn", "hangup"):
            hist = b""
        if t[0] == "cfg" and ob == "ok":
            env["port"] = int(t[2])
        if t[0] == "env" and ob == "ok":
            env["desktop"], env["user"] = unhx(t[1]), (None if t[2] == "none" else unhx(t[2]))
        if t[0] == "cfg":
            proxy = int(t[1])
        if t[0] == "dir" and "sigpipe=" in ob and "sigpipe=ign" not in ob:
            return ("op %d: the HTTP server is accepting connections while SIGPIPE is not ignored (%s): the first "
                    "peer that goes away during a reply kills the process" % (i, ob))
        if "rfb=dead" in ob:
            return "op %d: the concurrently connected RFB client is no longer served after %r" % (i, op[:80])
        if t[0] != "req":
            continue
        if ob in ("bad-op", "no-conn", "short-write"):
            return "op %d: harness could not run the request: %s" % (i, ob)
        d = parse_ob(ob)
        if d.get("badclose", "0") != "0":
            return ("op %d: while this request was served the server called close() %s time(s) on a descriptor "
                    "that is not open (a socket closed twice: the number may meanwhile belong to somebody else)"
                    % (i, d["badclose"]))
        if d.get("leak", "0") != "0":
            return ("op %d: %s descriptor(s) still open after the request was finished (beyond the live HTTP "
                    "connection): every such request costs the server process a file descriptor" % (i, d["leak"]))
        b = unhx(t[1])
        seen = b[:BUF - 1]
        whole = (hist + b)[:BUF - 1]      # a server that kept earlier bursts would decide on this
        hist = hist + b if d["conn"] == "open" else b""
        opened = [] if d["open"] == "-" else d["open"].split(",")
        for p in opened:
            if p[0] != "W":
                return "op %d: opened a path outside the HTTP directory: %r" % (i, unhx(p[1:]))
            if not lexical_inside(unhx(p[1:])):
                return "op %d: opened path leaves the HTTP directory: <dir>%r" % (i, unhx(p[1:]))
        if d["real"] == "out":
            return "op %d: an opened path resolves (realpath) outside the HTTP directory" % i
        if int(d["wait"]) > (100 if (d["conn"] == "handed" or proxy) else 0):   # 100 ms = WebSocket probe of a hand-over
            return "op %d: serving the HTTP request waited %s ms in select" % (i, d["wait"])
        if d["conn"] == "handed" and not proxy:
            return "op %d: connection handed to the RFB server although proxy support is off" % i
        if t[3] == "full":
            vg = valid_get(seen) if terminator_seen(b) else None
            if vg is None and terminator_seen(whole):
                vg = valid_get(whole)
            if opened and vg is None:
                return "op %d: file opened for something that is not a GET of a path below the directory" % i
            if d["conn"] == "open":
                return "op %d: connection still open after the peer closed" % i
            continue
        resp = unhx(d["resp"])
        if resp and resp not in STATUS:
            return "op %d: unexpected response %r" % (i, resp)
        st = STATUS.get(resp, 0)
        complete = terminator_seen(b)
        vg = valid_get(seen) if complete else None
        if vg is None and terminator_seen(whole):
            vg = valid_get(whole)
        is_proxy_answer = int(d["len"]) >= len(PROXY_OK) and d["conn"] == "handed" or \
            (int(d["len"]) == len(PROXY_OK) and int(d["hash"], 16) == fnv(PROXY_OK)) or \
            (int(d["len"]) == len(PROXY_OK) + 12 and int(d["hash"], 16) == fnv(PROXY_OK + b"RFB 003.008\n"))
        if is_proxy_answer and not proxy:
            return "op %d: proxy request honoured although proxy support is off" % i
        if is_proxy_answer:
            s = seen.split(b"\x00", 1)[0]
            if not (s.startswith(b"CONNECT ") or b"/proxied.connection HTTP/1." in s):
                return "op %d: proxy connection granted to a request that is neither CONNECT nor /proxied.connection" % i
            if opened:
                return "op %d: proxy request opened a file" % i
            continue
        if st == 200:
            if vg is None:
                return "op %d: 200 OK for a request that is not a GET of a path below the directory" % i
            if len(opened) != 1:
                return "op %d: 200 OK but opened %r" % (i, opened)
            want = unhx(opened[0][1:])       # confinement of this path was checked above
            c = content_of(sc["files"], sc["dirs"], want)
            if not want.endswith(b".vnc"):
                exp = fnv(c if c is not None else b"")
                if int(d["bhash"], 16) != exp:
                    return "op %d: body is not the content of the opened file %r" % (i, want)
            if d["par"] != "-" and c is not None and c.count(b"\x01") == 1 and b"\x01$PARAMS\x02" in c:
                region = unhx(d["par"][1:])
                if not PARAM_RE.match(region):
                    return "op %d: $PARAMS expansion leaves the harmless alphabet: %r" % (i, region)
                cands = [query_of(seen)] + ([query_of(whole)] if whole != seen and terminator_seen(whole) else [])
                if not params_from_this_request(region, cands):
                    return ("op %d: $PARAMS expansion is not derived from this request's query %r "
                            "(state of another request leaks into this answer): %r" % (i, cands[0], region))
                docs = [documented_params(q) for q in cands]
                if None not in docs and region not in docs:
                    return ("op %d: $PARAMS expansion %r is not the documented one %r for the well-formed query %r"
                            % (i, region, docs[0], cands[0]))
            if want.endswith(b".vnc") and c is not None and len(c) <= BUF - 1 and b"\x00" not in c:
                marked = c.count(b"\x01") == 1 and b"\x01$PARAMS\x02" in c and c.count(b"$PARAMS") == 1
                pv = None
                if b"$PARAMS" not in c:
                    pv = b""
                elif marked and d["par"] != "-":
                    pv = unhx(d["par"][1:])
                elif query_of(seen) is None and query_of(whole) is None:
                    pv = b""
                if pv is not None and int(d["bhash"], 16) != fnv(documented_subst(c, env, pv)):
                    return ("op %d: body of %r is not the page with the documented $-substitutions "
                            "(width 16, height 8, port %d, desktop %r, user %r)"
                            % (i, want, env["port"], env["desktop"], env["user"]))
        else:
            if opened and vg is None:
                return "op %d: file opened for something that is not a GET of a path below the directory" % i
            if opened and st != 404:
                return "op %d: file opened but neither served nor answered 404" % i
        if complete and terminator_seen(whole) and d["conn"] == "open":
            return "op %d: complete request: connection neither closed nor handed over (response %r)" % (i, resp)
        if len(t) == 5:
            hist = b""                      # race: the server's current connection is a fresh one
        if (t[3] == "half" or (t[3] == "reset" and b)) and d["conn"] == "open":
            return "op %d: connection still open after the peer finished" % i
        if st and d["conn"] != "closed":
            return "op %d: connection not closed after the response" % i
    if len(impl) != len(ops):
        return "observation count %d != ops %d" % (len(impl), len(ops))
    return None


# ------------------------------------------------------------------ slow reader (harness only, virtual time)
STALL_BOUND_MS = 20000      # rfbMaxClientWait: what one stuck rfbWriteExact may cost


def slow_script(rng):
    """a peer that requests a file and never reads the answer (server send buffer minimal); the time
    rfbWriteExact would sleep is accounted virtually by the interposed select"""
    files, dirs = sandbox(rng)
    files = dict(files)
    files[b"many.vnc"] = b"f" * 6000 + b"$PORT " * 200 + b"$WIDTH$HEIGHT$USER" * 50 + b"\n"
    lines = setup_lines(80, rng.choice([4, 6]), files, dirs) + ["cfg 0 5900"]
    targets = [b"/a.txt", b"/big.bin", b"/big.vnc", b"/many.vnc", b"/index.vnc", b"/nonexist", b"/../secret"]
    rng.shuffle(targets)
    for t in targets:
        lines.append("slowreq " + hx(b"GET " + t + b" HTTP/1.0\r\n\r\n"))
        lines.append("req %s - keep" % hx(b"GET /a.txt HTTP/1.0\r\n\r\n"))     # and the server still works
    return {"script": "\n".join(lines) + "\n", "origin": "gen:slow", "proxy": 0, "port": 5900, "dirlen": 80,
            "files": files, "dirs": dirs}


def run_slow(ctx, sc, h, env, dist):
    """-> failure or None"""
    rc, impl, err = ctx.run_lines(h, sc["script"], timeout=300, env=env)
    ops = [l for l in sc["script"].splitlines() if l]
    if rc != 0:
        return {"kind": "crash", "what": "httpd.slowreader: harness exit %d" % rc, "script": ops[-30:],
                "impl": impl[-10:], "detail": err}
    for i, (op, ob) in enumerate(zip(ops, impl)):
        t = op.split()
        if t[0] != "slowreq":
            if "rfb=dead" in ob:
                return {"kind": "oracle", "what": "C20 oracle", "script": ops, "impl": impl,
                        "detail": "op %d: RFB client no longer served after a non-reading HTTP peer" % i}
            continue
        d = parse_ob(ob)
        if "vstall" not in d:
            return {"kind": "oracle", "what": "C20 oracle", "script": ops, "impl": impl,
                    "detail": "op %d: harness could not run slowreq: %s" % (i, ob)}
        if d.get("leak", "0") != "0":
            return {"kind": "oracle", "what": "C20 oracle (descriptor leak)",
                    "script": [l for l in ops[:i + 1] if not l.startswith(("slowreq", "req")) or l == op], "impl": [ob],
                    "detail": "op %d: %s descriptor(s) still open after a download was abandoned by a peer that "
                              "does not read" % (i, d["leak"])}
        v = int(d["vstall"])
        dist["virtual_stall_ms"][unhx(t[1]).split()[1].decode("latin1")] = v
        if v > STALL_BOUND_MS:
            return {"kind": "oracle", "what": "C20 oracle (stall)", "script": ops[:i + 1][-3:] if False else
                    [l for l in ops[:i + 1] if not l.startswith(("slowreq", "req")) or l == op],
                    "impl": [ob],
                    "detail": "op %d: a peer that does not read its answer stalls the (single-threaded) RFB service for "
                              "%d ms of select time in ONE request; one stuck write may cost rfbMaxClientWait = %d ms"
                              % (i, v, STALL_BOUND_MS)}
        if d["conn"] != "closed" or d["rfb"] != "ok":
            return {"kind": "oracle", "what": "C20 oracle", "script": ops, "impl": impl,
                    "detail": "op %d: after a non-reading peer: %s" % (i, ob)}
    if len(impl) != len(ops):
        return {"kind": "oracle", "what": "C20 oracle", "script": ops, "impl": impl[-5:],
                "detail": "slow script: %d observations for %d ops" % (len(impl), len(ops))}
    return None


# ------------------------------------------------------------------ run
def shrink(ctx, sc, h, d, f, env):
    """reduce a failing script to its setup + the one (group of) request(s) that fails"""
    lines = sc["script"].splitlines()
    nset = next(i for i, l in enumerate(lines) if l.startswith("cfg")) + 1
    bad = f.get("line")
    if f["kind"] == "crash":
        bad = len(f.get("impl_all", []))
    if bad is None or bad < nset or bad >= len(lines):
        return f
    for back in (0, 1, 2, 3, 4, 6, 10, 20, 40, 80):
        if bad - back < nset:
            break
        small = "\n".join(lines[:nset] + lines[bad - back:bad + 1]) + "\n"
        impl, model, f2 = common.compare_streams(ctx, small, h, d, f["what"], env=env)
        sc2 = dict(sc, script=small)
        if f2 is None and f["kind"] == "oracle":
            o = oracle(sc2, impl)
            if o:
                f2 = dict(f, detail=o, script=small.splitlines(), impl=impl)
        if f2 is not None and f2["kind"] == f["kind"]:
            f2["shrunk_from_ops"] = len(lines)
            return f2
    return f


def classify(ob):
    d = parse_ob(ob)
    if "conn" not in d:
        return "other"
    r = unhx(d["resp"]) if d.get("resp", "-") != "-" else b""
    st = STATUS.get(r, 0)
    if d["conn"] == "handed":
        return "proxy-handed"
    if d["conn"] == "open":
        return "pending"
    if st == 200:
        return "200"
    if st:
        return str(st) + ("+open" if d["open"] != "-" else "")
    return "close-silent"


def run(ctx):
    env = {"VERIF_C20_TMP": "/tmp/verif-c20-%d-%d" % (os.getpid(), ctx.seed)}
    os.makedirs(env["VERIF_C20_TMP"], exist_ok=True)
    try:
        return _run(ctx, env)
    finally:
        shutil.rmtree(env["VERIF_C20_TMP"], ignore_errors=True)


def _run(ctx, env):
    h = ctx.harness("c20")
    d = ctx.driver("drv_c20")
    rng = ctx.rng
    scripts = []
    if ctx.replay:
        rec = json.load(open(ctx.replay))
        scripts.append(script_from_text("\n".join(rec.get("script", [])) + "\n", "replay"))
    else:
        for p in sorted(glob.glob(os.path.join(CORPUS, "*.ops"))):
            scripts.append(script_from_text(open(p).read(), "corpus:" + os.path.basename(p)))
        quick = ctx.tier == "quick"
        dirlens = [70, 100, 200, 250, 254, 255, 256, 300, 511, 512, 600]
        plan = []
        for proxy in (0, 1):
            for dl in dirlens:
                plan.append((proxy, dl, "mix"))
        for proxy in (0, 1):
            for k in range(4 if quick else 12):
                plan.append((proxy, rng.choice([70, 255]), "seg"))
            plan.append((proxy, rng.choice([70, 200]), "leak"))
            plan.append((proxy, rng.choice([70, 150]), "subst"))
            plan.append((proxy, rng.choice([70, 120]), "abandon"))
            plan.append((proxy, [70, 255][proxy], "fname"))
            plan.append((proxy, rng.choice([100, 200, 254]), "fname"))
            plan.append((proxy, rng.choice([70, 254]), "accept"))
            plan.append((proxy, 80, "long"))
            plan.append((proxy, 255, "long"))
        for k in range(10 if quick else 150):
            plan.append((rng.randint(0, 1), rng.choice(dirlens + [rng.randint(64, 260)]), "mix"))
        for proxy, dl, focus in plan:
            port = rng.choice([5900, 5900, 5901, 0, -1, 65535, 80])
            groups = gen_cases(rng, proxy, port, dl, 90 if quick else 160, focus)
            rng.shuffle(groups)
            # start-up variant: default screen, or through rfbInitServer with the RFB port occupied (rfbInitSockets
            # leaves early, the HTTP server comes up all the same); deterministic for the abandoned downloads
            boot = "busy" if focus == "abandon" else rng.choice([None, None, "plain", "busy"])
            sc = build_script(rng, proxy, port, dl, rng.choice([4, 6]), groups, boot)
            sc["origin"] = "gen:%s" % focus
            scripts.append(sc)

    slow = [sc for sc in scripts if "slowreq" in sc["script"]]
    scripts = [sc for sc in scripts if "slowreq" not in sc["script"]]
    if not ctx.replay:
        slow += [slow_script(rng) for _ in range(1 if ctx.tier == "quick" else 4)]
    results = common.pmap(lambda sc: common.compare_streams(ctx, sc["script"], h, d, "httpd.request", env=env,
                                                            timeout=300), scripts)
    fails, samples, seen = [], [], set()
    dist = {"outcome": {}, "end": {}, "cuts": {}, "reqlen": {}, "proxy": {}, "dirlen": {}, "focus": {}, "ops": {},
            "virtual_stall_ms": {}}
    evals = 0
    for sc in slow:
        f = run_slow(ctx, sc, h, env, dist)
        evals += sc["script"].count("slowreq ")
        if f:
            f["origin"] = sc.get("origin")
            fails.append(f)

    def bump(k, v):
        dist[k][str(v)] = dist[k].get(str(v), 0) + 1

    for sc, (impl, model, f) in zip(scripts, results):
        ops = [l for l in sc["script"].splitlines() if l]
        bump("focus", sc.get("origin", "?").split(":")[0] + ":" + sc.get("origin", "?").split(":")[-1][:12])
        bump("dirlen", sc["dirlen"])
        for op, ob in zip(ops, impl):
            t = op.split()
            bump("ops", t[0])
            if t[0] != "req":
                continue
            evals += 1
            b = unhx(t[1])
            bump("outcome", classify(ob))
            bump("end", t[3])
            bump("cuts", 0 if t[2] == "-" else min(5, t[2].count(",") + 1))
            bump("reqlen", "<64" if len(b) < 64 else "<512" if len(b) < 512 else "<4096" if len(b) < 4096 else
                 "<32767" if len(b) < BUF - 1 else ">=32767")
            bump("proxy", sc["proxy"])
            if terminator_seen(b):
                seen.add((sc["proxy"], sc["port"], sc["dirlen"], t[1], t[2], t[3]))
        # the model-independent oracle first: a concrete counterexample outranks model/code drift
        if not (f and f["kind"] == "crash"):
            o = oracle(sc, impl)
            if o:
                ff = {"kind": "oracle", "what": "C20 oracle", "detail": o, "script": sc["script"].splitlines()[:400],
                      "impl": impl[-5:], "origin": sc.get("origin")}
                m = re.match(r"op (\d+):", o)
                if m:
                    ff["line"] = int(m.group(1))
                    ff = shrink(ctx, sc, h, d, ff, env)
                    ff["origin"] = sc.get("origin")
                fails.append(ff)
        if f:
            if f["kind"] == "crash":
                f["impl_all"] = impl
            f["origin"] = sc.get("origin")
            f2 = shrink(ctx, sc, h, d, f, env)
            f2.pop("impl_all", None)
            annotate_crash(f2)
            f2["origin"] = sc.get("origin")
            tag_finding(f2)
            fails.append(f2)
        if len(samples) < 3 and sc.get("origin", "").startswith("gen"):
            k = next(i for i, l in enumerate(ops) if l.startswith("cfg"))
            samples.append({"script": [l[:200] for l in ops[k:k + 6]], "impl": impl[k:k + 6]})
        if len(fails) >= 6:
            break
    return {
        "evaluations": evals, "distinct_nontrivial": len(seen),
        "rule": "one evaluation = one request burst served by the real httpProcessInput and by the model; "
                "non-trivial = distinct (proxy, port, dirlen, bytes, cuts, end) whose bytes contain a blank line "
                "inside the 32767-byte window, so that the request parser (not only the accumulation loop) ran",
        "samples": samples, "distribution": dist, "failures": fails,
        "partial": [
            "stall: a peer that stops reading its response blocks the single-threaded server for up to "
            "rfbMaxClientWait (20 s) per rfbWriteExact, i.e. per write, not per request (DESIGN C20/C04); the "
            "witness RFB client is checked after every request with a reading peer only",
            "the RFB/WebSocket layer that takes over a proxied connection (rfbNewClient, webSocketsCheck) is "
            "exercised only with an immediately following 'RFB 003.008' or silence (C04/C09 territory)",
            "segmentation across calls: the code forgets bytes received before an EAGAIN (buf_filled = 0 at "
            "every call); the theorems state exactly this, they do not claim such requests are answered",
        ],
        "assumptions": [
            "symlink-free tree below httpDir (lexical confinement = real confinement)",
            "read() with count 0 returns 0 (Linux sockets); fopen() of a directory succeeds and fread delivers nothing",
            "C locale (isalnum/isspace on bytes >= 0x80 are false); glibc atoi = (int)strtol",
            "AF_UNIX listeners/peers stand in for TCP (getnameinfo interposed); one HTTP connection at a time as in the code",
        ],
        "trusted_extra": ["tools/consts/c20.py: anchored regular expressions on httpd.c (function-local sizes and literals)"],
    }


def annotate_crash(f):
    m = re.search(r"harness exit (-?\d+)", f.get("what", "")) if f.get("kind") == "crash" else None
    if m and int(m.group(1)) < 0:
        sig = -int(m.group(1))
        note = "the server process was killed by signal %d" % sig
        if sig == 13:
            note += (" (SIGPIPE: a peer went away while the reply was written and the process does not ignore SIGPIPE"
                     + ("; the `dir` op had reported sigpipe=dfl" if any("sigpipe=dfl" in x for x in f.get("impl", [])) else "")
                     + ")")
        f["detail"] = note + ("\n" + f["detail"] if f.get("detail") else "")
    elif m and int(m.group(1)) == 4:
        f["detail"] = "watchdog: the server did not return from one HTTP request within 25 s\n" + (f.get("detail") or "")


def tag_finding(f):
    """known_findings.json hooks: precise predicates on the failing input (none needed once the fixes are in)"""
    return f


def script_from_text(text, origin):
    lines = [l for l in text.splitlines() if l and not l.startswith("#")]
    sc = {"script": "\n".join(lines) + "\n", "meta": [None] * len(lines), "proxy": 0, "port": 0, "dirlen": 0,
          "files": {}, "dirs": [], "origin": origin}
    for l in lines:
        t = l.split()
        if t[0] == "dir":
            sc["dirlen"] = int(t[1])
        elif t[0] == "cfg" and not sc.get("_cfg"):
            sc["proxy"], sc["port"], sc["_cfg"] = int(t[1]), int(t[2]), True
        elif t[0] == "file":
            sc["files"][unhx(t[1])] = unhx(t[2])
        elif t[0] == "mkdir":
            sc["dirs"].append(unhx(t[1]))
    return sc


META = {
    "technique": "Lean 4 theorems about an executable model of httpd.c (decision function over all request byte strings, all read segmentations, all configurations; write extents of every fixed-size buffer) + exact correspondence run of the model against the real server code over AF_UNIX listeners with interposed read/fopen/open/select + model-independent oracle",
    "level_text": "Proof: Props/C20.lean proves for every configuration, every chunking of every byte sequence: a file is opened only for path = httpDir ++ f with f starting with '/', without '..' (hence no '..' component: lexical confinement), within fullFname[512]; accepted query strings expand only to the harmless alphabet; every modelled write stays inside buf/fullFname/params/param_request/param_formatted/str; proxy hand-over only when enabled; every non-GET / malformed / over-long request ends in an error response or a close without a file access; the decision of one call does not depend on how the kernel segments the bytes (proxy off: exactly; proxy on: up to the documented dependence on bytes after the blank line). The model follows the code with fixes/C20-proxy-null.diff and fixes/C20-params-uninit.diff applied; the code as found has an explicit Crash outcome with a counter-example theorem.",
    "level_note": "Trusted: Lean kernel, T0 extractors, harness/driver/generators (testing; distribution in evidence). Modelled as parameters: kernel read/EAGAIN/EOF, fopen/fread, libc string functions (re-implemented on lists). Not modelled: rfbWriteExact timing (stall bound per write, see partial), the RFB layer after a proxy hand-over, TLS.",
    "design_ref": "DESIGN.md section 7, C20; section 11 item d",
}
