"""C10 — pixel-format translation follows the RFB colour-scaling rule for all formats.

Proof: lean/VncModel/Props/C10.lean about the model lean/VncModel/Translate/Model.lean
(scaling expression, table initialisation for both strategies and for colour-mapped servers,
byte swapping, the choice logic of rfbSetTranslateFunction, the area walk with strides).

Tie: harness/c10.c runs the REAL rfbSetTranslateFunction + cl->translateFn (real screen, real
client over a socketpair; directly or through a real SetPixelFormat message) on scripted formats
and source buffers; Driver/C10.lean predicts every output byte, the table size and the
SetColourMapEntries message (exact comparison).  T0: tools/consts/c10.c regenerates BGR233Format,
the message constants and the byte order on every run.

Direct oracle (this file, independent of the model): every output pixel, decoded in the client's
byte order, must be the OR of the three source components rescaled to the client's maxima with
rounding to nearest at the client's shifts (all other bits zero); identical formats are copied
verbatim; colour-mapped servers give the most significant bits of the colour-map entry; BGR233
clients get a colour map that is the 16-bit expansion of the BGR233 components; output has exactly
w*h pixels taken from the source at the given stride; canaries intact.
"""
import json, sys
from array import array
from .. import common

PROPS_MOD = "VncModel.Props.C10"
EXTRA_TARGETS = ["drv_c10"]
GEN = ["c10", "leaf"]     # T0 probe + T1 translation of rfbChannelFitsPixel (Leaf/EquivTranslate.lean)
HOST_BE = sys.byteorder == "big"

FIELDS = ("bpp", "depth", "be", "tc", "rmax", "gmax", "bmax", "rs", "gs", "bs")
FINDING_24 = "c10-24bpp-source-overread"
FINDING_OVF = "c10-scale-int-overflow"


class Fmt(tuple):
    """(bpp, depth, be, tc, rmax, gmax, bmax, rs, gs, bs)"""
    __slots__ = ()
    bpp = property(lambda s: s[0]); depth = property(lambda s: s[1]); be = property(lambda s: s[2])
    tc = property(lambda s: s[3])
    maxes = property(lambda s: s[4:7]); shifts = property(lambda s: s[7:10])

    def line(self, who):
        return "fmt %s %s" % (who, " ".join(str(x) for x in self))

    def replace(self, **kw):
        l = list(self)
        for k, v in kw.items():
            l[FIELDS.index(k)] = v
        return Fmt(l)


def mk(bpp, be, bits, shifts, depth=None, tc=1):
    return Fmt((bpp, depth if depth is not None else min(bpp, sum(bits)), be, tc,
                (1 << bits[0]) - 1, (1 << bits[1]) - 1, (1 << bits[2]) - 1) + tuple(shifts))


def bits_of(m):
    return m.bit_length()


def well_formed(f):
    """max = 2^k-1 (k>=1), fields inside bpp and pairwise disjoint"""
    iv = []
    for m, s in zip(f.maxes, f.shifts):
        k = m.bit_length()
        if m < 1 or m != (1 << k) - 1 or s + k > f.bpp:
            return False
        iv.append((s, s + k))
    iv.sort()
    return iv[0][1] <= iv[1][0] and iv[1][1] <= iv[2][0]


def no_overflow(i, o):
    """the guard the C code lacks: i*outMax + inMax/2 must fit a C int"""
    return all(im * om + im // 2 < 2 ** 31 for im, om in zip(i.maxes, o.maxes))


def rand_wf(rng, bpp, be, maxk=16):
    """random well-formed format: bits per channel 1..16, sum <= bpp, random non-overlapping shifts"""
    while True:
        style = rng.random()
        if style < 0.25:
            ks = [rng.randint(1, min(maxk, bpp - 2)) for _ in range(3)]
        elif style < 0.5:   # fill the pixel completely
            a = rng.randint(1, min(maxk, bpp - 2)); b = rng.randint(1, min(maxk, bpp - a - 1))
            ks = [a, b, bpp - a - b]
            rng.shuffle(ks)
        else:
            ks = [rng.choice([1, 2, 3, 4, 5, 6, 8, 10, 11, 12, 15, 16]) for _ in range(3)]
        if all(1 <= k <= maxk for k in ks) and sum(ks) <= bpp:
            break
    free = bpp - sum(ks)
    gaps = [0, 0, 0, 0]
    for _ in range(free if rng.random() < 0.6 else 0):
        gaps[rng.randrange(4)] += 1
    if free and sum(gaps) == 0:
        gaps[rng.choice([0, 3])] = free      # all slack at the bottom or at the top
    order = [0, 1, 2]
    rng.shuffle(order)
    shifts, pos = [0, 0, 0], gaps[0]
    for n, ch in enumerate(order):
        shifts[ch] = pos
        pos += ks[ch] + gaps[n + 1]
    depth = rng.choice([sum(ks), sum(ks), bpp])
    return mk(bpp, be, ks, shifts, depth=depth)


# ------------------------------------------------------------------ catalogue
def catalogue():
    S, C = [], []
    le, be = 0, 1
    rgb888 = lambda e, bpp=32: mk(bpp, e, (8, 8, 8), (16, 8, 0), depth=24)
    bgr888 = lambda e, bpp=32: mk(bpp, e, (8, 8, 8), (0, 8, 16), depth=24)
    rgb565 = lambda e: mk(16, e, (5, 6, 5), (11, 5, 0))
    bgr565 = lambda e: mk(16, e, (5, 6, 5), (0, 5, 11))
    rgb555 = lambda e: mk(16, e, (5, 5, 5), (10, 5, 0), depth=15)
    rgb444 = lambda e: mk(16, e, (4, 4, 4), (8, 4, 0), depth=12)
    bgr233 = mk(8, 0, (3, 3, 2), (0, 3, 6))
    rgb332 = mk(8, 0, (3, 3, 2), (5, 2, 0))
    rgb111 = mk(8, 0, (1, 1, 1), (2, 1, 0), depth=3)
    rgb222 = mk(8, 1, (2, 2, 2), (4, 2, 0), depth=6)
    top888 = lambda e: mk(32, e, (8, 8, 8), (24, 16, 8), depth=24)
    rgb101010 = lambda e: mk(32, e, (10, 10, 10), (20, 10, 0), depth=30)
    wide = lambda e: mk(32, e, (16, 15, 1), (0, 16, 31), depth=32)
    wide2 = lambda e: mk(32, e, (11, 11, 10), (21, 10, 0), depth=32)
    g16 = lambda e: mk(32, e, (8, 16, 8), (0, 8, 24), depth=32)
    r14 = lambda e: mk(16, e, (14, 1, 1), (0, 14, 15))
    servers = [rgb888(le), bgr888(le), top888(le), rgb101010(le), wide(le), wide2(le), g16(le),
               rgb565(le), bgr565(le), rgb555(le), rgb444(le), r14(le),
               bgr233, rgb332, rgb111, rgb222]
    clients = [rgb888(le), rgb888(be), bgr888(le), bgr888(be), top888(be), rgb101010(be), wide(le),
               wide2(be), rgb565(le), rgb565(be), bgr565(be), rgb555(le), rgb444(be), r14(be),
               bgr233, rgb332, rgb111, rgb222, g16(be)]
    pairs = []
    for si, s in enumerate(servers):
        for ci, c in enumerate(clients):
            # a fixed, spread selection (~70 pairs) + every identical pair
            if s == c or (si * 7 + ci * 3) % 5 == 0:
                # server formats are native-endian (stated assumption; rfbGetScreen sets it so)
                pairs.append((s.replace(be=1 if HOST_BE else 0), c))
    return pairs


# ------------------------------------------------------------------ source pixels
def src_values(rng, f, tier, full16):
    """list of source pixel values for server format f (true colour)"""
    if f.bpp == 8:
        return list(range(256))
    if f.bpp == 16:
        if full16:
            return list(range(65536))
        vals = set(rng.randrange(65536) for _ in range(3000))
        vals |= per_channel(rng, f, 1)
        return sorted(vals)
    return sorted(per_channel(rng, f, 3 if tier == "thorough" else 2)) + \
        [rng.getrandbits(f.bpp) for _ in range(300)]


def per_channel(rng, f, variants):
    """every component value of every channel, the other bits zero / all ones / random"""
    full = (1 << f.bpp) - 1
    vals = {0, full}
    for m, s in zip(f.maxes, f.shifts):
        mask = (m << s) & full
        others = [0, full & ~mask, rng.getrandbits(f.bpp) & ~mask][:variants]
        for c in range(m + 1):
            for o in others:
                vals.add(((c << s) & full) | o)
    return vals


def layout(rng, vals, inB, mode, pad_bytes=None):
    """arrange pixel values as a w x h area with a stride; returns (bytes, w, h, stride).
    The stride is a multiple of the pixel size except for 3-byte pixels (and forced pad_bytes),
    where the code takes the stride in bytes."""
    n = len(vals)
    if mode == "row":
        w, h = n, 1
    elif mode == "col":
        w, h = 1, n
    elif mode == "rect5":
        w = 5
        h = (n + w - 1) // w
    else:
        w = rng.choice([2, 3, 5, 7, 16, 31, 64, 100, 255, 256])
        w = max(1, min(w, n))
        h = (n + w - 1) // w
    pad_px = rng.choice([0, 0, 1, 3, 17]) if mode != "tight" else 0
    stride = (w + pad_px) * inB
    if pad_bytes is not None:
        stride = w * inB + pad_bytes
    elif inB == 3 and mode != "tight":
        stride = w * 3 + rng.choice([0, 1, 2, 3, 4, 5, 7, 13, 64 - (w * 3) % 64])
    vals = list(vals) + [rng.getrandbits(8 * inB) for _ in range(w * h - n)]
    buf = bytearray(rng.randbytes(((h - 1) * stride + w * inB) if h and w else 0))
    order = "big" if HOST_BE else "little"
    for r in range(h):
        off = r * stride
        for c in range(w):
            buf[off + c * inB: off + (c + 1) * inB] = vals[r * w + c].to_bytes(inB, order)
    return bytes(buf), w, h, stride


# ------------------------------------------------------------------ direct oracle
def nearest(c, im, om):
    """round-to-nearest of c*om/im (no ties exist for odd im; written independently of the C formula)"""
    o = (2 * c * om + im) // (2 * im)
    assert abs(2 * (o * im - c * om)) <= im
    return o


def identical(s, c):
    if s.bpp != c.bpp or s.depth != c.depth or s.tc != c.tc:
        return False
    if s.bpp != 8 and s.be != c.be:
        return False
    return (not s.tc) or (s.maxes == c.maxes and s.shifts == c.shifts)


BGR233 = mk(8, 0, (3, 3, 2), (0, 3, 6))


def unpack(buf, size, be):
    if size == 1:
        return list(buf)
    if size in (2, 4):
        a = array("H" if size == 2 else "I")
        assert a.itemsize == size
        a.frombytes(bytes(buf))
        if be != HOST_BE:
            a.byteswap()
        return a.tolist()
    order = "big" if be else "little"
    return [int.from_bytes(buf[k:k + 3], order) for k in range(0, len(buf), 3)]


def check_cmap_msg(hexmsg):
    m = bytes.fromhex(hexmsg)
    if len(m) != 6 + 256 * 6 or m[0] != 1 or m[2:4] != b"\0\0" or m[4:6] != b"\x01\x00":
        return "SetColourMapEntries header/length wrong (%d bytes)" % len(m)
    for p in range(256):
        e = [int.from_bytes(m[6 + 6 * p + 2 * j: 8 + 6 * p + 2 * j], "big") for j in range(3)]
        want = [(p & 7) * 65535 // 7, ((p >> 3) & 7) * 65535 // 7, ((p >> 6) & 3) * 65535 // 3]
        if e != want:
            return "colour-map entry %d is %r, BGR233 expansion is %r" % (p, e, want)
    return None


def oracle(script, impl, checked):
    """direct property oracle; `checked` False: only structural facts (canaries, output length)"""
    ops = [l for l in script.splitlines() if l and not l.startswith("#")]
    if len(ops) != len(impl):
        return "observation count %d != ops %d" % (len(impl), len(ops))
    srv = cli = None
    cmap = None
    eff = None      # effective client format per the PROPERTY (BGR233 for colour-map clients)
    for op, ob in zip(ops, impl):
        t = op.split()
        if ob.startswith("reject") and "client-left-open" in ob:
            return ("refused pixel format but the client was left connected: cl->format is the refused "
                    "format while translateFn/table still belong to the previous one (%s)" % ob)
        if ob.startswith("reject"):
            ob = "reject"
        if ob == "harness-error" or (ob == "bad-op" and checked):
            return "harness refused op %r: %s" % (op[:80], ob)
        if ob == "bad-op":
            continue
        if t[0] == "fmt":
            f = Fmt(int(x) for x in t[2:12])
            if t[1] == "server":
                srv = f
            else:
                cli = f
            eff = None
        elif t[0] in ("cmap", "recmap"):
            raw = bytes.fromhex(t[3]) if t[3] != "-" else b""
            is16 = int(t[1])
            vals = unpack(raw, 2, True) if is16 else list(raw)
            cmap = (is16, int(t[2]), vals)
        elif t[0] in ("set", "setmsg"):
            eff = None
            if not checked:
                if ob != "reject":
                    eff = "unchecked"
                continue
            if ob == "reject":
                return "supported format pair rejected"
            eff = cli if cli.tc else BGR233
            has = " bgr233=" in ob
            if has != (not cli.tc):
                return "SetColourMapEntries sent=%s for trueColour=%d client" % (has, cli.tc)
            if has:
                e = check_cmap_msg(ob.split(" bgr233=")[1])
                if e:
                    return e
            if identical(srv, eff) != ob.startswith("none"):
                # not a property violation by itself; the px check below decides
                pass
        elif t[0] == "px":
            parts = ob.split(" ")
            if len(parts) != 2 or not parts[1].startswith("canary="):
                return "malformed px observation"
            if parts[1] != "canary=ok":
                return "canary bytes around the destination were overwritten"
            w, h, stride = int(t[2]), int(t[3]), int(t[4])
            out = bytes.fromhex(parts[0]) if parts[0] != "-" else b""
            if eff is None:
                return "px without accepted set"
            if eff == "unchecked":
                continue
            outB, inB = eff.bpp // 8, srv.bpp // 8
            if len(out) != w * h * outB:
                return "output has %d bytes, area needs %d" % (len(out), w * h * outB)
            src = bytes.fromhex(t[1]) if t[1] != "-" else b""
            if identical(srv, eff):
                want = b"".join(src[r * stride: r * stride + w * outB] for r in range(h))
                if out != want:
                    return "identical formats: output is not a verbatim copy of the area"
                continue
            area = b"".join(src[r * stride: r * stride + w * inB] for r in range(h))
            sv = unpack(area, inB, bool(srv.be))
            ov = unpack(out, outB, bool(eff.be))
            ors, ogs, obs = eff.shifts
            if srv.tc:
                (rs, gs, bs), (rm, gm, bm) = srv.shifts, srv.maxes
                er = [nearest(c, rm, eff.maxes[0]) << ors for c in range(rm + 1)]
                eg = [nearest(c, gm, eff.maxes[1]) << ogs for c in range(gm + 1)]
                eb = [nearest(c, bm, eff.maxes[2]) << obs for c in range(bm + 1)]
                for k in range(len(sv)):
                    p = sv[k]
                    e = er[(p >> rs) & rm] | eg[(p >> gs) & gm] | eb[(p >> bs) & bm]
                    if ov[k] != e:
                        return ("pixel %d (row %d col %d): source 0x%x -> 0x%x, rule gives 0x%x "
                                "(r,g,b = %d,%d,%d -> %d,%d,%d)"
                                % (k, k // w, k % w, p, ov[k], e, (p >> rs) & rm, (p >> gs) & gm,
                                   (p >> bs) & bm, er[(p >> rs) & rm] >> ors,
                                   eg[(p >> gs) & gm] >> ogs, eb[(p >> bs) & bm] >> obs))
            else:
                is16, cnt, vals = cmap
                width = 16 if is16 else 8
                ks = [m.bit_length() for m in eff.maxes]

                def top(c, k):    # the k most significant bits of a `width`-bit colour value
                    return c >> (width - k) if k <= width else c << (k - width)
                for k in range(len(sv)):
                    p = sv[k]
                    col = vals[3 * p: 3 * p + 3] if p < cnt else [0, 0, 0]
                    e = (top(col[0], ks[0]) << ors) | (top(col[1], ks[1]) << ogs) | (top(col[2], ks[2]) << obs)
                    if ov[k] != e:
                        return "pixel %d: colour index %d %r -> 0x%x, table rule gives 0x%x" % (k, p, col, ov[k], e)
    return None


# ------------------------------------------------------------------ script construction
def cmap_line(op, cm):
    is16, cnt, vals = cm
    hx = b"".join(v.to_bytes(2 if is16 else 1, "big") for v in vals).hex() or "-"
    return "%s %d %d %s" % (op, is16, cnt, hx)


def script_for(rng, srv, cli, econ, tier, full16=True, cmap=None, via_msg=None, extra_px=True,
               stride_mode="multiple", head=(), recmap=None):
    lines = list(head) + [srv.line("server"), cli.line("client"), "econ %d" % econ]
    if cmap is not None:
        lines.append(cmap_line("cmap", cmap))
    if via_msg is None:
        via_msg = rng.random() < 0.3
    if recmap:
        via_msg = True      # only a client that has SENT SetPixelFormat gets its table rebuilt
    lines.append("setmsg" if via_msg else "set")
    inB = srv.bpp // 8
    if srv.tc:
        vals = src_values(rng, srv, tier, full16)
    else:
        vals = list(range(1 << srv.bpp)) if (srv.bpp == 8 or full16) else \
            sorted(set(rng.randrange(1 << srv.bpp) for _ in range(3000)) | {0, (1 << srv.bpp) - 1})
    npx = 0
    buf, w, h, stride = layout(rng, vals, inB, rng.choice(["rect", "rect", "row", "tight"]))
    lines.append("px %s %d %d %d" % (buf.hex() or "-", w, h, stride))
    npx += w * h
    if extra_px and inB:
        # deterministic stride classes, every script: tight, padded (multiple of the pixel size),
        # padded by 1 and 2 bytes where the code takes the stride in bytes (3-byte pixels, and
        # rfbTranslateNone for identical formats); always >= 3 rows, pixels from the value set
        byte_strides = inB == 3 or identical(srv, cli if cli.tc else BGR233) or stride_mode == "any"
        for pad in [0, 2 * inB] + ([1, 2, inB + 1] if byte_strides else []):
            sub = [vals[rng.randrange(len(vals))] for _ in range(15)]
            buf, w, h, stride = layout(rng, sub, inB, "rect5", pad_bytes=pad)
            lines.append("px %s %d %d %d" % (buf.hex() or "-", w, h, stride))
            npx += w * h
    if recmap is not None:
        # the application changes the palette mid-session (rfbSetClientColourMaps): the same
        # pixels must now come out in the NEW colours
        lines.append(cmap_line("recmap", recmap))
        sub = [vals[rng.randrange(len(vals))] for _ in range(60)] + [0, 1, min(255, len(vals) - 1)]
        buf, w, h, stride = layout(rng, sub, inB, "rect5")
        lines.append("px %s %d %d %d" % (buf.hex() or "-", w, h, stride))
        npx += w * h
    if extra_px:
        # small areas with awkward shapes: 0/1 wide or high, stride 0 / smaller than a row / huge
        for _ in range(4):
            w = rng.choice([0, 1, 1, 2, 3, 9])
            h = rng.choice([0, 1, 1, 2, 4])
            kind = rng.choice(["pad", "tight", "zero", "short", "big"])
            if stride_mode == "any" and rng.random() < 0.5:
                stride = rng.randint(0, (w + 3) * inB + 3)
            else:
                stride = {"pad": (w + rng.randint(1, 5)) * inB, "tight": w * inB, "zero": 0,
                          "short": (w // 2) * inB, "big": (w + 40) * inB}[kind]
            need = ((h - 1) * stride + w * inB) if (w and h) else 0
            buf = rng.randbytes(need + rng.choice([0, 0, 5]))
            lines.append("px %s %d %d %d" % (buf.hex() or "-", w, h, stride))
            npx += w * h
    return "\n".join(lines) + "\n", npx


def rand_cmap(rng, bpp):
    is16 = rng.randint(0, 1)
    cnt = rng.choice([0, 1, 2, 16, 200, 255, 256] if bpp == 8 else [0, 256, 1000, 65535, 65536])
    top = 65535 if is16 else 255
    vals = []
    for _ in range(cnt * 3):
        vals.append(rng.choice([0, top, rng.randint(0, top), rng.randint(0, top)]))
    return (is16, cnt, vals)


def build_cases(ctx):
    """-> list of dict(script, checked, tag, key, npx)"""
    rng, tier = ctx.rng, ctx.tier
    host = 1 if HOST_BE else 0
    cases = []

    def add(script, npx, checked, tag, key, finding=None):
        cases.append({"script": script, "npx": npx, "checked": checked, "tag": tag, "key": key,
                      "finding": finding})

    # 0. deterministic core (same format pairs at every seed; only pixel contents are random):
    #    every (strategy x server bpp x client bpp x client byte order) cell, colour-mapped servers
    #    with 8- and 16-bit maps, colour-map clients, identical formats of every size.  Every script
    #    carries all stride classes (script_for).
    core_srv = [(mk(8, host, (3, 3, 2), (0, 3, 6)), 0), (mk(16, host, (5, 6, 5), (11, 5, 0)), 0),
                (mk(16, host, (5, 6, 5), (11, 5, 0)), 1), (mk(24, host, (8, 8, 8), (16, 8, 0)), 0),
                (mk(32, host, (8, 8, 8), (16, 8, 0), depth=24), 0),
                (mk(32, host, (10, 11, 11), (22, 11, 0), depth=32), 1)]
    core_cli = [mk(8, 0, (3, 3, 2), (5, 2, 0)), mk(16, 0, (5, 5, 5), (0, 5, 10), depth=15),
                mk(32, 0, (8, 8, 8), (24, 16, 8), depth=24)]
    for s, econ in core_srv:
        for c0 in core_cli:
            for cbe in (0, 1):
                c = c0.replace(be=cbe)
                sc, n = script_for(rng, s, c, econ, tier, full16=False, via_msg=(cbe == 1))
                add(sc, n, True, "core:tc", (s, c, econ), finding=FINDING_24 if s.bpp == 24 else None)
    for sb in (8, 16):
        for is16 in (0, 1):
            top = 65535 if is16 else 255
            cnt = 256 if sb == 8 else 4096
            cmv = [rng.choice([0, top, rng.randint(0, top)]) for _ in range(cnt * 3)]
            s = Fmt((sb, sb, host, 0, 0, 0, 0, 0, 0, 0))
            for c0 in core_cli + [Fmt((8, 8, 0, 0, 0, 0, 0, 0, 0, 0))]:
                for cbe in (0, 1):
                    if not c0.tc and cbe:
                        continue
                    c = c0.replace(be=cbe)
                    re = None
                    if cbe == 0:    # palette change mid-session, also switching the map's width
                        i2 = is16 if c0.bpp != 16 else 1 - is16
                        t2 = 65535 if i2 else 255
                        re = (i2, cnt // 2, [rng.choice([0, t2, rng.randint(0, t2)])
                                             for _ in range(cnt // 2 * 3)])
                    sc, n = script_for(rng, s, c, is16, tier, full16=False, cmap=(is16, cnt, cmv),
                                       via_msg=(cbe == 1), recmap=re)
                    add(sc, n, True, "core:cmap-server", (s, c, is16))
    for s, econ in core_srv[:5]:
        sc, n = script_for(rng, s, Fmt((8, 8, 0, 0, 0, 0, 0, 0, 0, 0)), econ, tier, full16=False)
        add(sc, n, True, "core:bgr233-client", (s, "cm", econ),
            finding=FINDING_24 if s.bpp == 24 else None)
        sc, n = script_for(rng, s, s, econ, tier, full16=False, via_msg=False)
        add(sc, n, True, "core:identical", (s, s, econ))
    # PF_EQ: client formats equal to the server's except for exactly ONE field, every field
    base = mk(32, host, (7, 7, 7), (0, 8, 16), depth=24)
    for fld, val in (("depth", 21), ("be", 1 - host), ("rmax", 63), ("gmax", 63), ("bmax", 63),
                     ("rs", 24), ("gs", 24), ("bs", 24)):
        sc, n = script_for(rng, base, base.replace(**{fld: val}), 0, tier, via_msg=(fld == "be"))
        add(sc, n, True, "core:pfeq-" + fld, (base, fld))
    base16 = mk(16, host, (4, 4, 4), (0, 5, 10), depth=12)
    for fld, val in (("rs", 1), ("gs", 6), ("bs", 11), ("be", 1 - host)):
        for econ in (0, 1):
            sc, n = script_for(rng, base16, base16.replace(**{fld: val}), econ, tier, full16=False)
            add(sc, n, True, "core:pfeq-" + fld, (base16, fld, econ))
    # two consecutive SetPixelFormat on the SAME client selecting the same table kind (the old
    # table is freed and rebuilt), for every table kind and output width
    for s, econ in core_srv[:5]:
        if s.bpp == 24:
            continue
        for c0 in core_cli:
            sc1, n1 = script_for(rng, s, c0, econ, tier, full16=False, via_msg=True, extra_px=False)
            c2 = rand_wf(rng, c0.bpp, 1)
            sc2, n2 = script_for(rng, s, c2, econ, tier, full16=False, via_msg=False, extra_px=False)
            add(sc1 + sc2, n1 + n2, True, "core:reset-same-kind", (s, c0, c2, econ))
    for sb in (8, 16):
        s = Fmt((sb, sb, host, 0, 0, 0, 0, 0, 0, 0))
        cm1, cm2 = rand_cmap(rng, sb), rand_cmap(rng, sb)
        sc1, n1 = script_for(rng, s, core_cli[1], 0, tier, full16=False, cmap=cm1, extra_px=False)
        sc2, n2 = script_for(rng, s, core_cli[1].replace(be=1), 0, tier, full16=False, cmap=cm2,
                             extra_px=False)
        add(sc1 + sc2, n1 + n2, True, "core:reset-same-kind", (s, "cm", sb))
    # guard stream (exact comparison + sanitizers): client channels that do NOT fit the pixel,
    # including shifts >= 32 that would be undefined in the table initialisers.  The tree refuses
    # them (rfbChannelFitsPixel, theorem tree_validates_channel_fit); if that guard is ever
    # removed the single-table initialiser shifts by >= 32 under UBSan -> crash = counterexample.
    for s, econ in core_srv:
        for (cb, mx, sh) in ((32, 255, 32), (32, 255, 40), (32, 1, 255), (32, 255, 25), (16, 31, 12),
                             (16, 31, 16), (8, 7, 6), (8, 1, 8), (32, 65535, 17)):
            for ch in range(3):
                ks = [3, 3, 2] if cb == 8 else [5, 5, 5]
                c = mk(cb, 0, ks, ([0, 3, 6] if cb == 8 else [0, 5, 10]))
                c = c.replace(**{("rmax", "gmax", "bmax")[ch]: mx, ("rs", "gs", "bs")[ch]: sh})
                if (econ, ch) in ((0, 0), (1, 1), (0, 2)) or s.bpp == 8:
                    sc = "\n".join([s.line("server"), c.line("client"), "econ %d" % econ,
                                    "setmsg" if ch == 1 else "set", "px 00010203 1 1 4"]) + "\n"
                    add(sc, 0, False, "core:guard", (s, c, econ),
                        finding=FINDING_24 if s.bpp == 24 else None)
    # every refusing arm of rfbSetTranslateFunction, through the direct call (return value seen) and
    # through a SetPixelFormat message: server bpp invalid, client bpp invalid, colour-map client
    # that is not 8 bpp.  Refused = FALSE returned and the client closed.
    ok32 = mk(32, host, (8, 8, 8), (16, 8, 0), depth=24)
    for via in ("set", "setmsg"):
        for s, c in ((ok32.replace(bpp=12), ok32), (ok32.replace(bpp=0), ok32),
                     (ok32, ok32.replace(bpp=15)), (ok32, ok32.replace(bpp=64)),
                     (ok32, ok32.replace(tc=0, bpp=16)), (ok32, ok32.replace(tc=0)),
                     (core_srv[1][0], ok32.replace(tc=0, bpp=24))):
            sc = "\n".join([s.line("server"), c.line("client"), via, "px 00000000 1 1 4",
                            ok32.line("server"), core_cli[1].line("client"), via,
                            "px 0102030405060708 2 1 8"]) + "\n"
            add(sc, 2, False, "core:reject-arms", (s, c, via))
    # 1. catalogue (both economic settings for 16 bpp servers)
    cat = catalogue()
    full16_budget = 14 if tier == "quick" else 10 ** 9
    for (s, c) in cat:
        for econ in ((0, 1) if s.bpp == 16 else (rng.randint(0, 1),)):
            full = s.bpp != 16 or full16_budget > 0
            if s.bpp == 16 and full:
                full16_budget -= 1
            sc, n = script_for(rng, s, c, econ, tier, full16=full)
            add(sc, n, True, "catalogue", (s, c, econ))
    # 2. random well-formed pairs
    nrand = 50 if tier == "quick" else 700
    for k in range(nrand):
        sb = rng.choice([8, 16, 16, 32, 32])
        cb = rng.choice([8, 16, 32])
        s = rand_wf(rng, sb, host)
        c = rand_wf(rng, cb, rng.randint(0, 1))
        econ = rng.randint(0, 1)
        full = s.bpp != 16 or tier == "thorough" or k % 10 == 0
        sc, n = script_for(rng, s, c, econ, tier, full16=full)
        add(sc, n, True, "random", (s, c, econ), finding=None if no_overflow(s, c) else FINDING_OVF)
    # 3. near-identical pairs: exactly one field differs (PF_EQ boundary), and fully identical ones
    nnear = 24 if tier == "quick" else 150
    for k in range(nnear):
        sb = [8, 16, 32][(k // 6) % 3]
        s = rand_wf(rng, sb, host)
        c = s
        which = ["same", "depth", "be", "shiftswap", "max", "shift"][k % 6]
        if which == "depth":
            c = s.replace(depth=s.depth - 1 if s.depth > 1 else s.depth + 1)
        elif which == "be":
            c = s.replace(be=1 - s.be)
        elif which == "shiftswap":
            c = Fmt(s[:4] + (s[5], s[4], s[6], s[8], s[7], s[9]))
        elif which in ("max", "shift"):
            for _ in range(50):
                c2 = rand_wf(rng, sb, s.be)
                if sum(1 for a, b in zip(c2[4:], s[4:]) if a != b) in (1, 2):
                    c = c2.replace(depth=s.depth)
                    break
        if not well_formed(c):
            continue
        sc, n = script_for(rng, s, c, rng.randint(0, 1), tier, full16=(k % 6 == 0))
        add(sc, n, True, "near-identical:" + which, (s, c, which),
            finding=None if no_overflow(s, c) else FINDING_OVF)
    # 4. colour-mapped servers (8 and 16 bpp), true-colour and colour-map clients
    ncm = 14 if tier == "quick" else 90
    for k in range(ncm):
        sb = 8 if k % 3 else 16
        s = Fmt((sb, sb, host, 0, 0, 0, 0, 0, 0, 0))
        if k % 4 == 3:
            c = Fmt((8, 8, 0, 0, 0, 0, 0, 0, 0, 0))
        else:
            c = rand_wf(rng, rng.choice([8, 16, 32]), rng.randint(0, 1))
        sc, n = script_for(rng, s, c, rng.randint(0, 1), tier, full16=(k % 6 == 1 or tier == "thorough"),
                           cmap=rand_cmap(rng, sb), recmap=rand_cmap(rng, sb) if k % 2 else None)
        add(sc, n, True, "cmap-server", (s, c, k))
    # 5. colour-map (BGR233) clients of true-colour servers
    nbgr = 8 if tier == "quick" else 40
    for k in range(nbgr):
        s = rand_wf(rng, rng.choice([8, 16, 32]), host) if k else BGR233.replace(be=host)
        c = Fmt((8, rng.choice([8, 6]), rng.randint(0, 1), 0, rng.choice([0, 7, 255]), 0, 0,
                 rng.choice([0, 5]), 0, 0))
        sc, n = script_for(rng, s, c, rng.randint(0, 1), tier, full16=(k % 3 == 0))
        add(sc, n, True, "bgr233-client", (s, c, k))
    # 6. exact-only stream (model fidelity outside the theorem's hypotheses, all defined in C):
    #    ill-formed but UB-free formats, strides that are not a multiple of the pixel size,
    #    servers that declare the other byte order, invalid bpp values (reject)
    nex = 40 if tier == "quick" else 300
    for k in range(nex):
        kind = ["illformed", "stride", "foreign", "reject", "illformed", "recmap"][k % 6]
        sb = rng.choice([8, 16, 32]); cb = rng.choice([8, 16, 32])
        s = rand_wf(rng, sb, host); c = rand_wf(rng, cb, rng.randint(0, 1))
        mode = "multiple"
        if kind == "illformed":
            def ill(f, lim):
                return f.replace(rmax=rng.choice([1, 5, 100, 255, 1000, 0x7fff][:lim]),
                                 gmax=rng.choice([1, 6, 200, 255, 999][:lim]),
                                 bmax=rng.choice([3, 9, 31, 254, 4097][:lim]),
                                 rs=rng.randint(0, 31), gs=rng.randint(0, 31), bs=rng.randint(0, 31))
            c = ill(c, 5)
            if rng.random() < 0.5:
                s = ill(s, 5)
        elif kind == "stride":
            mode = "any"
        elif kind == "foreign":
            s = s.replace(be=1 - host)
        else:
            bad = rng.choice([0, 1, 4, 12, 15, 17, 24 + 1, 31, 33, 64])
            if rng.random() < 0.5:
                s = s.replace(bpp=bad)
            else:
                c = c.replace(bpp=bad) if rng.random() < 0.6 else c.replace(tc=0, bpp=rng.choice([16, 32]))
        if not no_overflow(s, c):
            continue
        if kind == "recmap":
            # palette change for a client that never sent SetPixelFormat (table stays as it was),
            # for a true-colour server (no effect), and after a rejected request
            sb = rng.choice([8, 16])
            s = Fmt((sb, sb, host, 0, 0, 0, 0, 0, 0, 0)) if k % 12 < 6 else s
            inB = s.bpp // 8
            src = rng.randbytes(12 * inB).hex()
            sc = "\n".join([s.line("server"), c.line("client"), cmap_line("cmap", rand_cmap(rng, sb)),
                            rng.choice(["set", "setmsg"]), "px %s 12 1 %d" % (src, 12 * inB),
                            cmap_line("recmap", rand_cmap(rng, sb)), "px %s 12 1 %d" % (src, 12 * inB),
                            c.replace(bpp=12).line("client"), "setmsg", c.line("client"), "set",
                            cmap_line("recmap", rand_cmap(rng, sb)),
                            "px %s 12 1 %d" % (src, 12 * inB)]) + "\n"
            add(sc, 36, False, "exact-only:recmap", (s, c, kind, k))
            continue
        if kind == "reject":
            sc = "\n".join([s.line("server"), c.line("client"), "set", "px 00000000 1 1 4",
                            s.replace(bpp=32).line("server"), c.replace(bpp=32, tc=1).line("client"),
                            "setmsg", "px 0102030405060708 2 1 8"]) + "\n"
            n = 2
        else:
            sc, n = script_for(rng, s, c, rng.randint(0, 1), tier, full16=False, stride_mode=mode)
        add(sc, n, False, "exact-only:" + kind, (s, c, kind, k))
    # 7. 24 bpp servers (in the property's quantifier); see FINDING_24
    n24 = 6 if tier == "quick" else 40
    for k in range(n24):
        s = mk(24, host, (8, 8, 8), (16, 8, 0)) if k == 0 else rand_wf(rng, 24, host)
        c = rand_wf(rng, rng.choice([8, 16, 32]), rng.randint(0, 1)) if k else mk(32, 0, (8, 8, 8), (0, 8, 16), depth=24)
        sc, n = script_for(rng, s, c, rng.randint(0, 1), tier)
        add(sc, n, True, "server24", (s, c, k), finding=FINDING_24)
    # 8. 24 bpp CLIENTS behind single tables and identical 24 bpp formats (outside the property's
    #    quantifier but covered by pixel_components): exact comparison + oracle.  tableinit24.c fills
    #    its 3-byte entries with misaligned 4-byte stores, so this stream runs on a harness built
    #    with -fno-sanitize=alignment (everything else of ASan/UBSan stays on).
    n24c = 0 if tier == "quick" else 30     # thorough tier only: needs a second library build
    for k in range(n24c):
        if k == 0:
            s = mk(24, host, (8, 8, 8), (16, 8, 0)); c = s      # identical -> rfbTranslateNone
        else:
            s = rand_wf(rng, rng.choice([8, 16]), host)
            c = rand_wf(rng, 24, rng.randint(0, 1))
        sc, n = script_for(rng, s, c, 0, tier, full16=(k % 3 == 1))
        add(sc, n, True, "client24", (s, c, k))
        cases[-1]["noalign"] = True
    return cases



EXCLUDED = [
    ("server max = 0 (division by zero in table init)",
     "fmt server 32 24 0 1 0 255 255 16 8 0\nfmt client 32 24 0 1 255 255 255 0 8 16\nset\npx 01020304 1 1 4\n"),
    ("client max = 0 (defined: component is 0)",
     "fmt server 32 24 0 1 255 255 255 16 8 0\nfmt client 32 24 0 1 0 255 255 0 8 16\nset\npx 01020304 1 1 4\n"),
    ("client shift 40, RGB tables (the code's own guard: component dropped)",
     "fmt server 32 24 0 1 255 255 255 16 8 0\nfmt client 32 24 0 1 255 255 255 40 8 16\nset\npx 01020304 1 1 4\n"),
    ("client shift 40, single table (8 bpp server)",
     "fmt server 8 8 0 1 7 7 3 0 3 6\nfmt client 32 24 0 1 255 255 255 40 8 16\nset\npx 01020304 1 1 4\n"),
    ("server shift 40, RGB tables",
     "fmt server 32 24 0 1 255 255 255 40 8 0\nfmt client 32 24 0 1 255 255 255 0 8 16\nset\npx 01020304 1 1 4\n"),
    ("server shift 40, single table",
     "fmt server 16 16 0 1 31 63 31 40 5 0\nfmt client 32 24 0 1 255 255 255 0 8 16\nset\npx 01020304 1 1 4\n"),
    ("32 bpp server -> 24 bpp client, RGB tables (table indexed without the factor 3)",
     "fmt server 32 24 0 1 255 255 255 16 8 0\nfmt client 24 24 0 1 255 255 255 16 8 0\nset\npx 112233004455660 1 1 4\n"),
]


def run_excluded(ctx, h):
    """the points the theorems exclude by hypothesis, on the real code under ASan/UBSan.
    Recorded in the evidence, never a failure of C10 (they are C04's subject)."""
    out = []
    for what, sc in EXCLUDED:
        rc, lines, err = ctx.run_lines(h, sc, timeout=60)
        msg = ""
        for l in err.splitlines():
            if "runtime error" in l or "ERROR: AddressSanitizer" in l:
                msg = l.split("runtime error:")[-1].strip()[:160]
                break
        out.append({"point": what, "exit": rc, "observed": (lines[-1][:80] if lines else ""),
                    "sanitizer": msg})
    return out


def run(ctx):
    h = ctx.harness("c10")
    d = ctx.driver("drv_c10")
    fails, samples = [], []
    dist = {"stream": {}, "bpp_pair": {}, "strategy": {}, "byte_order(srv,cli)": {}, "econ": {},
            "bits_in": {}, "bits_out": {}, "area": {}, "set_via": {}, "pixels": 0}
    if ctx.replay:
        rec = json.load(open(ctx.replay))
        lines = rec.get("script") or (rec.get("first_disagreement") or {}).get("script") or rec.get("ops") or []
        cases = [{"script": "\n".join(lines) + "\n", "npx": 0,
                  "checked": rec.get("checked", True), "tag": "replay", "key": "replay",
                  "finding": rec.get("finding")}]
    else:
        cases = []
        import glob, os
        for p in sorted(glob.glob(os.path.join(common.VERIF, "corpus", "C10", "*.ops"))):
            txt = open(p).read()
            fid = None
            for l in txt.splitlines():
                if l.startswith("# finding:"):
                    fid = l.split(":", 1)[1].strip()
            cases.append({"script": txt, "npx": 0, "checked": "# unchecked" not in txt,
                          "tag": "corpus", "key": p, "finding": fid})
        cases += build_cases(ctx)

    h_noalign = None
    if any(c.get("noalign") for c in cases):
        h_noalign = ctx.harness("c10", extra=("-fno-sanitize=alignment",))

    crashes = [0]

    def one(c):
        # after 4 crashed/hung scripts the rest is not run any more (pmap starts every case; a
        # change that makes every translation crash or spin must cost seconds, not hours)
        if crashes[0] >= 4:
            return [], [], {"kind": "skipped"}
        r = common.compare_streams(ctx, c["script"], h_noalign if c.get("noalign") else h, d,
                                   "translate." + c["tag"], timeout=240)
        if r[2] is not None and r[2].get("kind") == "crash":
            crashes[0] += 1
            if "HANG:" in r[2].get("detail", ""):
                r[2]["what"] += " (translate function does not terminate)"
        return r

    results = common.pmap(one, cases)
    evals, distinct = 0, set()
    crashed_findings = set()
    for c, (impl, model, f) in zip(cases, results):
        if f is not None and f.get("kind") == "skipped":
            dist["stream"]["skipped-after-crashes"] = dist["stream"].get("skipped-after-crashes", 0) + 1
            continue
        evals += 1
        crash = f is not None and f["kind"] == "crash"
        if f:
            f["checked"] = c["checked"]
            if crash and c["finding"]:
                err = f.get("detail", "")
                if c["finding"] == FINDING_24 and "tabletrans24template.c" in err and \
                        ("misaligned" in err or "heap-buffer-overflow" in err):
                    f["finding"] = FINDING_24
                    crashed_findings.add(FINDING_24)
                if c["finding"] == FINDING_OVF and "signed integer overflow" in err and \
                        "tableinittctemplate.c" in err:
                    f["finding"] = FINDING_OVF
                    crashed_findings.add(FINDING_OVF)
            if not (f.get("finding") and any(x.get("finding") == f["finding"] for x in fails)):
                fails.append(f)
        o = None if crash else oracle(c["script"], impl, c["checked"])
        if o:
            fails.append({"kind": "oracle", "what": "C10 direct oracle (" + c["tag"] + ")", "detail": o,
                          "script": c["script"].splitlines()[:40], "impl": [x[:200] for x in impl],
                          "checked": c["checked"]})
        # ---- measured distribution
        dist["stream"][c["tag"]] = dist["stream"].get(c["tag"], 0) + 1
        srv = cli = None
        for l, ob in zip([x for x in c["script"].splitlines() if x and not x.startswith("#")], impl):
            t = l.split()
            if t[0] == "fmt":
                f2 = Fmt(int(x) for x in t[2:12])
                if t[1] == "server":
                    srv = f2
                else:
                    cli = f2
            elif t[0] == "econ":
                dist["econ"][t[1]] = dist["econ"].get(t[1], 0) + 1
            elif t[0] in ("set", "setmsg") and srv and cli:
                dist["set_via"][t[0]] = dist["set_via"].get(t[0], 0) + 1
                k = "%d->%d" % (srv.bpp, cli.bpp)
                dist["bpp_pair"][k] = dist["bpp_pair"].get(k, 0) + 1
                k = "%d,%d" % (srv.be, cli.be)
                dist["byte_order(srv,cli)"][k] = dist["byte_order(srv,cli)"].get(k, 0) + 1
                if ob.startswith("reject"):
                    st = "reject"
                elif ob.startswith("none"):
                    st = "none"
                else:
                    tb = int(ob.split()[0].split("=")[1])
                    ebpp = int(ob.split("fmt=")[1].split(",")[0])
                    single = srv.bpp <= 16 and tb == (1 << srv.bpp) * (ebpp // 8) + (1 if ebpp == 24 else 0)
                    st = ("single-" + ("tc" if srv.tc else "cm")) if single else "rgb"
                dist["strategy"][st] = dist["strategy"].get(st, 0) + 1
                if srv.tc:
                    for m in srv.maxes:
                        b = str(m.bit_length())
                        dist["bits_in"][b] = dist["bits_in"].get(b, 0) + 1
                if cli.tc:
                    for m in cli.maxes:
                        b = str(m.bit_length())
                        dist["bits_out"][b] = dist["bits_out"].get(b, 0) + 1
                if st not in ("reject", "none") and c["checked"]:
                    distinct.add((srv, cli, c["key"][2] if len(c["key"]) > 2 else 0))
            elif t[0] == "px" and " " in ob:
                w, hh, stride = int(t[2]), int(t[3]), int(t[4])
                inB = (srv.bpp // 8) if srv else 1
                shape = ("w0" if w == 0 else "w1" if w == 1 else "wN") + ("h0" if hh == 0 else "h1" if hh == 1 else "hN")
                sk = "stride=" + ("0" if stride == 0 else "tight" if stride == w * inB else
                                  "short" if stride < w * inB else "padded")
                if inB in (2, 4) and stride % inB:
                    sk += "+unaligned"
                if inB == 3 and hh >= 2:
                    k3 = "24bpp-source stride%%3=%d (h>=2)" % (stride % 3)
                    dist["area"][k3] = dist["area"].get(k3, 0) + 1
                dist["area"][shape] = dist["area"].get(shape, 0) + 1
                dist["area"][sk] = dist["area"].get(sk, 0) + 1
                dist["pixels"] += w * hh
        if len(samples) < 4 and c["tag"] in ("catalogue", "random", "cmap-server", "bgr233-client") \
                and len(c["script"]) < 3000:
            samples.append({"script": c["script"].splitlines(), "impl": impl})
        if len([x for x in fails if not x.get("finding")]) >= 5:
            break
    excluded = run_excluded(ctx, h) if not ctx.replay else []
    return {
        "evaluations": dist["pixels"], "distinct_nontrivial": len(distinct),
        "rule": "evaluations = translated pixels compared byte-for-byte with the model and checked by the "
                "direct oracle; distinct_nontrivial = distinct (server format, client format, economic "
                "switch) triples in oracle-checked streams whose chosen function is a table translation "
                "(not rejected, not rfbTranslateNone)",
        "samples": samples, "distribution": dist, "failures": fails,
        "exhaustive": False,
        "correspondence": {"scripts": evals, "excluded_points": excluded},
        "partial": PARTIAL,
        "assumptions": ASSUMPTIONS,
    }


PARTIAL = []
ASSUMPTIONS = [
    "the server format's bigEndian flag equals the machine byte order (rfbGetScreen sets it so; the code reads the framebuffer with native loads). Servers declaring the other order are run in the exact-only stream and documented in docs/C10.md",
    "bytesBetweenInputLines is a non-negative multiple of the source pixel size (the code rounds other strides DOWN to a multiple; exercised in the exact-only stream)",
    "no C int overflow in i*outMax + inMax/2 (fails only for a 16-bit channel rescaled to a 16-bit channel), shifts < 32, maxima != 0: explicit hypotheses of the theorems; the excluded points are run on the real code and recorded under correspondence.excluded_points",
    "24 bpp CLIENT formats are outside the property's quantifier; the RGB-table functions for them are broken (docs/C10.md)",
]

META = {
    "technique": "Lean 4 theorems about an executable model of translate.c and its templates (rounding rule, component placement for both table strategies, identity copy, area index theorem, colour-map rules) + exact differential run of the model against the real rfbSetTranslateFunction/translateFn + model-independent arithmetic oracle",
    "level_text": "Proof: Props/C10.lean proves for ALL well-formed format pairs and all pixel values that the model's translated pixel has exactly the rounded-to-nearest components at the client's shifts and byte order, for both table strategies, that identical formats are copied verbatim, and that an area translation reads/writes exactly the area. The model is tied to the code on every run by byte-exact comparison (exhaustive over all source pixels of 8/16-bit servers, all component values per channel for 24/32-bit) and by regenerated constants.",
    "level_note": "Trusted: Lean kernel, harness/driver/generator (testing; distribution in evidence), the C compiler's implementation of the unguarded int arithmetic outside the stated hypotheses. Not modelled: the RGB-table functions for 24 bpp clients.",
    "design_ref": "DESIGN.md section 7, C10",
}
