"""C11 — region algebra behaves as set algebra on pixels.

Proof: lean/VncModel/Props/C11.lean over the model lean/VncModel/Region/Model.lean (a transliteration
of rfbregion.c's loops on a zipper).
Tie: T1 (tools/c2lean.py regenerates sraClipRect, sraClipRect2 and sraRgnCreateRect's guard from the C
source on every run; Props/C11.lean section T1 proves them equal to the model functions) +
correspondence run harness/c11.c (the real sra* functions on a register file of regions) vs
Driver/C11.lean, exact comparison of every observation (boolean results + full rectangle list of the
destination after every region-modifying op).  Direct oracle (inside the harness, independent of
the Lean model): every op is re-done as bitmap set algebra on a coordinate-compressed grid and the
rectangles iterated from the library's region are rasterised and compared; iterator laws (non-empty,
disjoint, cover, order, count) are checked on every enumeration.

Generators
  corpus      corpus/C11/*.txt, always first
  exhaustive  every sequence of <=K rectangles on an NxN cell grid is or-ed together; the distinct
              resulting *representations* (rectangle lists) are collected and or/and/sub is run on
              ALL ordered pairs of them (K=2 quick, K=3 thorough on 3x3; plus 4x4 with K<=2 against
              K<=1 quick / sampled K<=2 pairs thorough)
  random      long histories over 16 registers: coordinates from palettes in the classes small /
              +-2^15 / +-2^30 / extreme (INT_MIN.., ..INT_MAX); empty, identical, aliased, touching and
              nested operands forced with fixed probabilities; "many" mode builds regions of hundreds
              of rectangles
  sizes       deterministic: and/subtract/isempty/count/iteration on results of exactly 255, 256, 257,
              511..513, 767..769 rectangles (combs, stacks, grids of isolated pixels): every returned
              boolean is compared with the model and with the oracle's emptiness
  raw         sraRgnCreateRect with inverted / empty / extreme rectangles (empty region since the
              fix in /repo 9d9d6cd) and their use as operands
  clip        sraClipRect / sraClipRect2 on boundary-heavy arguments
"""
import glob, json, os, time
from .. import common

PROPS_MOD = "VncModel.Props.C11"
EXTRA_TARGETS = ["drv_c11"]
GEN = ["leaf"]      # T1: sraClipRect / sraClipRect2 / sraRgnCreateRect's guard regenerated from the C source
INT_MAX = 2147483647
INT_MIN = -2147483648


# ---------------------------------------------------------------------------------- running
_STATE = {"fails": 0, "skipped": 0}


def run_pair(ctx, script, h, d, what, timeout=None, env=None):
    """-> (impl_lines, model_lines, failure|None); oracle failures come from the harness (rc 3).
    A script normally runs in well under 3 s; a run that exceeds the timeout is a hang of the
    library's loops (reported as a crash-kind failure with the script as the failing input)."""
    if timeout is None:
        timeout = 300 if ctx.tier == "quick" else 900   # generous: the machine may be heavily loaded
        # once several failing inputs are known, stop burning time (a hanging library costs a full
        # timeout per script); the failures already found are reported
        if _STATE["fails"] >= 4:
            _STATE["skipped"] += 1
            return [], [], None
    rc1, impl, err1 = ctx.run_lines(h, script, timeout=timeout, env=env)
    if rc1 != 0:
        _STATE["fails"] += 1
    if rc1 != 0:
        kind = "oracle" if (rc1 == 3 and "ORACLE:" in err1) else "crash"
        msg = err1.strip().splitlines()
        det = next((l for l in msg if l.startswith("ORACLE:")), err1[-1500:])
        if rc1 == 124:
            det = "HANG: the harness did not finish within %ds (after %d observations)" % (timeout, len(impl))
        if rc1 == -14:
            det = "HANG: one library call did not return within the watchdog time (harness watchdog; after %d observations)" % len(impl)
        return impl, [], {"kind": kind, "what": what + (": direct oracle" if kind == "oracle" else ": harness exit %d" % rc1),
                          "detail": det, "script": script, "impl": impl[-6:], "nobs": len(impl)}
    if not ctx.driver_ok:
        return impl, [], None
    rc2, model, err2 = ctx.run_lines(d, script, timeout=timeout)
    if rc2 != 0:
        return impl, model, {"kind": "exact", "what": what + ": model driver exit %d" % rc2,
                             "script": script, "detail": err2}
    k = common.first_diff(impl, model)
    if k is not None:
        _STATE["fails"] += 1
        return impl, model, {"kind": "exact", "what": what, "line": k, "script": script,
                             "impl": impl[max(0, k - 2):k + 3], "model": model[max(0, k - 2):k + 3]}
    return impl, model, None


def fails_same(ctx, script, h, d, kind):
    _, _, f = run_pair(ctx, script, h, d, "shrink", timeout=20, env={"C11_WATCHDOG": "5"})
    return f is not None and (f["kind"] == kind or (kind in ("oracle", "crash") and f["kind"] in ("oracle", "crash")))


def shrink(ctx, f, h, d, budget=40.0):
    """delta-debug the failing script (lines), keep the failure kind; returns the failure with a
    minimal script (list of lines) and verbose dumps"""
    lines = [l for l in f["script"].splitlines() if l.strip() and not l.startswith("verbose") and not l.startswith("#")]
    kind = f["kind"]
    t0 = time.time()
    # cut the tail after the failing op first
    if f.get("line") is not None:
        lines = lines[:f["line"] + 1]
    elif "HANG" in f.get("detail", "") and f.get("impl") is not None and "nobs" in f:
        lines = lines[:f["nobs"] + 1]
    elif "op #" in f.get("detail", ""):
        try:
            k = int(f["detail"].split("op #")[1].split()[0])
            lines = lines[:k]
        except Exception:
            pass
    n = 2
    while len(lines) >= 2 and time.time() - t0 < budget:
        chunk = max(1, len(lines) // n)
        reduced = False
        i = 0
        while i < len(lines) and time.time() - t0 < budget:
            cand = lines[:i] + lines[i + chunk:]
            if cand and fails_same(ctx, "\n".join(cand) + "\n", h, d, kind):
                lines = cand
                reduced = True
            else:
                i += chunk
        if not reduced:
            if chunk == 1:
                break
            n = min(len(lines), n * 2)
    script = "verbose 1\n" + "\n".join(lines) + "\n"
    impl, model, g = run_pair(ctx, script, h, d, f["what"], timeout=60, env={"C11_WATCHDOG": "15"})
    out = dict(g or f)
    out["what"] = f["what"]
    out["script"] = script.splitlines()
    out["impl"] = impl[-8:]
    if model:
        out["model"] = model[-8:]
    return out


# ---------------------------------------------------------------------------------- exhaustive
def all_rects(n):
    return [(x1, y1, x2, y2) for x1 in range(n) for x2 in range(x1 + 1, n + 1)
            for y1 in range(n) for y2 in range(y1 + 1, n + 1)]


def seqs_upto(rects, k):
    out = [()]
    layer = [()]
    for _ in range(k):
        layer = [s + (r,) for s in layer for r in rects]
        out += layer
    return out


def build_lines(seq, dst, tmp):
    """script lines that leave the union of `seq` (in this order) in register dst"""
    if not seq:
        return ["empty r%d" % dst]
    ls = ["mk r%d %d %d %d %d" % ((dst,) + seq[0])]
    for r in seq[1:]:
        ls.append("mk r%d %d %d %d %d" % ((tmp,) + r))
        ls.append("or r%d r%d" % (dst, tmp))
    return ls


def enumerate_reps(ctx, h, d, seqs, fails):
    """phase 1: run every sequence, collect distinct representations -> {dump: first sequence}"""
    batches = [seqs[i:i + 4000] for i in range(0, len(seqs), 4000)]

    def one(batch):
        ls, ends = ["verbose 1"], []
        for s in batch:
            ls += build_lines(s, 0, 1)
            ends.append(len(ls) - 1)
        script = "\n".join(ls) + "\n"
        impl, model, f = run_pair(ctx, script, h, d, "region.or (exhaustive build)")
        return batch, ends, impl, f
    reps, evals = {}, 0
    for batch, ends, impl, f in common.pmap(one, batches):
        if f:
            fails.append(f)
            continue
        if len(impl) <= ends[-1]:
            continue            # skipped after earlier failures
        for s, e in zip(batch, ends):
            rep = impl[e].split("= ", 1)[1]
            evals += 1
            if rep not in reps:
                reps[rep] = s
    return reps, evals


def pair_jobs(A, B, achunk=80, bchunk=46):
    """phase 2 jobs: all (a, b) in A x B, ops or/and/sub on a copy of a.  A job is (A-slice, B-slice);
    the script is built inside the worker (pair_script) so that millions of pairs never sit in memory."""
    return [(A[ai:ai + achunk], B[bi:bi + bchunk])
            for bi in range(0, len(B), bchunk) for ai in range(0, len(A), achunk)]


def pair_script(job):
    """B registers r16.., A in r0, scratch r1 (build) and r2 (work)"""
    As, Bs = job
    bl = []
    for j, s in enumerate(Bs):
        bl += build_lines(s, 16 + j, 1)
    blk = []
    for j in range(len(Bs)):
        for op in ("or", "and", "sub"):
            blk.append("dup r2 r0")
            blk.append("%s r2 r%d" % (op, 16 + j))
    blk = "\n".join(blk)
    parts = ["\n".join(bl)]
    for s in As:
        parts.append("\n".join(build_lines(s, 0, 1)))
        parts.append(blk)
    return "\n".join(parts) + "\n"


def run_pairs(ctx, h, d, jobs, what):
    """-> (pairs run, evaluations, failures, first script+impl for the distribution sample)"""
    def one(job):
        sc = pair_script(job)
        impl, model, f = run_pair(ctx, sc, h, d, what)
        return len(job[0]) * len(job[1]) if impl else 0, len(impl), f, ((sc, impl) if job is jobs[0] else None)
    pairs = evals = 0
    fl, sample = [], None
    for np_, ne, f, smp in common.pmap(one, jobs):
        pairs += np_
        evals += ne
        if f:
            fl.append(f)
        if smp:
            sample = smp
    return pairs, evals, fl, sample


# ---------------------------------------------------------------------------------- random
CLASSES = ("small", "mid", "big", "extreme", "mixed")


def palette(rng, cls, n):
    def pick():
        c = cls if cls != "mixed" else rng.choice(("small", "mid", "big"))
        if c == "small":
            return rng.randint(-6, 40) if n <= 24 else rng.randint(-8, 150)
        if c == "mid":
            return rng.choice((-1, 1)) * 32768 + rng.randint(-40, 40)
        if c == "big":
            v = rng.choice((-1, 1)) * (1 << 30) + rng.randint(-2000, 2000) - rng.choice((0, 0, 2000))
            return max(-(1 << 30) + 1, min((1 << 30) - 1, v))
        # extreme: hugging INT_MIN / INT_MAX (no offsets are generated for these)
        return rng.choice((INT_MIN + rng.randint(0, 6), INT_MAX - rng.randint(0, 6), rng.randint(-3, 3)))
    vals, tries = set(), 0
    while len(vals) < n and tries < 50 * n:      # (never spin: some classes have few distinct values)
        vals.add(pick())
        tries += 1
    while len(vals) < 3:
        vals.add(len(vals))
    return sorted(vals)


def gen_history(rng, nops, cls, psize, many):
    xs, ys = palette(rng, cls, psize), palette(rng, cls, psize)
    NR = 16
    mag = [0] * NR            # conservative bound on |coordinate| per register (overflow guard only)
    lines, forced = [], {"empty_operand": 0, "identical_operand": 0, "aliased": 0, "nested": 0, "touching": 0, "degenerate_rect": 0}
    last = None

    def rect(small=False):
        nonlocal last
        r = rng.random()
        if last and r < 0.10:          # nested in the previous rectangle (or equal to it)
            (a, b, c, e) = last
            ia, ic, ib, ie = xs.index(a), xs.index(c), ys.index(b), ys.index(e)
            i, j = sorted((rng.randint(ia, ic), rng.randint(ia, ic)))
            k, l = sorted((rng.randint(ib, ie), rng.randint(ib, ie)))
            if i < j and k < l:
                forced["nested"] += 1
                last = (xs[i], ys[k], xs[j], ys[l])
                return last
        if last and r < 0.20:          # touching the previous rectangle along an edge
            (a, b, c, e) = last
            ic, ie = xs.index(c), ys.index(e)
            if ic + 1 < len(xs) and rng.random() < 0.5:
                forced["touching"] += 1
                last = (c, b, xs[rng.randint(ic + 1, min(len(xs) - 1, ic + 3))], e)
                return last
            if ie + 1 < len(ys):
                forced["touching"] += 1
                last = (a, e, c, ys[rng.randint(ie + 1, min(len(ys) - 1, ie + 3))])
                return last
        if r > 0.965:                 # empty or inverted rectangle: sraRgnCreateRect gives the empty region
            i, j = rng.randrange(len(xs)), rng.randrange(len(xs))
            k, l = rng.randrange(len(ys)), rng.randrange(len(ys))
            if rng.random() < 0.5:
                i, j = max(i, j), min(i, j)
            else:
                k, l = max(k, l), min(k, l)
            forced["degenerate_rect"] += 1
            return (xs[i], ys[k], xs[j], ys[l])
        w = 2 if small else rng.choice((1, 2, 3, len(xs)))
        i = rng.randrange(len(xs) - 1)
        j = min(len(xs) - 1, i + rng.randint(1, w))
        k = rng.randrange(len(ys) - 1)
        l = min(len(ys) - 1, k + rng.randint(1, w))
        last = (xs[i], ys[k], xs[j], ys[l])
        return last

    def mk(d, small=False):
        r = rect(small)
        lines.append("mk r%d %d %d %d %d" % ((d,) + r))
        mag[d] = max(abs(v) for v in r)

    acc = list(range(0, 4))       # accumulators
    for _ in range(nops):
        r = rng.random()
        d, s = rng.randrange(NR), rng.randrange(NR)
        if many and r < 0.55:
            a = rng.choice(acc)
            mk(9, small=True)
            lines.append("%s r%d r9" % ("or" if rng.random() < 0.62 else "sub", a))
            mag[a] = max(mag[a], mag[9])
        elif r < 0.20:
            mk(d)
        elif r < 0.62:
            op = rng.choice(("or", "or", "and", "sub", "sub"))
            f = rng.random()
            if f < 0.05:
                lines.append("empty r%d" % s); mag[s] = 0
                forced["empty_operand"] += 1
            elif f < 0.10:
                lines.append("empty r%d" % d); mag[d] = 0
                forced["empty_operand"] += 1
            elif f < 0.16:
                lines.append("dup r%d r%d" % (s, d)); mag[s] = mag[d]
                forced["identical_operand"] += 1
            elif f < 0.20:
                s = d
                forced["aliased"] += 1
            if many and d in acc and op == "and" and rng.random() < 0.8:
                lines.append("dup r10 r%d" % d); mag[10] = mag[d]
                d = 10
            lines.append("%s r%d r%d" % (op, d, s))
            if op == "or":
                mag[d] = max(mag[d], mag[s])
        elif r < 0.68:
            if cls == "extreme":
                lines.append("isempty r%d" % d)
                continue
            t = rng.random()
            if t < 0.5:
                dx, dy = rng.randint(-5, 5), rng.randint(-5, 5)
            elif t < 0.85:   # lands on palette coordinates again
                dx = xs[rng.randrange(len(xs))] - xs[rng.randrange(len(xs))]
                dy = ys[rng.randrange(len(ys))] - ys[rng.randrange(len(ys))]
            else:
                dx, dy = rng.choice((-1, 1)) * rng.choice((32768, 65535, 1 << 20)), rng.choice((-1, 1)) * rng.choice((32767, 65536, 1 << 24))
            m = mag[d] + max(abs(dx), abs(dy))
            if m < INT_MAX - 1:
                lines.append("offset r%d %d %d" % (d, dx, dy))
                mag[d] = m
        elif r < 0.72:
            lines.append("bbox r%d r%d" % (d, s)); mag[d] = mag[s]
        elif r < 0.77:
            lines.append("pop r%d %d" % (d, rng.choice((0, 1, 2, 3, 3, 7, 4))))
        elif r < 0.82:
            lines.append("dup r%d r%d" % (d, s)); mag[d] = mag[s]
        elif r < 0.84:
            lines.append("empty r%d" % d); mag[d] = 0
        elif r < 0.88:
            lines.append("count r%d" % d)
        elif r < 0.91:
            lines.append("isempty r%d" % d)
        else:
            lines.append("iter r%d %d %d" % (d, rng.randint(0, 1), rng.randint(0, 1)))
    for a in acc:
        for rx in (0, 1):
            for ry in (0, 1):
                lines.append("iter r%d %d %d" % (a, rx, ry))
    return "\n".join(lines) + "\n", forced


def gen_raw(rng, n):
    """sraRgnCreateRect on arbitrary (mostly empty / inverted) rectangles, incl. INT_MIN / INT_MAX, and
    their use as operands"""
    ls = ["mk r1 -2 -2 3 3"]
    for _ in range(n):
        c = [rng.choice((rng.randint(-3, 3), rng.randint(-3, 3), rng.choice((INT_MIN, INT_MAX, 0, 32767, -32768)))) for _ in range(4)]
        if rng.random() < 0.4:
            c[2] = c[0]
        if rng.random() < 0.3:
            c[3] = c[1]
        ls.append("mkraw r3 %d %d %d %d" % tuple(c))
        ls.append("count r3")
        ls.append("isempty r3")
        for rx in (0, 1):
            for ry in (0, 1):
                ls.append("iter r3 %d %d" % (rx, ry))
        op = rng.choice(("or", "and", "sub"))
        ls.append("dup r2 r1")
        ls.append("%s r2 r3" % op)
        ls.append("%s r3 r1" % op)
    return "\n".join(ls) + "\n"


def gen_sizes():
    """deterministic: results of and / subtract (and sraRgnEmpty, count, iteration) with exactly
    255, 256, 257, 511, 512, 513, 767, 768, 769 rectangles — combs (one band, N x-spans), stacks
    (N bands), grids of isolated pixels — so that a boolean result that is derived from a
    truncated rectangle count (rfbBool is int8_t) is exposed.  The harness oracle compares every
    returned boolean with the emptiness of the expected pixel set; the model comparison is exact."""
    marks = (255, 256, 257, 511, 512, 513, 767, 768, 769)
    scripts = []

    def block(n, cover, away, frame):
        ls = []
        # r2 = rectangle covering everything, r3 = rectangle disjoint from everything
        ls += ["mk r2 %d %d %d %d" % cover, "mk r3 %d %d %d %d" % away, "mk r4 %d %d %d %d" % frame,
               "count r0", "isempty r0",
               "dup r1 r0", "and r1 r2", "isempty r1", "count r1",       # result = r0 (n rectangles): TRUE
               "dup r1 r0", "sub r1 r3", "isempty r1",                    # result = r0: TRUE
               "dup r1 r0", "and r1 r3", "isempty r1",                    # empty: FALSE
               "dup r1 r0", "sub r1 r2", "isempty r1",                    # empty: FALSE
               "dup r1 r0", "and r1 r1",                                  # identical operand
               "dup r1 r4", "sub r1 r0", "count r1", "isempty r1",        # frame minus pattern
               "dup r1 r4", "and r1 r0", "count r1",
               "dup r1 r0", "or r1 r3", "count r1", "isempty r1",
               "iter r1 1 0", "iter r1 0 1"]
        return ls
    # comb: pixels (2i, 0); frame minus comb has n+1 pieces
    ls = ["empty r0"]
    for i in range(770):
        ls += ["mk r9 %d 0 %d 1" % (2 * i, 2 * i + 1), "or r0 r9"]
        if i + 1 in marks or i + 2 in marks:
            ls += block(i + 1, (-1, -1, 2 * i + 2, 2), (-9, 5, -3, 9), (-1, 0, 2 * i + 2, 1))
    scripts.append(("comb", "\n".join(ls) + "\n"))
    # stack: pixels (0, 2i)
    ls = ["empty r0"]
    for i in range(770):
        ls += ["mk r9 0 %d 1 %d" % (2 * i, 2 * i + 1), "or r0 r9"]
        if i + 1 in marks or i + 2 in marks:
            ls += block(i + 1, (-1, -1, 2, 2 * i + 2), (5, -9, 9, -3), (0, -1, 1, 2 * i + 2))
    scripts.append(("stack", "\n".join(ls) + "\n"))
    # grids of isolated pixels: 16x16 = 256, 32x16 = 512, 17x15 = 255, 32x24 = 768, and one off each
    for (w, h) in ((16, 16), (32, 16), (17, 15), (32, 24), (16, 32), (64, 4), (8, 32)):
        ls = ["empty r0"]
        for j in range(h):
            for i in range(w):
                ls += ["mk r9 %d %d %d %d" % (3 * i, 3 * j, 3 * i + 1, 3 * j + 1), "or r0 r9"]
        ls += block(w * h, (-1, -1, 3 * w, 3 * h), (-9, -9, -3, -3), (0, 0, 3 * w, 3 * h))
        # one pixel more / less
        ls += ["mk r9 %d 0 %d 1" % (3 * w + 2, 3 * w + 3), "or r0 r9"]
        ls += block(w * h + 1, (-1, -1, 3 * w + 4, 3 * h), (-9, -9, -3, -3), (0, 0, 3 * w + 4, 3 * h))
        ls += ["pop r0 3", "pop r0 0"]
        ls += block(w * h - 1, (-1, -1, 3 * w + 4, 3 * h), (-9, -9, -3, -3), (0, 0, 3 * w + 4, 3 * h))
        scripts.append(("grid %dx%d" % (w, h), "\n".join(ls) + "\n"))
    return scripts


def gen_clip(rng, n):
    ls = []
    for _ in range(n):
        base = rng.choice((0, 0, 100, -50, 32768, 1 << 29))
        cx, cy = base + rng.randint(-3, 3), base + rng.randint(-3, 3)
        cw, ch = rng.choice((0, 1, 2, 5, 7, 640, 65535, -1)), rng.choice((0, 1, 2, 5, 7, 480, 65535, -2))

        def near(lo, hi):
            return rng.choice((lo, hi, lo - 1, lo + 1, hi - 1, hi + 1, rng.randint(lo - 4, hi + 4)))
        x, y = near(cx, cx + cw), near(cy, cy + ch)
        if rng.random() < 0.5:
            x2, y2 = near(cx, cx + cw), near(cy, cy + ch)
            w, h = x2 - x, y2 - y
        else:
            w, h = rng.randint(-2, 9), rng.randint(-2, 9)
        ls.append("clip %d %d %d %d %d %d %d %d" % (x, y, w, h, cx, cy, cw, ch))
        ls.append("clip2 %d %d %d %d %d %d %d %d" % (x, y, x + w, y + h, cx, cy, cx + cw, cy + ch))
    return "\n".join(ls) + "\n"


# ---------------------------------------------------------------------------------- main
def tally(dist, script, impl, nontriv):
    """measured distribution from the actual scripts / implementation outputs"""
    regs = {}
    ops = [l for l in script.splitlines() if l.strip() and not l.startswith("#")]
    for op, ob in zip(ops, impl):
        t = op.split()
        k = t[0]
        dist["ops"][k] = dist["ops"].get(k, 0) + 1
        if ob == "bad-op":
            dist["bad_ops"] += 1
            continue
        if " = " in ob or ob.startswith("ok ="):
            res, dump = ob.split("= ", 1) if "= " in ob else (ob, "0")
            n = int(dump.split()[0])
            b = 0 if n == 0 else (1 if n == 1 else (2 if n <= 4 else (3 if n <= 16 else (4 if n <= 64 else (5 if n <= 256 else 6)))))
            key = ("0", "1", "2-4", "5-16", "17-64", "65-256", ">256")[b]
            dist["result_rects"][key] = dist["result_rects"].get(key, 0) + 1
            if k in ("or", "and", "sub") and len(t) == 3:
                a, bb = regs.get(t[1], "0"), regs.get(t[2], "0")
                if k != "or":
                    r = res.strip()
                    dist["bool_results"][k + "=" + r] = dist["bool_results"].get(k + "=" + r, 0) + 1
                if a != "0" and bb != "0":
                    nontriv.add(hash((k, a, bb)))
            if k in ("mk", "mkraw", "empty", "dup", "or", "and", "sub", "offset", "bbox", "pop"):
                regs[t[1]] = dump


def run(ctx):
    h = ctx.harness("c11")
    d = ctx.driver("drv_c11")
    quick = ctx.tier == "quick"
    fails, samples = [], []
    dist = {"ops": {}, "result_rects": {}, "bool_results": {}, "bad_ops": 0, "coord_class": {},
            "forced": {}, "exhaustive": {}, "streams": {}}
    nontriv = set()
    evals = 0
    exhaustive_ok = True

    def note(f):
        if f and len(fails) < 6:
            fails.append(f)

    if ctx.replay:
        rec = json.load(open(ctx.replay))
        sc = rec.get("script") or rec.get("ops") or (rec.get("first_disagreement") or {}).get("script") or []
        script = "\n".join(sc) + "\n"
        impl, model, f = run_pair(ctx, script, h, d, "replay")
        if f:
            f["script"] = script.splitlines()
            fails.append(f)
        return {"evaluations": len(impl), "distinct_nontrivial": 0, "rule": "replay of one script",
                "samples": [{"script": sc[:50], "impl": impl[:50]}], "distribution": {}, "failures": fails,
                "partial": PARTIAL, "assumptions": ASSUMPTIONS}

    # ---- corpus
    for p in sorted(glob.glob(os.path.join(common.VERIF, "corpus", "C11", "*.txt"))):
        script = open(p).read()
        impl, model, f = run_pair(ctx, script, h, d, "corpus " + os.path.basename(p))
        evals += len(impl)
        tally(dist, script, impl, nontriv)
        note(f)
        dist["streams"]["corpus"] = dist["streams"].get("corpus", 0) + 1

    # ---- deterministic: boolean results for results of 255 / 256 / 257 / 512 / 768 ... rectangles
    szres = common.pmap(lambda s: run_pair(ctx, s[1], h, d, "boolean results at 256k rectangles (%s)" % s[0]), gen_sizes())
    dist["sizes_stream"] = {}
    for (name, sc), (impl, model, f) in zip(gen_sizes(), szres):
        evals += len(impl)
        note(f)
        ops = [l for l in sc.splitlines()]
        hits = {}
        last = {}
        for op, ob in zip(ops, impl):
            tk = op.split()
            if " = " in ob and tk[0] in ("and", "sub"):
                res, dump = ob.split(" = ", 1)
                n = int(dump.split()[0])
                if n and n % 256 == 0:
                    hits["%s->%d rects:%s" % (tk[0], n, res)] = hits.get("%s->%d rects:%s" % (tk[0], n, res), 0) + 1
        dist["sizes_stream"][name] = hits
        nontriv.update(hash((name, op)) for op in ops if op.startswith(("and", "sub")))

    # ---- exhaustive small grid
    t0 = time.time()
    plans = [(3, 2 if quick else 3, None)]
    for (n, k, _) in plans:
        seqs = seqs_upto(all_rects(n), k)
        reps, ev = enumerate_reps(ctx, h, d, seqs, fails)
        evals += ev
        R = list(reps.values())
        pairs, ev, fl, sample = run_pairs(ctx, h, d, pair_jobs(R, R),
                                          "region.or/and/sub (exhaustive pairs %dx%d grid, <=%d rectangles)" % (n, n, k))
        evals += ev
        for f in fl:
            note(f)
            exhaustive_ok = False
        ne = sum(1 for s in R if s)
        if sample:
            tally(dist, sample[0], sample[1], set())
        dist["exhaustive"]["grid %dx%d, <=%d rects" % (n, n, k)] = {
            "sequences": len(seqs), "distinct_representations": len(R), "ordered_pairs": pairs,
            "op_instances": pairs * 3, "pairs_both_nonempty": ne * ne}
        dist["exhaustive"]["nontrivial_%d_%d" % (n, k)] = ne * ne * 3
    # 4x4 grid: regions of <=2 rectangles against single rectangles (both orders)
    seqs4 = seqs_upto(all_rects(4), 2)
    reps4, ev = enumerate_reps(ctx, h, d, seqs4, fails)
    evals += ev
    R4 = list(reps4.values())
    one4 = [s for s in R4 if len(s) <= 1]
    if quick:
        sub = [R4[i] for i in sorted(ctx.rng.sample(range(len(R4)), min(len(R4), 900)))]
        jobs = pair_jobs(sub, one4) + pair_jobs(one4, sub)
        label = "sampled 900 of the <=2-rect representations x all <=1-rect, both orders"
    else:
        sub = [R4[i] for i in sorted(ctx.rng.sample(range(len(R4)), min(len(R4), 1200)))]
        jobs = pair_jobs(R4, one4) + pair_jobs(one4, R4) + pair_jobs(sub, sub)
        label = "all <=2-rect representations x all <=1-rect (both orders) + 1200^2 sampled <=2 x <=2 pairs"
    pairs, ev, fl, _ = run_pairs(ctx, h, d, jobs, "region.or/and/sub (4x4 grid pairs)")
    evals += ev
    for f in fl:
        note(f)
        if not quick:
            exhaustive_ok = False
    dist["exhaustive"]["grid 4x4"] = {"sequences": len(seqs4), "distinct_representations": len(R4),
                                      "pairs_run": pairs, "op_instances": pairs * 3, "selection": label}
    ex_nontriv = sum(v for k, v in dist["exhaustive"].items() if k.startswith("nontrivial_"))
    dist["streams"]["exhaustive_wall_s"] = round(time.time() - t0, 1)

    # ---- random histories
    t0 = time.time()
    jobs = []
    nh = 320 if quick else 1500
    for i in range(nh):
        cls = CLASSES[i % len(CLASSES)]
        many = (i % 6 == 5)
        if many:
            nops, ps = (ctx.rng.choice((600, 1500)), ctx.rng.choice((14, 24, 40))) if quick else (ctx.rng.choice((800, 2500, 6000)), ctx.rng.choice((14, 24, 40, 60)))
            if cls == "extreme":
                ps = min(ps, 14)
        else:
            nops, ps = ctx.rng.choice((30, 120, 400) if quick else (30, 120, 400, 2000)), ctx.rng.choice((4, 5, 7, 10))
        sc, forced = gen_history(ctx.rng, nops, cls, ps, many)
        jobs.append((sc, cls + ("/many" if many else ""), forced))
    res = common.pmap(lambda j: run_pair(ctx, j[0], h, d, "region history (%s)" % j[1]), jobs)
    for (sc, cls, forced), (impl, model, f) in zip(jobs, res):
        evals += len(impl)
        tally(dist, sc, impl, nontriv)
        dist["coord_class"][cls] = dist["coord_class"].get(cls, 0) + 1
        for k, v in forced.items():
            dist["forced"][k] = dist["forced"].get(k, 0) + v
        note(f)
        if len(samples) < 3 and len(sc) < 3000:
            samples.append({"script": sc.splitlines(), "impl": impl})
    dist["streams"]["random_histories"] = nh
    dist["streams"]["scripts_skipped_after_failures"] = _STATE["skipped"]
    dist["streams"]["random_wall_s"] = round(time.time() - t0, 1)

    # ---- raw createRect + clip streams
    for i in range(4 if quick else 30):
        sc = gen_raw(ctx.rng, 300)
        impl, model, f = run_pair(ctx, sc, h, d, "sraRgnCreateRect on arbitrary rectangles")
        evals += len(impl); tally(dist, sc, impl, nontriv); note(f)
        sc = gen_clip(ctx.rng, 3000)
        impl, model, f = run_pair(ctx, sc, h, d, "sraClipRect/sraClipRect2")
        evals += len(impl); tally(dist, sc, impl, nontriv); note(f)
        for op, ob in zip(sc.splitlines(), impl):
            k = op.split()[0] + "=" + ob.split()[0]
            dist["bool_results"][k] = dist["bool_results"].get(k, 0) + 1

    # ---- shrink what failed
    out = []
    for f in fails[:3]:
        try:
            out.append(shrink(ctx, f, h, d))
        except Exception as e:  # never lose a failure because the shrinker failed
            g = dict(f); g["script"] = f["script"].splitlines()[:2000]; g["shrink_error"] = repr(e)
            out.append(g)
    return {
        "evaluations": evals,
        "distinct_nontrivial": len(nontriv) + ex_nontriv,
        "rule": "one evaluation = one op executed by the real library, compared exactly with the model and checked by the bitmap oracle; non-trivial = distinct (op in or/and/sub, exact representation of destination, exact representation of source) with both operands non-empty (random streams: counted from the outputs; exhaustive: 3 x (non-empty representations)^2)",
        "samples": samples, "distribution": dist, "failures": out,
        "exhaustive": exhaustive_ok and not fails and not _STATE["skipped"],
        "partial": PARTIAL, "assumptions": ASSUMPTIONS,
        "trusted_extra": ["harness/c11.c's bitmap oracle (coordinate compression + 64-bit row bitsets), ~150 lines of C independent of the Lean model"],
    }


PARTIAL = ["bbox_den assumes InRange = 'all coordinates are C ints' (true of every region the C code can hold; the model computes in unbounded Int)"]
ASSUMPTIONS = [
    "C int arithmetic does not overflow: sraRgnOffset / sraClipRect add coordinates; the model uses unbounded Int and the generators keep |coord|+|delta| < 2^31 (signed overflow is undefined behaviour in C)",
    "operands are well-formed regions, i.e. built by the library's own API (sraRgnCreateRect returns the empty region for empty/inverted rectangles, so every region the API can build is well-formed: theorems createRect_wf, or_wf, and_wf, sub_wf, offset_wf, bbox_wf, popRect_some)",
    "dst and src of or/and/sub are distinct objects (the server never aliases them); `op rN rN` in scripts operates on an equal copy",
    "malloc never fails",
]

META = {
    "technique": "Lean 4 refinement proof (executable zipper model of rfbregion.c's span-list loops; generic span-list layer proved once and instantiated at the x and y level) + exact differential run of the model against the real sra* functions + in-harness bitmap oracle",
    "level_text": "Proof: Props/C11.lean proves for ALL well-formed regions (unbounded size and coordinates) that or/and/sub/offset/bbox/isEmpty/createRect/popRect/iteration of the model compute the pixel-set operation and preserve well-formedness. The model is tied to rfbregion.c on every run by an exact comparison of every result rectangle list (exhaustive pairs on small grids, long random histories) and a model-independent bitmap oracle.",
    "level_note": "Trusted: Lean kernel, the correspondence run (testing; distribution in the evidence). Modelled: the span-list loops incl. mergePrevious/mergeNext, non-canonical results, INT_MAX seeds of bbox. Modelled separately: the iterator's sPtrs/ptrPos state machine (IterModel.lean, refinement iter_refines, executed by the driver). Not modelled: pointer/sentinel structure of the span lists (lists instead), malloc failure, int overflow (excluded), aliasing dst==src.",
    "design_ref": "DESIGN.md section 7 C11, Appendix B",
}
