"""C19 — file-transfer operations touch the filesystem only when permitted.

Proof: lean/VncModel/Props/C19.lean about the executable model lean/VncModel/FileXfer/Model.lean
(UltraVNC built-in file transfer of rfbserver.c + TightVNC 1.3 extension), with the buffer sizes and
protocol numbers regenerated from /repo on every run (tools/consts/c19.{c,py}).
Tie: harness/c19.c runs the REAL message handlers over socketpairs in a sandbox directory and logs
every libc file-system call (link-level interposition), every call of the permission callback, the
parsed server->client messages and the connection / transfer state after each message.  The Lean
driver predicts exactly the same lines; results of libc calls (does the file exist, directory
entries, bytes read) are parameters of the model and are taken from the harness run (`env` lines).
Direct oracle (below): the property's words evaluated on the harness output only.
"""
import json, os, struct, shutil
from .. import common

PROPS_MOD = "VncModel.Props.C19"
EXTRA_TARGETS = ["drv_c19"]
SB = "/tmp/verif-c19-0000000"
MAX_PATH = 260
HENV = {"ASAN_OPTIONS": "detect_leaks=0:abort_on_error=0:allocator_may_return_null=1"}
import itertools
_counter = itertools.count(1)       # next() is atomic: harness runs are started from worker threads


# ----------------------------------------------------------------------------- running
def _suffix():
    """sandbox number, unique among the harness processes that can be alive at the same time"""
    return "%07d" % ((os.getpid() % 10000) * 1000 + next(_counter) % 1000)


def run_harness(ctx, h, script):
    suf = _suffix()
    lines = [l for l in script.splitlines() if l.strip() and not l.startswith("env") and not l.startswith("#")]
    try:
        rc, impl, err = ctx.run_lines(h, "\n".join(lines) + "\n", timeout=120, env=HENV, args=(suf,))
    except FileNotFoundError:
        # the shared cache's garbage collection (vlib/build._gc) removed the binary during a long run
        h = ctx.harness("c19")
        rc, impl, err = ctx.run_lines(h, "\n".join(lines) + "\n", timeout=120, env=HENV, args=(suf,))
    shutil.rmtree("/tmp/verif-c19-" + suf, ignore_errors=True)
    return lines, rc, impl, err


def split_blocks(impl):
    """observation lines -> one block per op (terminated by '.')"""
    blocks, cur = [], []
    for l in impl:
        if l == ".":
            blocks.append(cur)
            cur = []
        else:
            cur.append(l)
    return blocks, cur


def with_env(ops, blocks):
    """script for the model: before each op an `env` line with the libc results of that op"""
    out = []
    for i, op in enumerate(ops):
        toks = []
        if i < len(blocks):
            for l in blocks[i]:
                if (l.startswith("fs ") or l.startswith("x ")) and " -> " in l:
                    toks.append(l.split(" -> ", 1)[1])
        out.append("env " + "|".join(toks))
        out.append(op)
    return "\n".join(out) + "\n"


def two_pass(ctx, h, d, script, what):
    """-> (ops, impl, model, failure|None)"""
    ops, rc, impl, err = run_harness(ctx, h, script)
    if rc != 0:
        return ops, impl, [], {"kind": "crash", "what": what + ": harness exit %d" % rc,
                               "script": ops[:400], "impl": impl[-20:], "detail": err}
    if not ctx.driver_ok:
        return ops, impl, [], None
    blocks, rest = split_blocks(impl)
    ms = with_env(ops, blocks)
    rc2, model, err2 = ctx.run_lines(d, ms, timeout=120)
    if rc2 != 0:
        return ops, impl, model, {"kind": "exact", "what": what + ": model driver exit %d" % rc2,
                                  "script": ops[:400], "detail": err2}
    a = [l for l in impl if not l.startswith("#")]
    dd = common.first_diff(a, model)
    if dd is not None:
        return ops, impl, model, {"kind": "exact", "what": what, "line": dd, "script": ops[:400],
                                  "impl": a[max(0, dd - 3):dd + 3], "model": model[max(0, dd - 3):dd + 3]}
    return ops, impl, model, None


# ----------------------------------------------------------------------------- message builders
SBb = SB.encode()
ROOT = SBb + b"/root"
HOME0 = SBb                     # `home 0`
U32 = 0xFFFFFFFF


def hx(b):
    return b.hex() if b else "-"


def ft(c, ct, cp, size, length, data=b""):
    return "ft c%d %d %d %d %d %s" % (c, ct & 255, cp & 255, size & U32, length & U32, hx(data))


def send(c, b):
    return "send c%d %s" % (c, hx(b))


def t_list(name, flags=0, n=None):
    return bytes([130, flags]) + struct.pack(">H", len(name) if n is None else n) + name


def t_dl(name, n=None):
    return bytes([131, 0]) + struct.pack(">HI", len(name) if n is None else n, 0) + name


def t_ul(name, n=None):
    return bytes([132, 0]) + struct.pack(">HI", len(name) if n is None else n, 0) + name


def t_data(data, level=0, real=None):
    return bytes([133, level]) + struct.pack(">HH", len(data) if real is None else real, len(data)) + data


def t_done(mtime=1000000000):
    return bytes([133, 0, 0, 0, 0, 0]) + struct.pack("<I", mtime)


def t_reason(ty, reason):
    return bytes([ty, 0]) + struct.pack(">H", len(reason)) + reason


def t_mkdir(name, n=None):
    return bytes([136, 0]) + struct.pack(">H", len(name) if n is None else n) + name


def lp(L, kind, tail=b"a.txt"):
    """a path of exactly L bytes that still names `tail` ('./' padding); kind: rel | abs (C:<sandbox>/)"""
    pre = b"" if kind == "rel" else b"C:" + SBb + b"/"
    room = L - len(pre) - len(tail)
    if room < 0:
        return (pre + tail)[:max(L, 0)]
    k, odd = divmod(room, 2)
    pad = b"./" * k
    if odd:
        pad = (pad + b"/") if k else b"x"
    return pre + pad + tail


BASE_PATHS = [b"a.txt", b"big.bin", b"empty", b"blk.bin", b"zz.bin", b"dir1", b"dir1/f1", b"dir1\\sub\\g",
              b"dir1/sub", b"dir2", b"nonexist", b"no/such/dir/f", b"C:" + SBb + b"/a.txt",
              b"C:" + SBb + b"\\dir1", b"C:" + SBb + b"/dir2", b"C:" + SBb + b"/big.bin",
              b"D:" + SBb + b"/a.txt", b"c:/x", b"C:", b"C", b"", b".", b"dir1/../a.txt",
              b"C:" + SBb + b"/dir1/../secret.txt", b"C:/etc/hostname", b"a.txt\0junk", b"dir1/.hidden",
              b"C:" + SBb + b"/root/r.txt", b"dir1/sub/..", b"./dir1/./sub", b"C:" + SBb + b"/zz.bin"]
NEW_NAMES = [b"new1", b"new2.bin", b"dir2/up", b"dir1/sub/n", b"C:" + SBb + b"/new3", b"nodir/up",
             b"dir1", b"C:" + SBb + b"/../escape", b"../esc2", b"a.txt"]


def rand_path(rng, existing=True):
    r = rng.random()
    if r < 0.62:
        return rng.choice(BASE_PATHS if existing else NEW_NAMES)
    if r < 0.92:
        kind = rng.choice(["rel", "abs"])
        L = rng.choice([233, 234, 235, 236, 237, 238, 239, 240, 256, 257, 258, 259, 260, 261, 262, 300, 520])
        return lp(L, kind, rng.choice([b"a.txt", b"dir1", b"big.bin", b"newL"]))
    return bytes(rng.randrange(1, 256) for _ in range(rng.randrange(1, 40)))


CB_CHOICES = ["none", "none", "none", "1", "1", "0", "2", "10", "110", "1110", "11110", "111110", "1111110",
              "11111110", "111111110", "1111111110", "11111111110", "101", "1101", "1211", "1112", "01"]


def rand_cfg(rng, allow=None):
    if allow is True:
        return "cfg permit=1 cb=%s" % rng.choice(["none", "none", "1"])
    if allow is False:
        return rng.choice(["cfg permit=0 cb=none", "cfg permit=0 cb=1", "cfg permit=1 cb=0", "cfg permit=2 cb=none",
                           "cfg permit=1 cb=2", "cfg permit=0 cb=0", "cfg permit=2 cb=1"])
    p = rng.choice([1, 1, 1, 1, 0, 2])
    cb = rng.choice(CB_CHOICES)
    if cb not in ("none", "0", "1", "2") and rng.random() < 0.3:
        cb = "".join(rng.choice("01") for _ in range(rng.randrange(2, 12)))
    return "cfg permit=%d cb=%s" % (p, cb)


def zlib_bytes(rng, n):
    import zlib
    raw = bytes((i * 3 + 1) & 255 for i in range(n))
    return zlib.compress(raw)


def rand_msg(rng, c):
    """one UltraVNC file-transfer message (op string), any content type, mostly well-formed"""
    r = rng.random()
    if r < 0.16:      # directory listing / drives
        if rng.random() < 0.2:
            return ft(c, 1, 2, rng.choice([0, 5]), rng.choice([0, 0, 7]))
        p = rng.choice([b"dir1", b"dir2", b"", b".", b"C:" + SBb + b"/dir1", b"C:" + SBb + b"\\dir1\\sub", b"nonexist",
                        b"a.txt", b"dir1/sub", b"C:" + SBb + b"/root", b"dir1\0x"]) if rng.random() < 0.7 else rand_path(rng)
        if p.startswith(b"C:/etc") or b".." in p:
            p = b"dir1"
        return ft(c, 1, rng.choice([1, 1, 1, 1, 3, 0]), 0, len(p), p)
    if r < 0.32:      # request
        p = rand_path(rng)
        return ft(c, 3, 0, rng.choice([0, 1, 1, 2]), len(p), p)
    if r < 0.40:      # file header
        return ft(c, 4, 0, rng.choice([0, 100, U32, 1]), rng.choice([0, 0, 3]))
    if r < 0.52:      # offer
        p = rand_path(rng, existing=rng.random() < 0.3)
        tail = rng.choice([b",01/01/2020 10:00", b"", b",", b",x,y", b",01/01/2020 10:00" * 20])
        pl = p + tail
        extra = rng.choice([b"\0\0\0\0", b"\0\0\0\0", b"\0\0\0\0", b"\0\0", b""])
        return ft(c, 8, 0, rng.choice([0, 10, 20000]), len(pl), pl + extra)
    if r < 0.62:      # packet
        if rng.random() < 0.3:
            z = zlib_bytes(rng, rng.choice([10, 500, 8192])) if rng.random() < 0.7 else bytes(rng.randrange(256) for _ in range(20))
            return ft(c, 5, 0, 1, len(z), z)
        d = bytes(rng.randrange(256) for _ in range(rng.choice([1, 10, 100, 700])))
        return ft(c, 5, 0, 0, len(d), d)
    if r < 0.67:
        return ft(c, 6, 0, 0, 0)
    if r < 0.74:
        return ft(c, 7, rng.choice([0, 1, 1, 2]), rng.choice([0, U32]), 0)
    if r < 0.92:      # command
        cp = rng.choice([1, 1, 4, 4, 4, 5, 5, 5, 0, 2, 3])
        if cp == 5:
            a, b = rand_path(rng), rand_path(rng, existing=False)
            sep = rng.choice([b"*", b"*", b"*", b"", b"**", b"*x*"])
            pl = a + sep + b
        elif cp == 4:
            pl = rand_path(rng) if rng.random() < 0.6 else rng.choice([b"dir2", b"dir1", b"empty", b"dir1/sub/g", b"dir1/sub"])
        else:
            pl = rand_path(rng, existing=rng.random() < 0.3)
        return ft(c, 10, cp, 0, len(pl), pl)
    ct = rng.choice([0, 2, 9, 11, 12, 13, 14, 15, 200, 255])
    return ft(c, ct, rng.randrange(0, 6), rng.choice([0, 1, U32]), 0)


# ----------------------------------------------------------------------------- scenarios
def sc_single(rng):
    """one message of any type under a random configuration, then teardown"""
    ops = [rand_cfg(rng), "home %d" % rng.choice([0, 0, 0, -1, 1, 3, 10]), "conn c0"]
    for _ in range(rng.choice([1, 1, 2, 3])):
        ops.append(rand_msg(rng, 0))
    ops += ["gone c0", "reap", "fds"]
    return ops


def sc_denied(rng):
    """every message type against a server that does not permit file transfer"""
    ops = [rand_cfg(rng, allow=False), "conn c0"]
    ops.append(rand_msg(rng, 0))
    ops += ["chunk c0", rand_msg(rng, 0), "reap", "fds"]
    return ops


def sc_download(rng):
    f = rng.choice([b"a.txt", b"big.bin", b"empty", b"blk.bin", b"zz.bin", b"dir1", b"nonexist", b"C:" + SBb + b"/big.bin",
                    lp(259, "rel"), lp(236, "rel"), lp(259, "abs"), lp(260, "abs")])
    ops = [rand_cfg(rng, allow=True if rng.random() < 0.7 else None), "home %d" % rng.choice([0, 0, -1]), "conn c0"]
    comp = rng.choice([0, 1])
    ops.append(ft(0, 3, 0, comp, len(f), f))
    r = rng.random()
    if r < 0.15:
        ops.append(ft(0, 4, 0, U32, 0))
    else:
        ops.append(ft(0, 4, 0, 0, 0))
        for _ in range(rng.choice([0, 1, 2, 4])):
            ops.append("chunk c0")
        r2 = rng.random()
        if r2 < 0.2:
            ops.append(ft(0, 7, 0, 0, 0))
        elif r2 < 0.4:
            g = rng.choice([b"a.txt", b"zz.bin", b"nonexist"])
            ops.append(ft(0, 3, 0, 0, len(g), g))         # second request: descriptor overwritten
        elif r2 < 0.5:
            ops.append(rand_cfg(rng, allow=False))
            ops.append("chunk c0")
        elif r2 < 0.6:
            ops.append(ft(0, 5, 0, 0, 4, b"data"))        # packet into a read-only descriptor
    if rng.random() < 0.5:
        ops.append("fds")
    ops += ["gone c0", "reap", "fds"]
    return ops


def sc_upload(rng):
    f = rand_path(rng, existing=False) if rng.random() < 0.8 else rng.choice([lp(259, "rel", b"newL"), lp(260, "rel", b"newL"), lp(236, "rel", b"newL")])
    ops = [rand_cfg(rng, allow=True if rng.random() < 0.7 else None), "home %d" % rng.choice([0, 0, -1, 2]), "conn c0"]
    pl = f + rng.choice([b",01/01/2020 10:00", b""])
    ops.append(ft(0, 8, 0, 300, len(pl), pl + b"\0\0\0\0"))
    for _ in range(rng.choice([0, 1, 2, 3])):
        if rng.random() < 0.3:
            z = zlib_bytes(rng, rng.choice([10, 500, 8192])) if rng.random() < 0.7 else b"notzlib"
            ops.append(ft(0, 5, 0, 1, len(z), z))
        else:
            d = bytes(rng.randrange(256) for _ in range(rng.choice([1, 50, 300])))
            ops.append(ft(0, 5, 0, 0, len(d), d))
    r = rng.random()
    if r < 0.4:
        ops.append(ft(0, 6, 0, 0, 0))
    elif r < 0.55:
        ops.append(ft(0, 7, 0, 0, 0))
    elif r < 0.7:
        g = rand_path(rng, existing=False)
        ops.append(ft(0, 8, 0, 1, len(g), g + b"\0\0\0\0"))   # second offer
    elif r < 0.8:
        ops.append(ft(0, 4, 0, 0, 0))                          # header: "sending" on a write-only fd
    if rng.random() < 0.5:
        ops.append("fds")
    ops += ["gone c0", "reap", "fds"]
    return ops


def sc_orders(rng):
    """random (also illegal) orders of request/offer/header/packet/eof/abort/commands, permission
    changes and teardown in between, two connections"""
    ops = [rand_cfg(rng, allow=True if rng.random() < 0.5 else None), "home %d" % rng.choice([0, 0, -1]), "conn c0"]
    two = rng.random() < 0.4
    if two:
        ops.append("conn c1")
    flow = [3, 3, 4, 4, 5, 6, 7, 8, 8, 10, 1]
    for _ in range(rng.randrange(3, 11)):
        c = rng.choice([0, 1]) if two else 0
        r = rng.random()
        if r < 0.62:
            ct = rng.choice(flow)
            if ct == 3:
                p = rng.choice([b"a.txt", b"big.bin", b"zz.bin", b"nonexist", b"empty"])
                ops.append(ft(c, 3, 0, rng.choice([0, 1]), len(p), p))
            elif ct == 4:
                ops.append(ft(c, 4, 0, rng.choice([0, 0, 0, U32]), 0))
            elif ct == 5:
                d = bytes(rng.randrange(256) for _ in range(rng.choice([1, 64])))
                ops.append(ft(c, 5, 0, 0, len(d), d))
            elif ct == 6:
                ops.append(ft(c, 6, 0, 0, 0))
            elif ct == 7:
                ops.append(ft(c, 7, rng.choice([0, 1]), 0, 0))
            elif ct == 8:
                p = rng.choice(NEW_NAMES[:5]) + b",t"
                ops.append(ft(c, 8, 0, 5, len(p), p + b"\0\0\0\0"))
            else:
                ops.append(rand_msg(rng, c))
        elif r < 0.80:
            ops.append("chunk c%d" % c)
        elif r < 0.88:
            ops.append(rand_cfg(rng))
        elif r < 0.93:
            ops.append("gone c%d" % c)
        elif r < 0.97:
            ops.append("reap")
        else:
            ops.append("fds")
    ops += ["gone c0", "reap", "fds"]
    if two:
        ops += ["gone c1", "reap", "fds"]
    return ops


def sc_flip(rng):
    """the callback changes its answer at every possible consult position of one operation"""
    k = rng.randrange(0, 13)
    cb = "1" * k + rng.choice(["0", "0", "2", "01"])
    ops = ["cfg permit=1 cb=%s" % cb, "home %d" % rng.choice([0, -1]), "conn c0"]
    kind = rng.choice(["list", "req", "offer", "mkdir", "del", "ren", "abort", "down"])
    if kind == "list":
        p = rng.choice([b"dir1", b"C:" + SBb + b"/dir1", b"dir2", b"nonexist"])
        ops.append(ft(0, 1, 1, 0, len(p), p))
    elif kind == "req":
        p = rng.choice([b"a.txt", b"nonexist"])
        ops.append(ft(0, 3, 0, 0, len(p), p))
    elif kind == "offer":
        p = b"flipup,t"
        ops.append(ft(0, 8, 0, 0, len(p), p + b"\0\0\0\0"))
        ops.append(ft(0, 5, 0, 0, 3, b"abc"))
    elif kind == "mkdir":
        ops.append(ft(0, 10, 1, 0, 5, b"flipd"))
    elif kind == "del":
        p = rng.choice([b"empty", b"dir2"])
        ops.append(ft(0, 10, 4, 0, len(p), p))
    elif kind == "ren":
        ops.append(ft(0, 10, 5, 0, 13, b"empty*renamed"))
    elif kind == "abort":
        ops.append(ft(0, 7, 1, 0, 0))
    else:
        ops.append(ft(0, 3, 0, rng.choice([0, 1]), 7, b"big.bin"))
        ops.append(ft(0, 4, 0, 0, 0))
        ops += ["chunk c0", "chunk c0", "chunk c0", "chunk c0"]
    ops += ["fds", "gone c0", "reap", "fds"]
    return ops


def sc_boundary(rng):
    """path lengths around every limit, for every operation that takes a path"""
    homek = rng.choice([-1, 0, 0, 1, 5, 30])
    homelen = None if homek < 0 else (len(SBb) if homek == 0 else len(SBb) + 1 + homek)
    kind = rng.choice(["rel", "abs"])
    if kind == "abs" or homelen is None:
        L = MAX_PATH + rng.choice([-3, -2, -1, 0, 1, 2])
    else:
        L = MAX_PATH - homelen - 1 + rng.choice([-2, -1, 0, 1, 2]) if rng.random() < 0.7 else MAX_PATH + rng.choice([-1, 0, 1])
    op = rng.choice(["list", "req", "offer", "mkdir", "del", "ren1", "ren2"])
    ops = [rand_cfg(rng, allow=True), "home %d" % homek, "conn c0"]
    if op == "list":
        p = lp(L, kind, b"dir1")
        ops.append(ft(0, 1, 1, 0, len(p), p))
    elif op == "req":
        p = lp(L, kind, b"a.txt")
        ops.append(ft(0, 3, 0, 0, len(p), p))
        ops.append(ft(0, 4, 0, 0, 0))
    elif op == "offer":
        p = lp(L, kind, b"bnew") + rng.choice([b",time", b""])
        ops.append(ft(0, 8, 0, 0, len(p), p + b"\0\0\0\0"))
    elif op == "mkdir":
        p = lp(L, kind, b"bdir")
        ops.append(ft(0, 10, 1, 0, len(p), p))
    elif op == "del":
        p = lp(L, kind, rng.choice([b"empty", b"dir2"]))
        ops.append(ft(0, 10, 4, 0, len(p), p))
    elif op == "ren1":
        p = lp(L, kind, b"empty") + b"*moved"
        ops.append(ft(0, 10, 5, 0, len(p), p))
    else:
        p = b"empty*" + lp(L, kind, b"moved")
        ops.append(ft(0, 10, 5, 0, len(p), p))
    ops += ["gone c0", "reap", "fds"]
    return ops


T_NAMES = [b"/", b"/r.txt", b"/rd", b"/rd/x", b"/zero", b"/nonexist", b"/..", b"/../secret.txt", b"/rd/../../secret.txt",
           b"2/secret", b"r.txt", b"/./r.txt", b"//r.txt", b"/rd/", b"/..x", b"/x..", b"/.../y", b"/rd/..", b"..", b"/a/../b",
           b"/up1", b"/rd/up2", b"/nodir/up3", b"/r.txt\0tail", b"\0", b"/" + b"x" * 300]


def rand_tname(rng):
    r = rng.random()
    if r < 0.8:
        return rng.choice(T_NAMES)
    if r < 0.93:
        L = 4095 - len(ROOT) + rng.choice([-2, -1, 0, 1, 2])
        return b"/" + b"./" * ((L - 6) // 2) + (b"/" if (L - 6) % 2 else b"") + b"r.txt"
    return bytes(rng.randrange(1, 256) for _ in range(rng.randrange(1, 30)))


def rand_tmsg(rng, c):
    r = rng.random()
    if r < 0.22:
        return send(c, t_list(rand_tname(rng), rng.choice([0, 0x10, 0x37])))
    if r < 0.42:
        return send(c, t_dl(rand_tname(rng)))
    if r < 0.60:
        return send(c, t_ul(rand_tname(rng)))
    if r < 0.72:
        d = bytes(rng.randrange(256) for _ in range(rng.choice([0, 1, 20, 300])))
        return send(c, t_data(d, level=rng.choice([0, 0, 0, 1]), real=rng.choice([None, None, 0, 5])))
    if r < 0.80:
        return send(c, t_done())
    if r < 0.86:
        return send(c, t_reason(rng.choice([134, 135]), rng.choice([b"", b"why", b"x" * 40])))
    if r < 0.96:
        return send(c, t_mkdir(rand_tname(rng)))
    # boundary sizes of the name-length field (declared size only; data short -> timeout / desync)
    n = rng.choice([0, 4095, 4096, 32767, 32768, 65535])
    ty = rng.choice([t_list, t_dl, t_ul, t_mkdir])
    return send(c, ty(b"/r.txt" if n else b"", n=n) if n in (0,) else ty(b"/" + b"x" * (n - 1)))


def sc_tight(rng):
    reg, en = rng.choice([1, 1, 1, 0]), rng.choice([1, 1, 1, 0])
    ops = [rand_cfg(rng), "tight reg=%d en=%d" % (reg, en)]
    opts = []
    if rng.random() < 0.8:
        opts.append("tight")
    if rng.random() < 0.2:
        opts.append("viewonly")
    ops.append("conn c0 " + " ".join(opts) if opts else "conn c0")
    for _ in range(rng.randrange(1, 7)):
        r = rng.random()
        if r < 0.8:
            ops.append(rand_tmsg(rng, 0))
        elif r < 0.86:
            ops.append("view c0 %d" % rng.choice([0, 1]))
        elif r < 0.92:
            ops.append("tight reg=%d en=%d" % (reg, rng.choice([0, 1])))
        elif r < 0.96:
            ops.append(rand_msg(rng, 0))
        else:
            ops.append("fds")
    ops += ["fds", "gone c0", "reap", "fds"]
    return ops


def sc_tight_upload(rng):
    ops = ["cfg permit=0 cb=none", "tight reg=1 en=1", "conn c0 tight"]
    n1 = rng.choice([b"/up1", b"/rd/up2", b"/r.txt", b"/../esc", b"/nodir/u"])
    ops.append(send(0, t_ul(n1)))
    for _ in range(rng.choice([0, 1, 2])):
        ops.append(send(0, t_data(bytes(rng.randrange(256) for _ in range(rng.choice([1, 100]))), level=rng.choice([0, 0, 0, 2]))))
    r = rng.random()
    if r < 0.3:
        ops.append(send(0, t_done()))
    elif r < 0.5:
        ops.append(send(0, t_ul(rng.choice([b"/up9", b"/../../victim", b"x"]))))     # second upload request
        ops.append(send(0, t_reason(135, b"stop")))
    elif r < 0.65:
        ops.append(send(0, t_reason(135, b"stop")))
    elif r < 0.8:
        ops.append("tight reg=1 en=0")
        ops.append(send(0, t_done()))
    elif r < 0.9:
        ops.append("view c0 1")
        ops.append(send(0, t_list(b"/")))
    ops += ["fds", "gone c0", "reap", "fds"]
    return ops


def sc_malformed(rng):
    ops = [rand_cfg(rng, allow=True), "conn c0"]
    r = rng.random()
    if r < 0.25:
        ops.append(send(0, bytes([7, 3, 0])))                              # truncated header
    elif r < 0.5:
        ops.append(ft(0, rng.choice([3, 5, 8, 10, 1]), 1, 0, 10, b"abc"))  # payload shorter than length
    elif r < 0.7:
        ops.append(ft(0, rng.choice([3, 5, 8, 10, 1]), 1, 0, rng.choice([0x80000000, U32, 0x7FFFFFFF + 1]), b""))
    elif r < 0.85:
        ops.append(send(0, bytes([rng.choice([0, 3, 6, 100, 137, 255]), 1, 2, 3])))
    else:
        # two messages in one write; a message whose payload is not consumed is followed by its payload
        m1 = bytes([7, 6, 0, 0]) + struct.pack(">II", 0, 0)
        m2 = bytes([7, 3, 0, 0]) + struct.pack(">II", 0, 5) + b"a.txt"
        ops.append(send(0, m1 + m2))
    ops += ["gone c0", "reap", "fds"]
    return ops


SCENARIOS = [("single", sc_single, 18), ("denied", sc_denied, 12), ("download", sc_download, 12), ("upload", sc_upload, 12),
             ("orders", sc_orders, 14), ("flip", sc_flip, 12), ("boundary", sc_boundary, 12), ("tight", sc_tight, 14),
             ("tight_upload", sc_tight_upload, 5), ("malformed", sc_malformed, 3)]


def gen_script(rng):
    tot = sum(w for _, _, w in SCENARIOS)
    x = rng.randrange(tot)
    for name, fn, w in SCENARIOS:
        if x < w:
            return name, "\n".join(fn(rng)) + "\n"
        x -= w
    raise AssertionError


# ----------------------------------------------------------------------------- direct oracle
def gen_const(name, default=None):
    p = os.path.join(common.LEAN, "VncModel", "Gen", "C19.lean")
    try:
        for l in open(p):
            t = l.split()
            if len(t) >= 6 and t[0] == "def" and t[1] == name and t[-1].isdigit():
                return int(t[-1])
    except OSError:
        pass
    return default


def unpct(s):
    if s == "%_":
        return b""
    out, i = bytearray(), 0
    while i < len(s):
        if s[i] == "%":
            out.append(int(s[i + 1:i + 3], 16))
            i += 3
        else:
            out.append(ord(s[i]))
            i += 1
    return bytes(out)


def cstr(b):
    return b.split(b"\0")[0]


def py_translate(path, home, maxlen):
    """rfbFilenameTranslate2UNIX, written from the property's words (independent of the model)"""
    if len(path) >= maxlen:
        return None
    if path[:2] == b"C:":
        out = path[2:]
    elif home is not None:
        if len(path) + len(home) + 1 >= maxlen:
            return None
        out = home + b"/" + path
    else:
        out = path
    return out.replace(b"\\", b"/")


def frame(b):
    """best-effort framing of client bytes into file-transfer messages -> list of dicts"""
    msgs, i = [], 0
    while i < len(b):
        ty = b[i]
        if ty == 7:
            if len(b) - i < 12:
                msgs.append({"ty": 7, "trunc": True})
                break
            ct, cp = b[i + 1], b[i + 2]
            size, length = struct.unpack(">II", b[i + 4:i + 12])
            reads = ct in (3, 5, 8, 10) or (ct == 1 and cp == 1)
            j = i + 12
            pl = b""
            if reads and 0 < length <= 0x7FFFFFFF:
                pl = b[j:j + length]
                j += length
                if ct == 8:
                    j += 4
            msgs.append({"ty": 7, "ct": ct, "cp": cp, "size": size, "length": length, "pl": pl})
            i = j
        elif 130 <= ty <= 136:
            hl = {130: 4, 131: 8, 132: 8, 133: 6, 134: 4, 135: 4, 136: 4}[ty]
            if len(b) - i < hl:
                msgs.append({"ty": ty, "trunc": True})
                break
            if ty == 133:
                real, comp = struct.unpack(">HH", b[i + 2:i + 6])
                n = 4 if (real == 0 and comp == 0) else comp
            else:
                n = struct.unpack(">H", b[i + 2:i + 4])[0]
            pl = b[i + hl:i + hl + n]
            msgs.append({"ty": ty, "n": n, "pl": pl, "flags": b[i + 1]})
            i += hl + n
        else:
            msgs.append({"ty": ty, "nonft": True})
            break
    return msgs


def named_paths(m, home, maxlen, listing_names):
    """paths the client named in message m (UltraVNC), per the property: the translated path, plus
    <dir>/<entry> for a directory listing"""
    out = set()
    if m.get("trunc") or m.get("nonft") or m["ty"] != 7:
        return out
    ct, cp, pl = m["ct"], m["cp"], m["pl"]
    c = cstr(pl)
    if ct == 1 and cp == 1:
        t = py_translate(c, home, maxlen)
        if t is not None:
            out.add(t)
            for nm in listing_names:
                out.add(t + b"/" + nm)
    elif ct == 3 or (ct == 10 and cp in (1, 4)):
        t = py_translate(c, home, maxlen)
        if t is not None:
            out.add(t)
    elif ct == 8:
        k = c.rfind(b",")
        t = py_translate(c[:k] if k >= 0 else c, home, maxlen)
        if t is not None:
            out.add(t)
    elif ct == 10 and cp == 5:
        k = c.rfind(b"*")
        if k >= 0:
            ta, tb = py_translate(c[:k], home, maxlen), py_translate(c[k + 1:], home, maxlen)
            # the rename happens only if both names translate
            if ta is not None and tb is not None:
                out.add(ta)
                out.add(tb)
    return out


def below_root(p, root=None):
    """p is the root itself or lexically below it"""
    root = ROOT if root is None else root
    if not (p == root or p.startswith(root + b"/")):
        return False
    return b".." not in p[len(root):].split(b"/")


KNOWN_DIRS = [SBb + d for d in (b"", b"/root", b"/root/rd", b"/dir1", b"/dir1/sub", b"/dir2", b"/root2")]


def py_args(opts, treg, ten, root):
    """what the command line means (rfbProcessArguments with the extension's options), from the
    documentation of the two options: -ftproot <existing dir>, -disablefiletransfer; other words
    mean nothing; without the registered extension nothing means anything"""
    i = 0
    while i < len(opts):
        o = opts[i]
        if treg and o == "-ftproot" and i + 1 < len(opts):
            pth = opts[i + 1].encode()
            q = pth[:-1] if pth.endswith(b"/") else pth
            if pth and len(pth) <= 4095 and (pth in KNOWN_DIRS or q in KNOWN_DIRS):
                root = q
                i += 2
                continue
        elif treg and o == "-disablefiletransfer":
            ten = 0
        i += 1
    return ten, root


def fs_paths(line):
    """(call, [paths]) of an `fs` observation line"""
    t = line.split(" -> ")[0].split(" ")
    call = t[1]
    if call in ("open", "opendir", "stat", "lstat", "mkdir", "unlink", "rmdir", "utime", "fopen"):
        return call, [unpct(t[2])]
    if call == "rename":
        return call, [unpct(t[2]), unpct(t[3])]
    return call, []


RELEASE = ("close", "closedir")


def oracle(ops, impl):
    """the property's words on the implementation's observations; -> None or a description"""
    maxlen = gen_const("MAX_PATH", MAX_PATH)
    blocks, rest = split_blocks(impl)
    if len(blocks) != len(ops):
        return "harness produced %d observation blocks for %d ops" % (len(blocks), len(ops))
    permit, cb, qidx = 0, None, 0
    home = SBb
    treg, ten = 0, 1
    root = ROOT
    conns = {}          # id -> dict(tight, view, upnames:set, reaped)
    fdowner = {}        # serial -> conn id
    tree = None
    canary = None       # last "#c" line: hash of everything outside the TightVNC root (incl. mtimes)
    for op, blk in zip(ops, blocks):
        t = op.split()
        trees = [l for l in blk if l.startswith("#t ")]
        if tree is None and trees:
            tree = trees[0]
        cans = [l for l in blk if l.startswith("#c ")]
        if t[0] not in ("ft", "send", "chunk", "gone") and cans:
            canary = cans[-1]
        if t[0] == "cfg":
            permit = int(t[1].split("=")[1])
            c = t[2].split("=")[1]
            if c == "none":
                cb = None
            else:
                cb, qidx = c, 0
            if trees:
                tree = trees[-1]
            continue
        if t[0] == "home":
            k = int(t[1])
            home = None if k < 0 else (SBb if k == 0 else SBb + b"/" + b"h" * min(k, 250))
            tree = trees[-1] if trees else None      # `home k` may create the HOME directory
            continue
        if t[0] == "tight":
            treg, ten = int(t[1].split("=")[1]), int(t[2].split("=")[1])
            if treg:
                root = ROOT
            continue
        if t[0] == "args":
            ten, root = py_args(t[1:], treg, ten, root)
            continue
        if t[0] == "conn":
            if blk and blk[0].startswith("= "):
                cid = int(t[1][1:])
                offered = blk[0].split("sec=")[1].split(",") if "sec=" in blk[0] else []
                if not treg and "16" in offered:
                    return ("security type 16 (TightVNC file transfer) is offered although the extension is not "
                            "registered (rfbUnregisterTightVNCFileTransferExtension was called)")
                if "tight" in t[2:] and not treg and " open " in blk[0] + " ":
                    return "a client was admitted with security type 16 although the TightVNC extension is not registered"
                conns[cid] = {"tight": ("tight" in t[2:]) and treg == 1 and "open" in blk[0], "view": "viewonly" in t[2:],
                              "up": set(), "reaped": False}
            continue
        if t[0] == "view":
            cid = int(t[1][1:])
            if cid in conns and blk == []:
                conns[cid]["view"] = t[2] != "0"
            continue
        if t[0] == "fds":
            for l in blk:
                if l.startswith("fds"):
                    for e in l.split()[1:]:
                        if e.startswith("dir#"):
                            return "directory handle %s left open after the request that opened it" % e
                        k, cc = e[1:].split("@c")
                        if conns.get(int(cc), {}).get("reaped"):
                            return "descriptor #%s opened by a transfer of c%s is still open after that connection was torn down" % (k, cc)
            continue
        if t[0] == "reap":
            for l in blk:
                if l.startswith("reaped c"):
                    conns.setdefault(int(l[8:]), {"tight": False, "view": False, "up": set()})["reaped"] = True
                elif l.startswith("fs "):
                    call, paths = fs_paths(l)
                    if call not in RELEASE:
                        return "teardown performed %r" % l
            if trees:
                tree = trees[-1]
            continue
        if t[0] not in ("ft", "send", "chunk", "gone"):
            continue
        cid = int(t[1][1:])
        cn = conns.get(cid)
        if cn is None:
            continue
        msgs = []
        if t[0] == "ft":
            hdr = bytes([7, int(t[2]) & 255, int(t[3]) & 255, 0]) + struct.pack(">II", int(t[4]), int(t[5]))
            msgs = frame(hdr + (bytes.fromhex(t[6]) if t[6] != "-" else b""))
        elif t[0] == "send":
            msgs = frame(bytes.fromhex(t[2]) if t[2] != "-" else b"")
        # sub-blocks: one per processed message (terminated by its status line)
        subs, cur = [], []
        for l in blk:
            if (l.startswith("#t ") or l.startswith("#c ")) and not cur and subs:
                subs[-1].append(l)          # the tree hash printed after a status line belongs to it
                continue
            cur.append(l)
            if l.startswith("= "):
                subs.append(cur)
                cur = []
        if cur:
            subs.append(cur)
        for si, sub in enumerate(subs):
            m = msgs[si] if (t[0] in ("ft", "send") and si < len(msgs) and len(subs) <= len(msgs)) else None
            status = [l for l in sub if l.startswith("= ")]
            closed = bool(status) and " closed " in status[0] + " "
            fsl = [l for l in sub if l.startswith("fs ")]
            wl = [l for l in sub if l.startswith("w ") or l.startswith("tw ")]
            tr = [l for l in sub if l.startswith("#t ")]
            # names returned by opendir in this sub-block (for <dir>/<entry>)
            lnames = []
            for l in fsl:
                if l.startswith("fs opendir ") and " -> ok " in l:
                    lnames += [unpct(x) for x in l.split(" -> ok ")[1].split(" ")[1:]]
            cs = [l for l in sub if l.startswith("#c ")]
            for l in fsl:                      # descriptor ownership
                tk = l.split(" ")
                if tk[1] == "open" and tk[-1].startswith("#"):
                    fdowner[int(tk[-1][1:])] = cid
                elif tk[1] in ("read", "write", "fstat", "close") and tk[2].startswith("#"):
                    if fdowner.get(int(tk[2][1:]), cid) != cid:
                        return "c%d used descriptor %s of another connection: %r" % (cid, tk[2], l)
            is_tight = m is not None and m["ty"] != 7
            ultra = (m is not None and m["ty"] == 7) or t[0] == "chunk"
            if t[0] == "gone":
                for l in fsl:
                    call, paths = fs_paths(l)
                    if call not in RELEASE and not (call == "unlink" and (paths[0] in cn["up"] or paths[0] == b"")):
                        return "connection teardown performed %r" % l
                if wl:
                    return "data sent during teardown: %r" % wl[0]
            elif is_tight or (m is None and t[0] == "send" and any(x["ty"] != 7 for x in msgs)):
                gate = cn["tight"] and ten == 1 and not cn["view"]
                names = set()
                for x in (msgs if m is None else [m]):
                    if x.get("trunc") or x.get("nonft") or x["ty"] == 7:
                        continue
                    if x["ty"] in (130, 131, 132, 136):
                        c = cstr(x["pl"])
                        p = root + c
                        names.add(p)
                        if x["ty"] == 130:
                            for nm in lnames:
                                names.add(p + b"/" + nm)
                                names.add(p + nm)
                        if x["ty"] == 132:
                            cn["up"].add(p)
                for l in fsl:
                    call, paths = fs_paths(l)
                    if call in RELEASE or call in ("read", "write"):
                        continue
                    cleanup = call == "unlink" and paths and (paths[0] in cn["up"] or paths[0] == b"")
                    if not gate and not cleanup:
                        return "TightVNC extension not enabled for c%d (ext=%s enabled=%d viewOnly=%s) but %r" % (cid, cn["tight"], ten, cn["view"], l)
                    for p in paths:
                        if p == b"":
                            continue
                        if not below_root(p, root):
                            return "TightVNC extension touched %r outside its root %r (%r)" % (p, root, l)
                        if p not in names and p not in cn["up"]:
                            return "TightVNC extension touched %r, not a path named by the client in this request" % p
                if cs and canary is not None and root == ROOT and cs[-1] != canary and all(x.get("ty") != 7 for x in msgs):
                    return ("a TightVNC message changed a file outside the extension's root %r (existence, size, "
                            "content or modification time of the canary files)" % ROOT)
                if gate and len(msgs) == 1 and msgs[0].get("ty") in (131, 132) and not msgs[0].get("trunc") \
                        and len(msgs[0]["pl"]) == msgs[0]["n"] and any(l.startswith("nonft") for l in blk):
                    return ("TightVNC request with a %d-byte name was answered without consuming the name: "
                            "the following bytes are taken for new messages (stream out of sync)" % msgs[0]["n"])
                if not gate:
                    if wl:
                        return "TightVNC extension not enabled for c%d but sent %r" % (cid, wl[0])
                    if status and not closed:
                        return "TightVNC message from c%d while not enabled: connection not dropped" % cid
            elif ultra:
                qs = [l[2:] for l in sub if l.startswith("q ")]
                exp_first = None if cb is None else cb[min(qidx, len(cb) - 1)]
                if cb is None:
                    entry_ok = permit == 1
                else:
                    entry_ok = permit == 1 and bool(qs) and qs[0] == "1" and exp_first == "1"
                # when no message was processed at all (truncated header) there is nothing to judge
                allowed = set()
                if m is not None:
                    allowed = named_paths(m, home, maxlen, lnames)
                elif t[0] in ("ft", "send"):
                    for x in msgs:
                        allowed |= named_paths(x, home, maxlen, lnames)
                lastq = None
                nq1 = 0
                for l in sub:
                    if l.startswith("q "):
                        lastq = l[2:]
                        nq1 += lastq == "1"
                        continue
                    if l.startswith("x ") and not entry_ok:
                        return "file-transfer data processed (%r) although not permitted" % l
                    if not l.startswith("fs "):
                        continue
                    call, paths = fs_paths(l)
                    if call in RELEASE:
                        continue
                    cleanup = call == "unlink" and paths and (paths[0] in cn["up"] or paths[0] == b"")
                    if cleanup:
                        continue
                    if permit != 1:
                        return "file transfer is not permitted (permitFileTransfer != TRUE) but %r" % l
                    if cb is not None and lastq != "1":
                        return "permission callback did not agree (last answer %r) but %r" % (lastq, l)
                    if not entry_ok:
                        return "message was not permitted at entry but %r" % l
                    for p in paths:
                        if p not in allowed:
                            return "effect on %r which is not the translated path the client named (named: %r): %r" % (p, sorted(allowed)[:4], l)
                if wl and permit != 1:
                    return "file transfer is not permitted but the server sent %r" % wl[0]
                if cb is not None and len(wl) > nq1:
                    return "%d messages sent but the permission callback agreed only %d times" % (len(wl), nq1)
                if not entry_ok and t[0] != "chunk" and m is not None and not m.get("trunc"):
                    if wl:
                        return "message not permitted but the server sent %r" % wl[0]
                    if status and not closed:
                        return "message not permitted but the connection was not dropped"
                    if tr and tree is not None and tr[-1] != tree and not any(" unlink " in l for l in fsl):
                        return "message not permitted but the sandbox directory changed"
            qidx += sum(1 for l in sub if l.startswith("q "))
            if cs:
                canary = cs[-1]
            if tr:
                tree = tr[-1]
    return None


# ----------------------------------------------------------------------------- run
def classify(ops, impl):
    """measured features of one case (for the distribution / the non-triviality rule)"""
    f = {"fs": 0, "w": 0, "q": 0, "closed": 0, "denied_q": 0}
    for l in impl:
        if l.startswith("fs "):
            f["fs"] += 1
        elif l.startswith("w ") or l.startswith("tw "):
            f["w"] += 1
        elif l.startswith("q "):
            f["q"] += 1
            f["denied_q"] += l != "q 1"
        elif l.startswith("= ") and " closed " in l:
            f["closed"] += 1
    return f


def fixed_scripts(maxlen):
    """scripts that are part of EVERY run (all tiers, all seeds), by construction:
    (a) the permission callback is consulted per call while a transfer is open: its answer turns to
        "no" at every consult position of a download and of an upload, and back to "yes";
    (b) the exact length boundaries of rfbFilenameTranslate2UNIX for every operation that takes a
        path: strlen == size (no HOME / "C:") and strlen(HOME)+1+strlen == size (HOME branch), and
        one byte less;
    (c) TightVNC names with "." components before / around "..", and controls;
    (d) TightVNC name-size fields 0, 4095, 4096, 32767, 32768, 65535 (sign of `short`);
    (e) every rejection reason of every TightVNC request kind x every follow-up message that acts on
        the per-client record, with a canary file outside the root;
    (f) every order of (un)registering the TightVNC extension and an application security handler;
    (g) the command-line options of the extension x unknown options x passwd home usable or not."""
    out = []
    # (a)
    for k in range(0, 13):
        cb = "1" * k + "01"
        out.append(("fixed:cb-download-%d" % k, ["cfg permit=1 cb=%s" % cb, "home 0", "conn c0", ft(0, 3, 0, 0, 7, b"big.bin"),
                                               ft(0, 4, 0, 0, 0), "chunk c0", "chunk c0", "chunk c0", "chunk c0", "fds", "gone c0", "reap", "fds"]))
        out.append(("fixed:cb-upload-%d" % k, ["cfg permit=1 cb=%s" % cb, "home 0", "conn c0", ft(0, 8, 0, 9, 7, b"cbup,ti" + b"\0\0\0\0"),
                                             ft(0, 5, 0, 0, 3, b"abc"), ft(0, 5, 0, 0, 3, b"def"), ft(0, 5, 0, 0, 3, b"ghi"), ft(0, 6, 0, 0, 0),
                                             "fds", "gone c0", "reap", "fds"]))
    out.append(("fixed:cb-alternating", ["cfg permit=1 cb=1111111" + "01" * 8, "home 0", "conn c0", ft(0, 3, 0, 1, 7, b"big.bin"), ft(0, 4, 0, 0, 0)]
                + ["chunk c0"] * 10 + ["fds", "gone c0", "reap", "fds"]))
    # (b)
    def one(op, p):
        if op == "list":
            return [ft(0, 1, 1, 0, len(p), p)]
        if op == "req":
            return [ft(0, 3, 0, 0, len(p), p), ft(0, 6, 0, 0, 0)]
        if op == "offer":
            q = p + b",t"
            return [ft(0, 8, 0, 0, len(q), q + b"\0\0\0\0"), ft(0, 6, 0, 0, 0)]
        if op == "mkdir":
            return [ft(0, 10, 1, 0, len(p), p)]
        if op == "del":
            return [ft(0, 10, 4, 0, len(p), p)]
        if op == "ren1":
            q = p + b"*bmoved"
            return [ft(0, 10, 5, 0, len(q), q)]
        q = b"zz.bin*" + p
        return [ft(0, 10, 5, 0, len(q), q)]
    tails = {"list": b"dir1", "req": b"a.txt", "offer": b"bnew", "mkdir": b"bdir", "del": b"empty", "ren1": b"blk.bin", "ren2": b"bmoved2"}
    for homek in (-1, 0, 1, 5, 30):
        homelen = None if homek < 0 else (len(SBb) if homek == 0 else len(SBb) + 1 + homek)
        ops = ["cfg permit=1 cb=none", "home %d" % homek, "conn c0"]
        for op in ("list", "req", "offer", "mkdir", "del", "ren1", "ren2"):
            lims = [maxlen] if homelen is None else [maxlen - homelen - 1]
            for lim in lims:
                for L in (lim - 1, lim, lim + 1):
                    ops += one(op, lp(L, "rel", tails[op]))
            for L in (maxlen - 1, maxlen):
                ops += one(op, lp(L, "abs", tails[op]))
        ops += ["fds", "gone c0", "reap", "fds"]
        out.append(("fixed:boundary-home%d" % homek, ops))
    # (c)
    names = [b"/./..", b"/./../secret.txt", b"/rd/./../../secret.txt", b"/./rd/.././../root2/secret", b"/.//..", b"/rd/./..",
             b"/././../..", b"/./.././secret.txt", b"/rd/../.", b"/..", b"/.", b"/./r.txt", b"/rd/./x", b"/./rd", b"/.hidden/..", b"/..."]
    ops = ["cfg permit=0 cb=none", "tight reg=1 en=1", "conn c0 tight"]
    for nm in names:
        ops += [send(0, t_list(nm)), send(0, t_dl(nm)), send(0, t_ul(nm)), send(0, t_reason(135, b"x")), send(0, t_mkdir(nm))]
    ops += ["fds", "gone c0", "reap", "fds"]
    out.append(("fixed:tight-dot-dotdot", ops))
    # (d)
    for n in (0, 4095, 4096, 32767, 32768, 40000, 65535):
        nm = (b"/" + b"x" * (n - 1)) if n else b""
        out.append(("fixed:tight-name-size-%d" % n, ["cfg permit=0 cb=none", "tight reg=1 en=1", "conn c0 tight", send(0, t_dl(nm)), send(0, t_list(b"/")),
                                                    send(0, t_ul(nm)), send(0, t_list(b"/rd")), "fds", "gone c0", "reap", "fds"]))
    # (e) a refused request must leave no usable name in the per-client record: every rejection reason
    #     of every request kind, with and without an upload in progress, followed by every message that
    #     acts on the record; the over-long / unrooted names point at a canary file outside the root
    canary = SBb + b"/secret.txt"

    def padded(L):
        room = L - len(canary)
        k, odd = divmod(room, 2)
        return b"/." * k + (b"/" if odd else b"") + canary

    reasons = [("toolong-min", padded(4095 - len(ROOT) + 1)), ("toolong-4090", padded(4090)), ("toolong-max", padded(4095)),
               ("dotdot", b"/../secret.txt"), ("nul", b"\0/../secret.txt"), ("relative", b"2/secret"),
               ("nonexistent", b"/nodir/none.txt")]
    kinds = [("list", t_list), ("download", t_dl), ("upload", t_ul), ("mkdir", t_mkdir)]
    follow = [("data", t_data(b"abc")), ("end", t_done()), ("failed", t_reason(135, b"no")), ("cancel", t_reason(134, b"no")),
              ("download", t_dl(b"/r.txt")), ("list", t_list(b"/")), ("data-compressed", t_data(b"abc", level=1))]
    combos = [(pre, kn, kf, rn, rv, fn, fv) for pre in (0, 1) for kn, kf in kinds for rn, rv in reasons for fn, fv in follow]
    per = 14
    for base in range(0, len(combos), per):
        ops = ["cfg permit=0 cb=none", "tight reg=1 en=1"]
        for i, (pre, kn, kf, rn, rv, fn, fv) in enumerate(combos[base:base + per]):
            ops.append("conn c%d tight" % i)
            if pre:
                ops += [send(i, t_ul(b"/ok%d" % i)), send(i, t_data(b"xy"))]
            ops += [send(i, kf(rv)), send(i, fv), send(i, t_done()), "gone c%d" % i]
        ops += ["reap", "fds"]
        out.append(("fixed:tight-refused-followup-%d" % (base // per), ops))
    # (f) "counts as enabled only when registered": every order of registering / unregistering the
    #     TightVNC extension and an application-owned security handler (all 64 toggle sequences of
    #     length 6, probed after every step): type 16 offered / accepted only while registered
    import itertools as _it
    seqs = list(_it.product("TA", repeat=6))
    for base in range(0, len(seqs), 8):
        ops = ["cfg permit=0 cb=none"]
        k = 0
        for sq in seqs[base:base + 8]:
            ops += ["tight reg=0 en=1", "app reg=0"]
            tr = ar = 0
            for ch in sq:
                if ch == "T":
                    tr ^= 1
                    ops.append("tight reg=%d en=1" % tr)
                else:
                    ar ^= 1
                    ops.append("app reg=%d" % ar)
                ops += ["conn c%d tight" % k, send(k, t_list(b"/")), send(k, t_mkdir(b"/reg%d" % k)), "gone c%d" % k]
                k += 1
        ops += ["reap", "fds"]
        out.append(("fixed:registry-orders-%d" % (base // 8), ops))
    # (g) "switched on" through the command line: -disablefiletransfer / -ftproot followed by options
    #     nobody knows, with a usable, a missing and no passwd home directory (InitFileTransfer)
    arglists = [["-disablefiletransfer"], ["-disablefiletransfer", "-foo"], ["-disablefiletransfer", "-ftproot", SB + "/dir1"],
                ["-ftproot", SB + "/dir1", "-foo", "-bar"], ["-ftproot", SB + "/dir1", "-disablefiletransfer", "-x"],
                ["-foo", "-disablefiletransfer"], ["-ftproot", SB + "/nodir", "-disablefiletransfer"],
                ["-ftproot", SB + "/dir1/", "-y"], ["-foo"], ["-disablefiletransfer", "-a", "-b", "-c"]]
    for pw in (0, 1, 2):
        ops = ["cfg permit=0 cb=none", "pwhome %d" % pw]
        k = 0
        for reg in (1, 0):
            for al in arglists:
                ops += ["tight reg=1 en=1"] if reg else ["tight reg=0 en=1"]
                ops.append("args " + " ".join(al))
                if not reg:
                    ops.append("tight reg=1 en=1")      # options given before the extension existed mean nothing
                ops += ["conn c%d tight" % k, send(k, t_list(b"/")), send(k, t_mkdir(SBb + b"/argsmk%d" % k)),
                        send(k, t_mkdir(b"/argsub%d" % k)), send(k, t_dl(b"/f1")), send(k, t_ul(SBb + b"/argsup%d" % k)), "gone c%d" % k]
                k += 1
        ops += ["reap", "fds"]
        out.append(("fixed:cmdline-pwhome%d" % pw, ops))
    return [(n, "\n".join(o) + "\n") for n, o in out]


def corpus_scripts():
    d = os.path.join(common.VERIF, "corpus", "C19")
    out = []
    if os.path.isdir(d):
        for fn in sorted(os.listdir(d)):
            if fn.endswith(".ops"):
                out.append(("corpus:" + fn, open(os.path.join(d, fn)).read()))
    return out


def run(ctx):
    h = ctx.harness("c19")
    d = ctx.driver("drv_c19")
    fails, samples = [], []
    dist = {"scenario": {}, "ops": {}, "content_type": {}, "tight_type": {}, "cfg": {}, "fs_calls": {}, "closed_by_denial": 0,
            "callback_consults": 0, "callback_denials": 0, "path_len_bucket": {}, "boundary_paths": 0}
    scripts = []
    if ctx.replay:
        rec = json.load(open(ctx.replay))
        scripts = [("replay", "\n".join(rec.get("script", [])) + "\n")]
    else:
        scripts = corpus_scripts() + fixed_scripts(gen_const("MAX_PATH", MAX_PATH))
        n = 1500 if ctx.tier == "quick" else 20000
        for _ in range(n):
            scripts.append(gen_script(ctx.rng))
    seen, evals = set(), 0
    maxlen = gen_const("MAX_PATH", MAX_PATH)
    CH = 500
    for base in range(0, len(scripts), CH):
        part = scripts[base:base + CH]
        try:
            os.utime(h)          # keep the binary "recent" for the shared cache's garbage collection
        except OSError:
            h = ctx.harness("c19")
        results = common.pmap(lambda sc: two_pass(ctx, h, d, sc[1], "filexfer." + sc[0].split(":")[0]), part)
        for (name, script), (ops, impl, model, f) in zip(part, results):
            evals += 1
            if f:
                f["scenario"] = name
                fails.append(f)
            o = None
            if not (f and f["kind"] == "crash"):
                try:
                    o = oracle(ops, impl)
                except Exception as e:      # an oracle that cannot read the output must not pass silently
                    o = "oracle could not interpret the observations: %r" % (e,)
            if o:
                fails.append({"kind": "oracle", "what": "C19 direct oracle (" + name + ")", "detail": o,
                              "script": ops, "impl": impl[-60:]})
            sn = name.split(":")[0]
            dist["scenario"][sn] = dist["scenario"].get(sn, 0) + 1
            for l in ops:
                t = l.split()
                dist["ops"][t[0]] = dist["ops"].get(t[0], 0) + 1
                if t[0] == "ft":
                    dist["content_type"][t[2]] = dist["content_type"].get(t[2], 0) + 1
                    L = int(t[5])
                    b = "0" if L == 0 else ("<200" if L < 200 else ("200-%d" % (maxlen - 30) if L < maxlen - 30 else (
                        "near-limit" if L <= maxlen + 25 else ">limit")))
                    dist["path_len_bucket"][b] = dist["path_len_bucket"].get(b, 0) + 1
                    dist["boundary_paths"] += L in (maxlen - 1, maxlen, maxlen - len(SBb) - 2, maxlen - len(SBb) - 1)
                elif t[0] == "send" and len(t) > 2 and len(t[2]) >= 2 and t[2] != "-":
                    ty = str(int(t[2][:2], 16))
                    dist["tight_type"][ty] = dist["tight_type"].get(ty, 0) + 1
                elif t[0] == "cfg":
                    k = t[1] + " " + ("cb=none" if t[2] == "cb=none" else ("cb=const" if len(t[2]) == 4 else "cb=changing"))
                    dist["cfg"][k] = dist["cfg"].get(k, 0) + 1
            for l in impl:
                if l.startswith("fs "):
                    c = l.split(" ")[1]
                    dist["fs_calls"][c] = dist["fs_calls"].get(c, 0) + 1
            cf = classify(ops, impl)
            dist["callback_consults"] += cf["q"]
            dist["callback_denials"] += cf["denied_q"]
            dist["closed_by_denial"] += cf["closed"]
            if cf["fs"] + cf["closed"] > 0:
                seen.add(script)
            if len(samples) < 4 and cf["fs"] > 2:
                samples.append({"scenario": name, "script": ops, "impl": impl[:40]})
        if len(fails) >= 6:
            break
    return {
        "evaluations": evals, "distinct_nontrivial": len(seen),
        "rule": "generated sessions (10 scenario families: any single message, denied server, download, upload, random/illegal orders, callback flipping at every consult position, path-length boundaries, TightVNC messages, TightVNC upload life cycle, malformed) run on the real server in a sandbox; non-trivial = distinct script in which at least one file-system call was made or a connection was dropped",
        "samples": samples, "distribution": dist, "failures": fails,
        "partial": PARTIAL, "assumptions": ASSUMPTIONS,
        "trusted_extra": ["link-level interposition of libc in harness/c19.c (the log is the list of libc calls the library makes; calls made inside libc, e.g. by opendir, are not seen)",
                          "results of libc calls, zlib compress/uncompress and the bytes of files are parameters of the model (taken from the harness run); the TightVNC download thread is run synchronously"],
    }


PARTIAL = [
    "that teardown (`cleanup`) calls are made only by closeClient/reapClient is by construction of the model, not a theorem; lexical confinement assumes a symlink-free tree and '/'-free directory entry names",
]
ASSUMPTIONS = [
    "symlink-free file system below the TightVNC root (lexical confinement)",
    "socket writable and peer reading while a message is processed (no short writes); malloc succeeds",
    "single-threaded event loop; the TightVNC download thread body is executed synchronously (one legal schedule)",
    "descriptor leaks are judged on descriptors opened through open/creat/opendir by the file-transfer code",
]

META = {
    "technique": "Lean 4 theorems about an executable model of every file-transfer entry point (permission tests where the C code has them, per-call callback oracle, path translation with the regenerated buffer sizes, transfer state, TightVNC gate and ConvertPath) + exact correspondence run against the real handlers with libc interposition + model-independent oracle",
    "level_text": "Proof: Props/C19.lean proves, for all configurations, callback oracles, client states, message bytes and libc results: a message not permitted at entry has no effect, sends nothing and drops the connection (also for whole message sequences); every effect in any run is preceded by a successful permission test with no failed test in between; effects name only the translated client path (and dir/entry for listings); over-long paths are rejected, never truncated (MAX_PATH regenerated from the source); the transfer descriptor is released at teardown; TightVNC effects need extension+enabled+not view-only and stay below the root. The model is tied to the code by an exact differential run on every check.",
    "level_note": "Trusted: Lean kernel, T0 extractors, harness/interposers/generator/driver (testing; distribution in evidence). Parameters: libc results, zlib, file contents, clock. Not modelled: Win32 branches, socket write failures, malloc failure, real concurrency of the TightVNC download thread.",
    "design_ref": "DESIGN.md section 7, C19; section 11 items e, n",
}
