"""C01 — lossless encodings reproduce the server framebuffer pixel-exactly.

Proof side: lean/VncModel/Props/C01.lean (spec decoders, reference encoders, faithful server models).
Tie (every run): harness/c01.c runs the REAL encoders (real screen, one client over a socketpair,
SetPixelFormat / SetEncodings / FramebufferUpdateRequest); the pre-encode hook snapshots the pixels
about to be encoded (converted to the client's format by the harness's own call of cl->translateFn
on the whole rectangle — translation itself is C10's subject and is trusted here).  Then

  (direct oracle, no model)  vlib/props/c01_dec.py decodes every rectangle from the wire bytes with
      an independent Python decoder (zlib via Python with persistent per-connection streams, LZO/JPEG
      via trusted codecs in the harness, PNG in Python) and compares with the snapshot: exact for
      lossless encodings, per-channel error bound for Tight-JPEG / ZYWRLE;
  (spec tie)   the Lean *specification* decoder (Enc/Spec.lean) decodes the same (decompressed) wire
      bytes and must reproduce the snapshot as well;
  (model tie)  for encoders with a faithful Lean model (Enc/Server.lean) the model predicts the exact
      payload bytes from the snapshot; they are compared byte for byte.
"""
import json, os, struct, subprocess, time, zlib
from concurrent.futures import ProcessPoolExecutor
from .. import common
from . import c01_dec as D

PROPS_MOD = "VncModel.Props.C01"
EXTRA_TARGETS = ["drv_c01"]

# ------------------------------------------------------------------ catalogues
# client pixel formats: name -> (bpp, depth, bigEndian, trueColour, rmax, gmax, bmax, rs, gs, bs)
FORMATS = {
    "rgb888le": (32, 24, 0, 1, 255, 255, 255, 16, 8, 0),
    "rgb888be": (32, 24, 1, 1, 255, 255, 255, 16, 8, 0),
    "bgr888le": (32, 24, 0, 1, 255, 255, 255, 0, 8, 16),
    "bgr888be": (32, 24, 1, 1, 255, 255, 255, 0, 8, 16),
    "rgbx_le": (32, 24, 0, 1, 255, 255, 255, 24, 16, 8),     # colour bits in the most significant 3 bytes
    "rgbx_be": (32, 24, 1, 1, 255, 255, 255, 24, 16, 8),
    "rgb101010": (32, 30, 0, 1, 1023, 1023, 1023, 20, 10, 0),
    "rgb101010be": (32, 30, 1, 1, 1023, 1023, 1023, 20, 10, 0),
    "odd32": (32, 24, 0, 1, 255, 255, 255, 17, 9, 1),          # odd shifts, does not fit 3 bytes either way
    "odd32be": (32, 21, 1, 1, 127, 127, 127, 15, 8, 1),
    "low32": (32, 12, 0, 1, 15, 15, 15, 8, 4, 0),
    "r7g8b8": (32, 23, 0, 1, 127, 255, 255, 16, 8, 0),        # only the red maximum differs from the 8-8-8 server format
    "r8g8b7": (32, 23, 1, 1, 255, 255, 127, 0, 8, 16),
    "rgb565le": (16, 16, 0, 1, 31, 63, 31, 11, 5, 0),
    "rgb565be": (16, 16, 1, 1, 31, 63, 31, 11, 5, 0),
    "rgb555le": (16, 15, 0, 1, 31, 31, 31, 10, 5, 0),
    "rgb555be": (16, 15, 1, 1, 31, 31, 31, 10, 5, 0),
    "bgr555le": (16, 15, 0, 1, 31, 31, 31, 0, 5, 10),
    "rgb444le": (16, 12, 0, 1, 15, 15, 15, 8, 4, 0),
    "odd16be": (16, 13, 1, 1, 15, 31, 15, 9, 4, 0),
    "bgr233": (8, 8, 0, 1, 7, 7, 3, 0, 3, 6),
    "rgb332": (8, 8, 0, 1, 7, 7, 3, 5, 2, 0),
    "rgb222": (8, 6, 0, 1, 3, 3, 3, 4, 2, 0),
    "rgb111": (8, 3, 0, 1, 1, 1, 1, 2, 1, 0),
    "cmap8": (8, 8, 0, 0, 0, 0, 0, 0, 0, 0),                   # colour-mapped client -> server installs BGR233
}
BGR233 = (8, 8, 0, 1, 7, 7, 3, 0, 3, 6)


def server_format(sb):
    # what harness/common/sess.h's vh_screen + rfbGetScreen produce (host is little-endian); the run itself
    # uses the harness's `fmtinfo` / `srvfmt` lines
    if sb == 4:
        return (32, 32, 0, 1, 255, 255, 255, 0, 8, 16)
    if sb == 2:
        return (16, 16, 0, 1, 31, 31, 31, 0, 5, 10)
    return (8, 8, 0, 1, 7, 7, 3, 0, 3, 6)


def translate_independent(srv, fmt, raw):
    """colour-scaling rule of the RFB world, independent of translate.c: every channel
    out = (in * outMax + inMax/2) / inMax.  Used only in sessions with rfbNewFramebuffer, where the
    harness's own call of cl->translateFn cannot be trusted to be the right function."""
    sb_, out, cache = srv.bytespp, [], {}
    for i in range(0, len(raw), sb_):
        k = raw[i:i + sb_]
        v = cache.get(k)
        if v is None:
            r, g, b = srv.comps(k)
            v = fmt.of_comps((r * fmt.rmax + srv.rmax // 2) // srv.rmax, (g * fmt.gmax + srv.gmax // 2) // srv.gmax,
                             (b * fmt.bmax + srv.bmax // 2) // srv.bmax)
            cache[k] = v
        out.append(v)
    return b"".join(out)


ENC = {"raw": 0, "rre": 2, "corre": 4, "hextile": 5, "zlib": 6, "tight": 7, "ultra": 9, "zrle": 16,
       "zywrle": 17, "tightpng": -260}
LASTRECT = -224
LOSSLESS_ENCS = ["raw", "rre", "corre", "hextile", "zlib", "zrle", "ultra", "tight", "tightpng"]

SPECIAL_GEOMS = [(1, 1), (1, 37), (41, 1), (15, 15), (16, 16), (17, 17), (15, 33), (33, 16), (63, 63), (64, 64),
                 (65, 65), (64, 17), (47, 49), (48, 48), (49, 47), (97, 50), (128, 64), (129, 65), (31, 130)]
# Raw (and every encoder that can fall back to Raw) cannot send a row wider than UPDATE_BUF_SIZE bytes:
# the server closes the connection (reported separately, not a C01 matter) -> widths up to 8192 px only
BIG_GEOMS = [(2049, 3), (2100, 5), (4100, 2), (300, 230), (1100, 61), (3, 2200), (8192, 1), (260, 260), (2048, 33)]
KINDS = ["flat", "pal", "runs", "vruns", "blocks", "outlier", "grad", "noise", "photo", "tiles", "tiles", "runsx"]
NCOLS = [1, 2, 3, 4, 5, 16, 17, 126, 127, 128, 129, 255]


# ------------------------------------------------------------------ generator
def gen_paint(rng, W, H, big, lossy=False):
    """paint ops covering the whole screen + a few overlays"""
    ops = []
    if lossy:
        # lossy variants are exercised on the content they are meant for (smooth / flat areas)
        k = rng.choice(["photo", "photo", "grad", "flat", "blocks", "outlier"])
        return ["paint %s %d 0 0 %d %d %d 0" % (k, rng.randrange(1 << 30), W, H, rng.choice([2, 5, 200]))]
    k = rng.choice(KINDS if not big else ["flat", "pal", "runs", "blocks", "outlier", "grad", "vruns", "noise", "tiles"])
    n = rng.choice(NCOLS)
    flags = (1 if rng.random() < 0.25 else 0) | (rng.choice([0, 0, 3, 40, 300, 700]) << 4)
    if k == "tiles":
        n = rng.choice([2, 3, 3, 4, 6, 17, 130])
        flags = (flags & 1) | (rng.choice([16, 16, 64, 8, 5]) << 4)
    ops.append("paint %s %d 0 0 %d %d %d %d" % (k, rng.randrange(1 << 30), W, H, n, flags))
    for _ in range(rng.choice([0, 0, 1, 2, 4])):
        w = rng.randint(1, W)
        h = rng.randint(1, H)
        x = rng.choice([0, W - w, rng.randint(0, W - w)])
        y = rng.choice([0, H - h, rng.randint(0, H - h)])
        ops.append("paint %s %d %d %d %d %d %d %d" % (rng.choice(KINDS), rng.randrange(1 << 30), x, y, w, h,
                                                      rng.choice(NCOLS), rng.choice([0, 0, 1]) | (rng.choice([0, 5, 60]) << 4)))
    return ops


def gen_rect(rng, W, H):
    r = rng.random()
    if r < 0.35:
        return 0, 0, W, H
    w = rng.choice([1, W, rng.randint(1, W), min(W, rng.choice([15, 16, 17, 48, 49, 63, 64, 65]))])
    h = rng.choice([1, H, rng.randint(1, H), min(H, rng.choice([15, 16, 17, 48, 49, 63, 64, 65]))])
    x = rng.choice([0, W - w, rng.randint(0, W - w)])
    y = rng.choice([0, H - h, rng.randint(0, H - h)])
    return x, y, w, h


def gen_script(rng, tier, force=None):
    """-> (script text, meta)"""
    force = force or {}
    big = force.get("big", rng.random() < (0.06 if tier == "quick" else 0.12))
    sb = force.get("sb", rng.choice([1, 2, 4, 4]))
    if big:
        W, H = rng.choice(BIG_GEOMS)
    elif rng.random() < 0.45:
        W, H = rng.choice(SPECIAL_GEOMS)
    else:
        W, H = rng.randint(1, 90), rng.randint(1, 70)
    encname = force.get("enc", rng.choice(LOSSLESS_ENCS + ["tight", "zrle", "hextile", "rre", "corre"]))
    fname = force.get("fmt", rng.choice(["server", "server"] + list(FORMATS)))
    lines = ["screen %d %d %d" % (W, H, sb), "client"]
    if fname != "server":
        lines.append("fmt " + " ".join(str(v) for v in FORMATS[fname]))
    encs = [ENC[encname]]
    lossy = False
    if encname in ("zlib", "tight", "tightpng", "zrle", "zywrle"):
        if rng.random() < 0.8:
            encs.append(-256 + rng.randint(0, 9))
    if encname in ("tight", "tightpng") and rng.random() < 0.6:
        encs.append(LASTRECT)
    if force.get("quality") is not None:
        encs.append(-32 + force["quality"])
        lossy = True
    if encname == "zywrle":
        lossy = True
    if rng.random() < 0.3:
        encs.append(0)
    lines.append("enc " + " ".join(str(e) for e in encs))
    if encname == "corre" and rng.random() < 0.3:
        mw_, mh_ = rng.choice([1, 7, 16, 48, 255]), rng.choice([1, 7, 16, 48, 255])
        # CoRRE sends ceil(w/mw)*ceil(h/mh) rectangles; more than 65535 in one update do not fit the 16-bit
        # count (known finding c03-nrects-16bit / c01-nrects-16bit, replayed from the corpus): generated
        # scripts stay well below.  (Raw/RRE/Hextile send one rectangle per region rectangle, Zlib/Ultra one per
        # >= 32768-pixel slab, Tight at most a few per region rectangle or a LastRect-terminated list.)
        if ((W + mw_ - 1) // mw_) * ((H + mh_ - 1) // mh_) > 30000:
            mw_, mh_ = 48, 48
        lines.append("cfg corre %d %d" % (mw_, mh_))
    nupd = force.get("nupd", rng.choice([3, 3, 4, 6]) if not big else 3)
    for u in range(nupd):
        if u == 0 or rng.random() < 0.7:
            lines += gen_paint(rng, W, H, big, lossy)
        if u > 0 and rng.random() < 0.3:
            # incremental update of marked areas -> multi-rectangle update regions
            for _ in range(rng.randint(1, 3)):
                x, y, w, h = gen_rect(rng, W, H)
                lines.append("mark %d %d %d %d" % (x, y, w, h))
            lines.append("req 1 0 0 %d %d" % (W, H))
        else:
            x, y, w, h = gen_rect(rng, W, H) if u > 0 else (0, 0, W, H)
            lines.append("req 0 %d %d %d %d" % (x, y, w, h))
        if u > 0 and rng.random() < 0.15 and encname not in ("zywrle",) and not lossy:
            # switch the encoding in mid-connection (zlib streams of the old one must stay intact)
            e2 = rng.choice(LOSSLESS_ENCS)
            lines.append("enc %d %d" % (ENC[e2], -256 + rng.randint(0, 9)))
    meta = {"sb": sb, "W": W, "H": H, "enc": encname, "fmt": fname, "big": big, "lossy": lossy,
            "quality": force.get("quality")}
    return "\n".join(lines) + "\n", meta


def boundary_scripts(rng):
    """hand-picked geometries at the limits of the encoders' buffers and splitting rules"""
    out = []

    def mk(sb, W, H, enc, fmt, paints, extra_enc=(), reqs=None):
        lines = ["screen %d %d %d" % (W, H, sb), "client"]
        if fmt != "server":
            lines.append("fmt " + " ".join(str(v) for v in FORMATS[fmt]))
        lines.append("enc " + " ".join(str(e) for e in (ENC[enc],) + tuple(extra_enc)))
        for i, pk in enumerate(paints):
            lines.append("paint %s %d 0 0 %d %d %d %d" % (pk[0], rng.randrange(1 << 30), W, H, pk[1], pk[2]))
            for (x, y, w, h) in (reqs or [(0, 0, W, H)]):
                lines.append("req 0 %d %d %d %d" % (x, y, w, h))
        out.append(("\n".join(lines) + "\n", {"sb": sb, "W": W, "H": H, "enc": enc, "fmt": fmt, "big": W * H > 20000, "lossy": False, "boundary": True}))

    # Raw: updateBuf filled exactly (2048*4*4 = 32768; 16-byte lines: 2048 lines per batch), widest line
    mk(4, 2048, 33, "raw", "server", [("noise", 1, 0), ("runs", 5, 0)])
    mk(4, 4, 4300, "raw", "server", [("noise", 1, 0)])
    mk(4, 8192, 3, "raw", "server", [("grad", 1, 0)])
    mk(2, 64, 300, "raw", "rgb888le", [("noise", 1, 0)])
    mk(1, 128, 300, "raw", "rgb565be", [("pal", 200, 0)])
    # RRE: many sub-rectangles (afterEncBuf copy loop across several buffer fills), raw fallback next to success
    mk(4, 260, 260, "rre", "server", [("blocks", 6, 700 << 4), ("pal", 2, 0), ("noise", 1, 0)])
    mk(1, 300, 230, "rre", "bgr233", [("runs", 3, 40 << 4), ("tiles", 3, 16 << 4)])
    # CoRRE: splitting at 48 and at a 255 limit
    mk(4, 97, 97, "corre", "rgb565le", [("blocks", 5, 60 << 4), ("tiles", 4, 16 << 4)])
    mk(2, 49, 145, "corre", "server", [("tiles", 3, 8 << 4)])
    # Hextile: tile-state sequences, buffer flush between tiles (2048 wide = 128 tiles per row)
    mk(4, 2049, 17, "hextile", "server", [("tiles", 3, 16 << 4), ("tiles", 2, 16 << 4)])
    mk(2, 1100, 61, "hextile", "rgb888be", [("tiles", 4, 16 << 4)])
    mk(1, 33, 33, "hextile", "rgb332", [("tiles", 3, 16 << 4), ("noise", 1, 0), ("tiles", 2, 16 << 4)])
    # ZRLE: palette sizes around the limits, tiles 64/65, runs across rows, input buffer 16384 overrun
    for n in (2, 3, 4, 5, 16, 17, 126, 127, 128):
        mk(rng.choice([2, 4]), 65, 65, "zrle", rng.choice(["server", "rgb888le", "rgb555le", "rgb565be", "bgr233"]),
           [("pal", n, 0), ("runs", n, 3 << 4)], extra_enc=(-256 + rng.randint(0, 9),))
    mk(4, 300, 230, "zrle", "server", [("noise", 1, 0), ("tiles", 5, 64 << 4)])
    # run lengths at the 255-limits of the run-length code; palette of exactly 127 colours at its edge
    for fmtn in ("server", "rgb565le", "bgr233"):
        mk(rng.choice([2, 4]), rng.choice([64, 33, 50]), 64, "zrle", fmtn, [("runsx", 3, 0), ("runsx", 200, 0)])
        # (placed away from the soft cursor at the top-left corner, which would add two colours)
        sb_e, th_e = rng.choice([2, 4]), rng.choice([64, 23])
        lines = ["screen 140 100 %d" % sb_e, "client"]
        if fmtn != "server":
            lines.append("fmt " + " ".join(str(v) for v in FORMATS[fmtn]))
        lines.append("enc 16")
        for variant in (0, 1, 0):
            lines.append("paint edge127 %d 70 30 64 %d 127 %d" % (rng.randrange(1 << 30), th_e, variant << 4))
            lines.append("req 0 70 30 64 %d" % th_e)
        out.append(("\n".join(lines) + "\n", {"sb": sb_e, "W": 140, "H": 100, "enc": "zrle", "fmt": fmtn, "big": False,
                                               "lossy": False, "boundary": True}))
    # Hextile: deterministic cycle of tile kinds (state transitions of validBg/validFg)
    for sb_, fmtn in ((4, "server"), (2, "rgb888le"), (1, "rgb332"), (4, "rgb565be")):
        mk(sb_, 16 * 15 + 3, 35, "hextile", fmtn, [("tiles", 2, (16 << 4) | 2), ("tiles", 3, (16 << 4) | 2)])
    mk(4, 2100, 5, "zrle", "rgbx_le", [("runs", 17, 300 << 4)])
    # Zlib / Ultra: row splitting (32768-pixel pieces), tiny rectangles sent raw
    mk(4, 300, 230, "zlib", "server", [("photo", 1, 0), ("flat", 1, 0)], extra_enc=(-256 + 9,), reqs=[(0, 0, 300, 230), (3, 3, 2, 2), (0, 0, 4, 1)])
    mk(2, 1100, 61, "zlib", "rgb888le", [("tiles", 4, 16 << 4)], extra_enc=(-256 + 1,))
    mk(4, 300, 230, "ultra", "server", [("photo", 1, 0), ("tiles", 4, 16 << 4)])
    mk(1, 8192, 9, "ultra", "bgr233", [("runs", 6, 0)])
    # Tight: > 2048 wide, > 65536 pixels, solid-area search (LastRect), mono / indexed / full colour, all levels
    for lvl in (0, 1, 2, 9):
        mk(4, 2100, 40, "tight", rng.choice(["server", "rgb888le", "rgb565le"]),
           [("blocks", 3, 30 << 4), ("pal", 2, 0), ("tiles", 6, 16 << 4)], extra_enc=(-256 + lvl, LASTRECT))
        mk(rng.choice([2, 4]), 300, 230, "tight", rng.choice(["server", "bgr888be", "rgb555le", "bgr233"]),
           [("outlier", 3, 3 << 4), ("pal", 200, 0), ("photo", 1, 0)], extra_enc=(-256 + lvl,))
    mk(4, 300, 230, "tightpng", "rgb888le", [("tiles", 5, 16 << 4), ("photo", 1, 0)], extra_enc=(-256 + 3, LASTRECT))
    mk(2, 129, 65, "tightpng", "rgb565le", [("tiles", 5, 16 << 4)], extra_enc=(-256 + 0,))
    # TightPng image bigger than the buffer sized for a 16-bpp client (afterEncBuf overflow, fixed)
    mk(2, 2100, 33, "tightpng", "server", [("noise", 1, 0)], extra_enc=(-256 + rng.choice([0, 1]),), reqs=[(0, 0, 2100, 32), (0, 0, 2100, 33)])
    mk(4, 300, 230, "tightpng", "rgb555le", [("noise", 1, 0), ("photo", 1, 0)], extra_enc=(-256 + 1,))
    return out


def tiny_scripts(rng):
    """deterministic: every zlib-based encoding x every compression level 0..9 (and every other encoder
    once per server depth) gets tiny NON-SOLID rectangles as 2nd, 3rd, ... update of the connection, with
    data lengths on both sides of Tight's 12-byte "too short to compress" threshold and of Zlib's
    17-byte one: full colour 1x1..5x1 / 1x3, two-colour strips 8/16/88/89/95/96/97 x 1, 9x2, small indexed."""
    out = []
    W, H = 120, 44
    fmts = ["server", "rgb888le", "rgb565le", "bgr888be", "bgr233", "rgb555be", "rgbx_le", "server", "rgb332", "rgb101010"]
    full = [(1, 1), (2, 1), (3, 1), (4, 1), (5, 1), (1, 3), (2, 2), (1, 13), (6, 2), (17, 1)]
    strips = [(8, 1), (16, 1), (88, 1), (89, 1), (95, 1), (96, 1), (97, 1), (9, 2), (7, 1), (1, 9), (24, 4), (3, 1)]
    small = [(4, 3), (11, 1), (12, 1), (13, 1), (3, 4), (6, 2), (5, 5), (2, 1)]

    def reqs(sizes, k):
        ls = []
        for j, (w, h) in enumerate(sizes):
            # interior (below the soft cursor), right edge, bottom edge, top-left corner in turn
            pos = [(30 + j, 24 + (j % 7)), (W - w, 26 + j % 5), (13 + 2 * j, H - h), (0, 0)][(j + k) % 4]
            x, y = min(pos[0], W - w), min(pos[1], H - h)
            ls.append("req 0 %d %d %d %d" % (x, y, w, h))
        return ls

    def script(sb, fmtn, enc_line, k, encname):
        lines = ["screen %d %d %d" % (W, H, sb), "client"]
        if fmtn != "server":
            lines.append("fmt " + " ".join(str(v) for v in FORMATS[fmtn]))
        lines.append(enc_line)
        lines.append("paint noise %d 0 0 %d %d 1 0" % (rng.randrange(1 << 30), W, H))
        lines.append("req 0 0 0 %d %d" % (W, H))
        lines += reqs(full, k)
        lines.append("paint pal %d 0 0 %d %d 2 0" % (rng.randrange(1 << 30), W, H))
        lines += reqs(strips, k + 1)
        lines.append("paint pal %d 0 0 %d %d 3 0" % (rng.randrange(1 << 30), W, H))
        lines += reqs(small, k + 2)
        lines.append("paint tiles %d 0 0 %d %d 4 %d" % (rng.randrange(1 << 30), W, H, 4 << 4))
        lines += reqs(small + full[:5], k + 3)
        out.append(("\n".join(lines) + "\n", {"sb": sb, "W": W, "H": H, "enc": encname, "fmt": fmtn, "big": False,
                                               "lossy": False, "boundary": True, "tiny": True}))

    k = 0
    for encname in ("zlib", "tight", "tightpng", "zrle"):
        for lvl in range(10):
            extra = " %d" % LASTRECT if (encname in ("tight", "tightpng") and lvl % 2) else ""
            script([4, 2, 1][k % 3], fmts[(k + lvl) % len(fmts)], "enc %d %d%s" % (ENC[encname], -256 + lvl, extra), k, encname)
            k += 1
    # Tight without any compress-level pseudo-encoding (library default), both Tight flavours on 32 bpp depth 24
    script(4, "rgb888le", "enc %d" % ENC["tight"], k, "tight")
    script(4, "rgb888be", "enc %d -256" % ENC["tight"], k + 1, "tight")
    # a client that never sends SetEncodings, or only pseudo-encodings: preferredEncoding stays -1 -> Raw
    for sb in (1, 2, 4):
        script(sb, fmts[(k + sb) % len(fmts)], "# no SetEncodings at all", k, "raw")
        script(sb, fmts[(k + sb + 1) % len(fmts)], "enc %d %d" % (LASTRECT, -256 + 3), k + 1, "raw")
        k += 2
    # Tight analysis paths: formats that share bits-per-pixel with the server but not all channel maxima
    for fmtn in ("r7g8b8", "r8g8b7"):
        for lvl in (0, 1):
            script(4, fmtn, "enc %d %d" % (ENC["tight"], -256 + lvl), k, "tight")
            k += 1
    for encname in ("raw", "rre", "corre", "hextile", "ultra"):
        for sb in (1, 2, 4):
            script(sb, fmts[(k + sb) % len(fmts)], "enc %d" % ENC[encname], k, encname)
            k += 1
    return out


def newfb_scripts(rng):
    """deterministic: rfbNewFramebuffer with another pixel format in mid-session, for a client that never sent
    SetPixelFormat and for one whose SetPixelFormat equals the ServerInit format; afterwards one update in
    every encoding.  The client keeps the OLD format: the server has to translate."""
    out = []
    W, H = 72, 40
    encs = [("raw", ""), ("rre", ""), ("corre", ""), ("hextile", ""), ("zlib", " -251"), ("zrle", " -254"),
            ("tight", " -255"), ("tight", " -256 %d" % LASTRECT), ("tightpng", " -253"), ("ultra", "")]
    for old_sb, new_sb in ((4, 2), (4, 1), (2, 4), (2, 1), (1, 4), (1, 2)):
        for explicit in (False, True):
            lines = ["screen %d %d %d" % (W, H, old_sb), "client"]
            if explicit:
                lines.append("fmt " + " ".join(str(v) for v in server_format(old_sb)))
            lines += ["enc 5", "paint tiles %d 0 0 %d %d 4 256" % (rng.randrange(1 << 30), W, H), "req 0 0 0 %d %d" % (W, H)]
            lines.append("newfb %d" % new_sb)
            for j, (e, extra) in enumerate(encs):
                lines.append("enc %d%s" % (ENC[e], extra))
                kind, n_, fl = [("tiles", 4, 256), ("photo", 1, 0), ("pal", 3, 0), ("runs", 6, 0)][j % 4]
                lines.append("paint %s %d 0 0 %d %d %d %d" % (kind, rng.randrange(1 << 30), W, H, n_, fl))
                x, y, w, h = [(0, 0, W, H), (8, 4, 56, 30)][j % 2]
                lines.append("req 0 %d %d %d %d" % (x, y, w, h))
            out.append(("\n".join(lines) + "\n", {"sb": old_sb, "W": W, "H": H, "enc": "raw", "fmt": "server", "big": False,
                                                   "lossy": False, "boundary": True, "newfb": new_sb}))
    return out


def lastrect_count_scripts(rng):
    """deterministic: Tight / TightPng with LastRect on rectangles of exactly MIN_SPLIT_RECT_SIZE = 4096 pixels
    whose height is a power of two, holding a 16x16-aligned solid area >= 2048 pixels that is not the whole
    rectangle: the encoder splits, so the update must be announced with 0xFFFF + LastRect (or the right count)."""
    out = []
    W, H = 300, 80
    for encname in ("tight", "tightpng"):
        for sb, fmtn in ((4, "server"), (4, "rgb888le"), (2, "server")):
            lines = ["screen %d %d %d" % (W, H, sb), "client"]
            if fmtn != "server":
                lines.append("fmt " + " ".join(str(v) for v in FORMATS[fmtn]))
            lines.append("enc %d %d %d" % (ENC[encname], -256 + 1, LASTRECT))
            for (w, h) in ((64, 64), (128, 32), (256, 16), (32, 128 if H >= 128 else 64)):
                if w * h != 4096:
                    continue
                x, y = 32, 16 if h <= 48 else 0
                lines.append("paint noise %d 0 0 %d %d 1 0" % (rng.randrange(1 << 30), W, H))
                # solid half (>= 2048 px, 16-aligned relative to the rectangle), not the whole rectangle
                if w >= 128:
                    lines.append("paint flat %d %d %d %d %d 1 0" % (rng.randrange(1 << 30), x, y, w // 2, h))
                else:
                    lines.append("paint flat %d %d %d %d %d 1 0" % (rng.randrange(1 << 30), x, y, w, h // 2))
                lines.append("req 0 %d %d %d %d" % (x, y, w, h))
                lines.append("paint flat %d %d %d %d %d 1 0" % (rng.randrange(1 << 30), x + w - (w // 2 if w >= 128 else w), y + (0 if w >= 128 else h // 2), w // 2 if w >= 128 else w, h if w >= 128 else h // 2))
                lines.append("req 0 %d %d %d %d" % (x, y, w, h))
            out.append(("\n".join(lines) + "\n", {"sb": sb, "W": W, "H": H, "enc": encname, "fmt": fmtn, "big": False,
                                                   "lossy": False, "boundary": True}))
    return out


def jpeg_scripts(rng):
    """deterministic, every quality level 0..9: `flat16` content (16x16-aligned flat blocks, all different, the
    first ones pure red / green / blue / black / white) on 32-bpp screens with 8-8-8 client formats — the
    content for which the JPEG error bound is derivable — requested as a whole and as 16-aligned parts."""
    out = []
    W, H = 208, 160
    fmts = ["server", "rgb888le", "bgr888be", "rgbx_le", "rgb888be"]
    for q in range(10):
        fmtn = fmts[q % len(fmts)]
        lines = ["screen %d %d 4" % (W, H), "client"]
        if fmtn != "server":
            lines.append("fmt " + " ".join(str(v) for v in FORMATS[fmtn]))
        lines.append("enc %d %d %d" % (ENC["tight"], -256 + (1 if q % 2 else 2), -32 + q))
        lines.append("paint flat16 %d 0 0 %d %d 200 0" % (rng.randrange(1 << 30), W, H))
        lines.append("req 0 0 0 %d %d" % (W, H))
        lines.append("req 0 32 16 144 128")
        lines.append("paint flat16 %d 48 32 160 128 200 0" % rng.randrange(1 << 30))
        lines.append("req 0 48 32 160 128")
        out.append(("\n".join(lines) + "\n", {"sb": 4, "W": W, "H": H, "enc": "tight", "fmt": fmtn, "big": False,
                                               "lossy": True, "quality": q, "boundary": True}))
    return out


def stream_scripts(rng):
    """deterministic: the zlib streams of a connection persist across SetEncodings.  For every
    stream-carrying encoding (Zlib; Tight's streams 0 = full colour, 1 = mono, 2 = indexed; TightPng's basic
    rectangles on 8 bpp; ZRLE) one connection on which, between non-tiny rectangles, the client changes the
    compression level (up, down, same again, none), sets and removes a JPEG quality level, switches to each
    other encoding and back.  (ZlibHex, encoding 8, is not implemented by this server: it is not offered.)"""
    out = []
    W, H = 96, 72
    contents = {"full": ("noise", 1), "mono": ("pal", 2), "indexed": ("pal", 7), "photo": ("photo", 1), "tiles": ("tiles", 4)}

    def script(sb, fmtn, encname, kinds, k):
        e = ENC[encname]
        others = [ENC[o] for o in ("zlib", "tight", "zrle", "hextile", "raw") if o != encname]
        lines = ["screen %d %d %d" % (W, H, sb), "client"]
        if fmtn != "server":
            lines.append("fmt " + " ".join(str(v) for v in FORMATS[fmtn]))
        lv = [6, 9, 1, 1, 0, 3, 9, 2]
        steps = []
        steps.append("enc %d %d" % (e, -256 + lv[0]))
        steps.append("enc %d %d" % (e, -256 + lv[1]))            # level up
        steps.append("enc %d %d" % (e, -256 + lv[2]))            # level down
        steps.append("enc %d %d" % (e, -256 + lv[3]))            # same level again
        steps.append("enc %d" % e)                               # no level (library default)
        steps.append("enc %d %d" % (e, -256 + lv[4]))            # level 0
        steps.append("enc %d %d" % (e, -256 + lv[5]))
        for o in others:                                         # away to another encoding and back
            steps.append("enc %d %d" % (o, -256 + lv[(k + o) % 8]))
            steps.append("enc %d %d" % (e, -256 + lv[(k + o + 3) % 8]))
        if encname in ("tight",):
            steps.append("enc %d %d %d" % (e, -256 + 2, -32 + 7))    # JPEG quality on (palette content stays zlib)
            steps.append("enc %d %d" % (e, -256 + 2))                # and off again
            steps.append("enc %d %d %d" % (e, -256 + 9, LASTRECT))
        for j, st in enumerate(steps):
            lines.append(st)
            kd = kinds[j % len(kinds)]
            pk = contents[kd]
            lines.append("paint %s %d 0 0 %d %d %d %d" % (pk[0], rng.randrange(1 << 30), W, H, pk[1], (16 << 4) if pk[0] == "tiles" else 0))
            x, y, w, h = [(0, 0, W, H), (16, 20, 64, 48), (W - 40, H - 30, 40, 30)][j % 3]
            lines.append("req 0 %d %d %d %d" % (x, y, w, h))
        out.append(("\n".join(lines) + "\n", {"sb": sb, "W": W, "H": H, "enc": encname, "fmt": fmtn, "big": False,
                                               "lossy": False, "boundary": True, "streams": True}))

    k = 0
    for encname, kindsets in (("zlib", [["full", "tiles", "mono"]]),
                              ("zrle", [["full", "tiles", "indexed"]]),
                              ("tight", [["full"], ["mono"], ["indexed"], ["full", "mono", "indexed", "tiles"]]),
                              ("tightpng", [["full", "mono", "indexed"]])):
        for kinds in kindsets:
            for sb, fmtn in (((4, "server"), (2, "rgb888le"), (1, "bgr233")) if encname != "tightpng" else ((1, "bgr233"), (4, "rgb332"))):
                script(sb, fmtn, encname, kinds, k)
                k += 1
    return out


# ------------------------------------------------------------------ running one script
def run_proc(exe, script, timeout=300):
    """run a line-protocol program (harness or Lean driver) on a script -> (rc, stdout lines, stderr tail).
    Same discipline as Ctx.run_lines (the workers of this module run in separate processes and have no
    ctx): a run that exceeds its limit is repeated ALONE (build.Lock("confirm-hang"): one confirmation at a
    time across all checks of this tree) with three times the limit; only a second expiry is rc 124.  A
    loaded machine can therefore not turn a healthy run into a reported hang."""
    from .. import build
    e = dict(os.environ)
    e.setdefault("ASAN_OPTIONS", "detect_leaks=1:abort_on_error=0:allocator_may_return_null=1")
    e.setdefault("UBSAN_OPTIONS", "print_stacktrace=1")

    def once(limit):
        r = subprocess.run([exe], input=script, stdout=subprocess.PIPE, stderr=subprocess.PIPE, text=True,
                           timeout=limit, env=e, errors="replace")
        return r.returncode, r.stdout.splitlines(), r.stderr[-3000:]

    # after two confirmed hangs in this check run the limit for the remaining runs drops to 20 s (60 s alone),
    # so that code which blocks costs minutes, not hours (a SPINNING harness is ended by its own CPU limit)
    marker = os.path.join(build.CACHE, "c01-hangs-%d" % os.getppid())
    try:
        if os.path.exists(marker) and len(open(marker).read()) >= 2:
            timeout = min(timeout, 20)
    except OSError:
        pass
    try:
        return once(timeout)
    except subprocess.TimeoutExpired:
        pass
    try:
        with build.Lock("confirm-hang"):
            return once(3 * timeout)
    except subprocess.TimeoutExpired as ex:
        so = ex.stdout.decode(errors="replace") if isinstance(ex.stdout, bytes) else (ex.stdout or "")
        try:
            with open(marker, "a") as fh:
                fh.write("x")
        except OSError:
            pass
        return 124, so.splitlines(), "TIMEOUT after %ss (confirmed alone with %ss)" % (timeout, 3 * timeout)


class Codec:
    """trusted LZO / JPEG decoders living in the harness executable (separate process per call batch)"""
    def __init__(self, exe):
        self.exe = exe

    def unlzo(self, z, outlen):
        rc, out, err = run_proc(self.exe, "unlzo %d %s\n" % (outlen, z.hex() or "-"))
        if rc != 0 or not out or not out[0].startswith("data "):
            raise D.Malformed("lzo: %r" % (out[:1],))
        h = out[0].split()[1]
        return b"" if h == "-" else bytes.fromhex(h)

    def unjpeg(self, data, w, h):
        rc, out, err = run_proc(self.exe, "unjpeg %s\n" % data.hex())
        if rc != 0 or not out or not out[0].startswith("rgb "):
            raise D.Malformed("jpeg: %r" % (out[:1],))
        t = out[0].split()
        if int(t[1]) != w or int(t[2]) != h:
            raise D.Malformed("jpeg size %sx%s for rect %dx%d" % (t[1], t[2], w, h))
        return bytes.fromhex(t[3])


def split_ops(script, lines):
    """harness output -> [(op line, [info lines])]"""
    ops = [l for l in script.splitlines() if l.strip() and not l.startswith("#")]
    res, cur, i = [], [], 0
    for l in lines:
        if l == ".":
            if i < len(ops):
                res.append((ops[i], cur))
            i += 1
            cur = []
        else:
            cur.append(l)
    return res, (i == len(ops) and not cur)


def sub_rect(snap, sx, sy, sw, sh, x, y, w, h, bpp):
    rows = []
    for yy in range(y, y + h):
        o = ((yy - sy) * sw + (x - sx)) * bpp
        rows.append(snap[o:o + w * bpp])
    return b"".join(rows)


def chan_err(fmt, a, b):
    """max per-channel difference of two pixel arrays, on a 0..255 scale"""
    bpp = fmt.bytespp
    mx = 0
    if a == b:
        return 0
    for i in range(0, len(a), bpp):
        pa, pb = a[i:i + bpp], b[i:i + bpp]
        if pa != pb:
            ca, cb = fmt.comps(pa), fmt.comps(pb)
            for k, m in zip(range(3), (fmt.rmax, fmt.gmax, fmt.bmax)):
                if m:
                    mx = max(mx, abs(ca[k] - cb[k]) * 255 // m)
    return mx


def colour_mask(fmt):
    m = fmt.of_value((fmt.rmax << fmt.rs) | (fmt.gmax << fmt.gs) | (fmt.bmax << fmt.bs))
    return None if m == b"\xff" * fmt.bytespp else m


def same_pixels(fmt, a, b):
    """equality of two pixel arrays on the bits that carry colour (an untranslated 32-bpp framebuffer
    may hold anything in its unused byte; that byte is not part of the pixel's colour)"""
    if a == b:
        return True
    m = colour_mask(fmt)
    if m is None or len(a) != len(b):
        return False
    mm = int.from_bytes(m * (len(a) // fmt.bytespp), "big")
    return int.from_bytes(a, "big") & mm == int.from_bytes(b, "big") & mm


def same_pixels_cp(fmt, a, b, cp):
    """equality on the three wire bytes a CPIXEL of kind cp carries"""
    if cp[0] == "full":
        return a == b
    bpp = fmt.bytespp
    sl = slice(0, 3) if cp[0] == "lo3" else slice(1, 4)
    return all(a[i:i + bpp][sl] == b[i:i + bpp][sl] for i in range(0, len(a), bpp))


def masked(fmt, a):
    m = colour_mask(fmt)
    if m is None:
        return a
    mm = int.from_bytes(m * (len(a) // fmt.bytespp), "big")
    return (int.from_bytes(a, "big") & mm).to_bytes(len(a), "big")


LOSSY_BOUND = 255  # replaced below by the per-quality table


def process(args):
    """worker: run one script on the harness, decode, compare; -> result dict (picklable)"""
    hexe, dexe, script, meta, driver_ok, codec_exe = args
    res = {"fails": [], "stats": {"enc": {}, "hextile": {}, "zrle": {}, "tight": {}}, "nrects": 0, "npix": 0,
           "lossy_err": {}, "lean_rects": 0, "model_rects": 0, "nontrivial": 0, "meta": meta}
    sl = script.splitlines()

    def fail(kind, what, detail, **kw):
        f = {"kind": kind, "what": what, "detail": detail, "script": sl[:400], "meta": meta}
        f.update(kw)
        res["fails"].append(f)

    run_script = script
    has_newfb = any(l.startswith("newfb ") for l in sl)
    if has_newfb or any(l.startswith("enc ") and ("7" in l.split()[1:]) for l in sl):
        # the Tight solid-area search looks at the server-format framebuffer: ask the harness for it too
        run_script = script.replace("\nclient\n", "\nclient\nsraw 1\n", 1)
    rc, out, err = run_proc(hexe, run_script)
    if rc != 0:
        fid = "tightpng-afterencbuf-overflow" if ("pngWriteData" in err and "overflow" in err) else None
        what = "harness exit %d" % rc
        if rc == -24:
            what = "the server spins: harness killed by its CPU-time limit (SIGXCPU) while serving " + \
                   (out and "the op after %d completed ops" % sum(1 for l in out if l == ".") or "the script")
        elif rc == 124:
            what = "the server blocks: harness did not finish (" + err + ")"
        fail("crash", what, err, impl=[l[:200] for l in out[-10:]], finding=fid)
        return res
    ops, ok = split_ops(run_script, out)
    if not ok:
        fail("crash", "harness output incomplete", err)
        return res
    sb = meta["sb"]
    fmt = D.Fmt(*server_format(sb))
    srv_fmt = fmt
    conn = D.Conn()
    codec = Codec(codec_exe)
    lean_lines, lean_expect = [], []
    intended, corre_max = 0, (48, 48)
    tight_lvl0, tight_jpeg, tight_last = False, False, False
    after_newfb = False
    for opi, (op, info) in enumerate(ops):
        t = op.split()
        if t[0] == "enc":
            real = [int(v) for v in t[1:] if int(v) in REAL_ENCS]
            intended = (real[0] if real else 0) & 0xFFFFFFFF
            lv = [int(v) + 256 for v in t[1:] if -256 <= int(v) <= -247]
            tight_lvl0 = bool(lv) and lv[-1] == 0
            tight_jpeg = any(-32 <= int(v) <= -23 or -512 <= int(v) <= -412 for v in t[1:])
            tight_last = any(int(v) == LASTRECT for v in t[1:])
        if t[0] == "cfg" and t[1] == "corre":
            corre_max = (int(t[2]), int(t[3]))
        if "bad-op" in info or "client-closed" in info or "handshake-failed" in info or "no-screen" in info:
            fail("crash" if "client-closed" in info else "exact", "harness answered %r to %r" % (info[-1], op),
                 "the server closed the connection or refused the op")
            return res
        for l in info:
            if l.startswith("fmtinfo "):
                fmt = D.Fmt(*[int(v) for v in l.split()[1:11]])
                srv_fmt = fmt
                if fmt.depth > 24 and fmt.bpp == 32:
                    res["stats"].setdefault("notes", {})
                    res["stats"]["notes"]["sessions whose format has depth>24 (ZRLE CPIXEL decoded by the de-facto rule)"] = \
                        res["stats"]["notes"].get("sessions whose format has depth>24 (ZRLE CPIXEL decoded by the de-facto rule)", 0) + 1
        for l in info:
            if l.startswith("srvfmt "):
                srv_fmt = D.Fmt(*[int(v) for v in l.split()[1:11]])
                sb = srv_fmt.bytespp
                after_newfb = True
        if t[0] == "fmt":
            f = tuple(int(v) for v in t[1:11])
            fmt = D.Fmt(*(BGR233 if not f[3] else f))
        outs = [l for l in info if l.startswith("out ")]
        if not outs:
            continue
        h = outs[0][4:]
        buf = b"" if h == "-" else bytes.fromhex(h)
        snaps = []
        for l in info:
            if l.startswith("snap "):
                p = l.split()
                snaps.append((int(p[1]), int(p[2]), int(p[3]), int(p[4]), bytes.fromhex(p[5])))
        if "copyregion-nonempty" in info:
            fail("exact", "unexpected copy region", op)
        # known finding: an update that needs more than 65535 rectangles announces the count modulo 65536
        nrects16 = None
        if t[0] == "req" and intended == 4 and snaps:
            needed = sum(((s_[2] + corre_max[0] - 1) // corre_max[0]) * ((s_[3] + corre_max[1] - 1) // corre_max[1]) for s_ in snaps)
            if needed > 65535 and len(buf) >= 4 and buf[0] == 0 and struct.unpack(">H", buf[2:4])[0] == needed % 65536:
                nrects16 = needed
        if nrects16 is not None:
            fail("oracle", "FramebufferUpdate of %d CoRRE rectangles announces %d (16-bit rectangle count): undecodable"
                 % (nrects16, nrects16 % 65536), op, finding="c01-nrects-16bit")
            return res
        try:
            msgs = D.parse_server_stream(buf, fmt, conn, codec.unlzo, codec.unjpeg, res["stats"],
                                         one_update=(t[0] == "req"))
        except D.Malformed as e:
            fail("oracle", "server output is not decodable by the RFB rules: %s" % e, op,
                 impl=["out " + h[:2000]])
            return res
        fbus = [m for m in msgs if m[0] == "fbu"]
        if t[0] == "req":
            if len(fbus) != 1:
                fail("oracle", "expected exactly one FramebufferUpdate after %r, got %d" % (op, len(fbus)), op)
                return res
            if not snaps:
                fail("exact", "no snapshot for " + op, "hook not called")
                return res
        elif fbus:
            fail("exact", "FramebufferUpdate outside a request: " + op, "")
            return res
        if not fbus:
            continue
        rects = fbus[0][1]
        # coverage: the rectangles sent must tile the update region (area check + containment)
        area_s = sum(s[2] * s[3] for s in snaps)
        area_r = sum(r["w"] * r["h"] for r in rects)
        cover_bad = None
        if area_s != area_r:
            cover_bad = "rectangles sent cover %d pixels, update region has %d" % (area_r, area_s)
        else:
            # exact tiling: every pixel of every region rectangle is sent exactly once
            maps = [bytearray(s[2] * s[3]) for s in snaps]
            for r in rects:
                for k, s_ in enumerate(snaps):
                    if s_[0] <= r["x"] and s_[1] <= r["y"] and r["x"] + r["w"] <= s_[0] + s_[2] and r["y"] + r["h"] <= s_[1] + s_[3]:
                        one = b"\x01" * r["w"]
                        for yy in range(r["y"] - s_[1], r["y"] - s_[1] + r["h"]):
                            o = yy * s_[2] + (r["x"] - s_[0])
                            if maps[k][o:o + r["w"]] != bytes(r["w"]):
                                cover_bad = "pixel row sent twice (rectangle %d,%d %dx%d overlaps an earlier one)" % (r["x"], r["y"], r["w"], r["h"])
                            maps[k][o:o + r["w"]] = one
                        break
            if cover_bad is None and any(0 in m for m in maps):
                cover_bad = "some pixels of the update region are in no rectangle"
        if cover_bad:
            fail("oracle", cover_bad, op,
                 impl=["rects " + " ".join("%d,%d,%d,%d" % (r["x"], r["y"], r["w"], r["h"]) for r in rects[:50])])
        if intended == 4 and driver_ok:
            lean_lines.append("split corre %d %d " % corre_max + " ".join("%d %d %d %d" % s[:4] for s in snaps))
            lean_expect.append(("rects " + " ".join("%d,%d,%d,%d" % (r["x"], r["y"], r["w"], r["h"]) for r in rects),
                                op, "CoRRE rectangle splitting", None))
        if intended == 7 and not tight_jpeg and driver_ok:
            sraws = [l.split() for l in info if l.startswith("sraw ")]
            if len(sraws) == len(snaps) and sum(s_[2] * s_[3] for s_ in snaps) <= 400000:
                want = []
                for r in rects:
                    want.append("%s:%d,%d,%d,%d" % ("f" if r.get("tkind") == "fill" else "s", r["x"], r["y"], r["w"], r["h"]))
                for p_ in sraws:
                    lean_lines.append("tightplan %d %d %s %s %s %s %s" % (1 if tight_last else 0, sb, p_[1], p_[2], p_[3], p_[4], p_[5]))
                    lean_expect.append((None, op, "Tight rectangle plan (splitting + solid-area search)", ("plan", want, opi)))
        if intended in (6, 9) and driver_ok:
            lean_lines.append("split zlib " + " ".join("%d %d %d %d" % s[:4] for s in snaps))
            lean_expect.append(("rects " + " ".join("%d,%d,%d,%d" % (r["x"], r["y"], r["w"], r["h"]) for r in rects),
                                op, "Zlib/Ultra row splitting", None))
        for r in rects:
            res["nrects"] += 1
            res["npix"] += r["w"] * r["h"]
            host = [s for s in snaps if s[0] <= r["x"] and s[1] <= r["y"] and r["x"] + r["w"] <= s[0] + s[2]
                    and r["y"] + r["h"] <= s[1] + s[3]]
            if not host:
                fail("oracle", "rectangle %d,%d %dx%d is not inside the update region" % (r["x"], r["y"], r["w"], r["h"]), op)
                continue
            s = host[0]
            ref = sub_rect(s[4], s[0], s[1], s[2], s[3], r["x"], r["y"], r["w"], r["h"], fmt.bytespp)
            if after_newfb and fmt.tc and srv_fmt.tc:
                # after rfbNewFramebuffer the reference is computed independently of cl->translateFn from the
                # server-format pixels: "converted to the pixel format the client asked for"
                sr = [q for q in (l.split() for l in info if l.startswith("sraw ")) if (int(q[1]), int(q[2]), int(q[3]), int(q[4])) == s[:4]]
                if sr:
                    rawrect = sub_rect(bytes.fromhex(sr[0][5]), s[0], s[1], s[2], s[3], r["x"], r["y"], r["w"], r["h"], srv_fmt.bytespp)
                    ind = translate_independent(srv_fmt, fmt, rawrect)
                    if not same_pixels(fmt, ind, ref):
                        fail("oracle", "after rfbNewFramebuffer the pixels handed to the encoders are not the framebuffer converted to the client's format (rectangle %d,%d %dx%d: snapshot via cl->translateFn differs from the colour-scaling rule)"
                             % (r["x"], r["y"], r["w"], r["h"]), op)
                    ref = ind
            name = D.ENC_NAMES.get(r["enc"], str(r["enc"]))
            if r["enc"] in (16, 17) and fmt.cpix() != fmt.cpix_defacto() and not res.get("cpixel_depth_reported"):
                # the rectangle is decoded below with the rule all implementations use; by the letter of
                # RFC 6143 (CPIXEL is 3 bytes only if depth <= 24) it is NOT decodable: known finding
                res["cpixel_depth_reported"] = True
                fail("oracle", "ZRLE rectangle for a 32-bpp format with depth %d > 24 uses 3-byte CPIXELs; RFC 6143 7.7.5 prescribes 4 bytes (server ignores the depth field)" % fmt.depth,
                     op, finding="cpixel-depth")
            if r.get("skip"):
                # wavelet-coded tiles are not compared: copy the reference into them
                pxa = bytearray(r["px"])
                for (tx, ty, tw, th) in r["skip"]:
                    D.blit(pxa, r["w"], fmt.bytespp, tx, ty, tw, th,
                           sub_rect(ref, 0, 0, r["w"], r["h"], tx, ty, tw, th, fmt.bytespp))
                    res["stats"]["zrle"]["zywrle_wavelet_tiles"] = res["stats"]["zrle"].get("zywrle_wavelet_tiles", 0) + 1
                r["px"] = bytes(pxa)
            if r.get("error"):
                fail("oracle", "%s rectangle %d,%d %dx%d is not decodable by the RFB rules: %s"
                     % (name, r["x"], r["y"], r["w"], r["h"], r["error"]), op,
                     impl=["payload " + r["dwire"][:600].hex()], finding=r.get("finding"))
                continue
            if r["px"] is None:
                continue
            if r["lossy"]:
                # arbitrary content: measured only (statistic in the evidence), never a failure
                e = chan_err(fmt, r["px"], ref)
                key = "%s q=%s" % (name, meta.get("quality"))
                res["lossy_err"][key] = max(res["lossy_err"].get(key, 0), e)
                if r.get("jpeg") is not None:
                    try:
                        bad = jpeg_flat_check(r, fmt, ref, res)
                    except D.Malformed as ex:
                        bad = str(ex)
                    if bad:
                        fail("oracle", "Tight JPEG rectangle %d,%d %dx%d: %s" % (r["x"], r["y"], r["w"], r["h"], bad), op)
            elif r["still"] is not None and r["px"] != ref:
                # TightPng: the image holds the server's colours at 8 bits; exact only up to the client's rescaling
                e = chan_err(fmt, r["px"], ref)
                res["lossy_err"]["png-rescale"] = max(res["lossy_err"].get("png-rescale", 0), e)
                if e > png_bound(srv_fmt, fmt):
                    fail("oracle", "TightPng rectangle differs by %d per channel" % e, op)
            elif not same_pixels(fmt, r["px"], ref):
                bad = next(i for i in range(0, len(ref), fmt.bytespp) if r["px"][i:i + fmt.bytespp] != ref[i:i + fmt.bytespp]) // fmt.bytespp
                fid = None
                if r["enc"] == 16 and fmt.cpix_int32_overflow() != fmt.cpix_defacto():
                    try:
                        alt = D.dec_zrle_data(r["zdata"], r["w"], r["h"], fmt, None, cp=fmt.cpix_int32_overflow())
                        if same_pixels_cp(fmt, alt, ref, fmt.cpix_int32_overflow()):
                            fid = "zrle-cpixel-shift-overflow"
                    except D.Malformed:
                        pass
                fail("oracle", "%s rectangle %d,%d %dx%d decodes to different pixels (first at x=%d y=%d: got %s want %s)"
                     % (name, r["x"], r["y"], r["w"], r["h"], bad % r["w"], bad // r["w"],
                        r["px"][bad * fmt.bytespp:(bad + 1) * fmt.bytespp].hex(), ref[bad * fmt.bytespp:(bad + 1) * fmt.bytespp].hex()), op,
                     impl=["payload " + r["dwire"][:600].hex()], finding=fid)
                continue
            if len(set(ref[i:i + fmt.bytespp] for i in range(0, min(len(ref), 4096 * fmt.bytespp), fmt.bytespp))) > 1:
                res["nontrivial"] += 1
            # Lean side: spec decoder on the decompressed wire, model prediction from the snapshot
            if r["enc"] == 17:
                continue
            cost = r["w"] * r["h"] * (1 + (r.get("nsub", 0) // 64 if r["enc"] in (2, 4) else 0))
            if cost > 4_000_000:
                continue
            if not lean_lines or lean_lines[0] != "fmt":
                pass
            lean_lines.append("fmt " + " ".join(str(v) for v in fmt.tuple()))
            lean_expect.append(("ok", None, None, None))
            lean_lines.append("cpix defacto")
            lean_expect.append(("ok", None, None, None))
            line = "dec %d %d %d %s" % (r["enc"] & 0xFFFFFFFF, r["w"], r["h"], r["dwire"].hex() or "-")
            if r["still"] is not None:
                line += " " + r["still"].hex()
            lean_lines.append(line)
            want = r["px"] if (r["lossy"] or r["still"] is not None) else ref
            lean_expect.append(("px 0 " + (masked(fmt, want).hex() or "-"), op, "spec-decode %s %dx%d" % (name, r["w"], r["h"]), fmt))
            res["lean_rects"] += 1
            iname = D.ENC_NAMES.get(intended, "?")
            if name == "tight" and tight_jpeg:
                pass
            elif name in MODELLED and (r["enc"] == intended or (r["enc"] == 0 and iname in ("rre", "corre"))):
                lean_lines.append("model %d %d %d %s%s" % (intended, r["w"], r["h"], ref.hex() or "-",
                                                          (" %d" % (1 if tight_lvl0 else 0)) if name == "tight" else ""))
                want_m = "bytes " + (model_payload(r).hex() or "-") if r["enc"] == intended else "raw"
                lean_expect.append((want_m, op, "model %s %dx%d" % (iname, r["w"], r["h"]), None))
                res["model_rects"] += 1
                res["stats"].setdefault("model", {})
                res["stats"]["model"][iname] = res["stats"]["model"].get(iname, 0) + 1
    if driver_ok and lean_lines:
        t_l = time.time()
        rc, out, err = run_proc(dexe, "\n".join(lean_lines) + "\n")
        res["lean_s"] = time.time() - t_l
        if rc != 0 or len(out) != len(lean_expect):
            fail("exact", "Lean driver exit %d, %d/%d lines" % (rc, len(out), len(lean_expect)), err)
        else:
            plan_got = []
            for got, (want, op, what, mf) in zip(out, lean_expect):
                if isinstance(mf, tuple) and mf[0] == "plan":
                    plan_got.append((got, mf[1], (mf[2], op), what))
                    continue
                if mf is not None and got.startswith("px 0 ") and got != want:
                    gh = got[5:]
                    got = "px 0 " + (masked(mf, b"" if gh == "-" else bytes.fromhex(gh)).hex() or "-")
                if got != want:
                    fail("exact", "%s: Lean side differs from the implementation" % what, op,
                         impl=[want[:300]], model=[got[:300]])
                    break
            # Tight plans: the model's pieces of all region rectangles of one update, in order, must be the
            # wire's rectangles; a piece sent by SendSubrect ('s') may still come out as a fill on the wire
            byop = {}
            for got, want, op, what in plan_got:
                byop.setdefault(op, [[], want, what])[0].extend(got.split()[1:] if got.startswith("pieces") else ["?"])
            res["stats"].setdefault("model", {})
            res["stats"]["model"]["tight-plan(updates)"] = res["stats"]["model"].get("tight-plan(updates)", 0) + len(byop)
            res["stats"]["model"]["tight-plan(fill pieces)"] = res["stats"]["model"].get("tight-plan(fill pieces)", 0) + \
                sum(1 for v in byop.values() for g in v[0] if g.startswith("f"))
            res["stats"]["model"]["tight-plan(pieces)"] = res["stats"]["model"].get("tight-plan(pieces)", 0) + \
                sum(len(v[0]) for v in byop.values())
            for (_, op), (gl, want, what) in byop.items():
                okp = len(gl) == len(want) and all(g == w_ or (g[0] == "s" and w_[0] == "f" and g[1:] == w_[1:]) for g, w_ in zip(gl, want))
                if not okp:
                    fail("exact", "%s: Lean side differs from the implementation" % what, op,
                         impl=[" ".join(want)[:400]], model=[" ".join(gl)[:400]])
                    break
    return res


def uses_ultra(script):
    return any(l.startswith("enc ") and " 9" in (l + " ").replace(" 9 ", " 9  ") and "9" in l.split()[1:] for l in script.splitlines())


MODELLED = {"raw", "rre", "corre", "hextile", "zrle", "zlib", "tight"}   # encodings with a faithful Lean model (Enc/Server.lean)
REAL_ENCS = {0, 2, 4, 5, 6, 7, 9, 16, 17, -260}


def model_payload(r):
    return r["dwire"]


# NO empirical error bound fails this check.  For arbitrary content the per-channel error of the lossy variants
# is only MEASURED (evidence: lossy_max_channel_error).  What fails:
#   * structural errors: the JPEG data does not decode, has another size than the rectangle, is not baseline
#     3-component YCbCr;
#   * the DERIVED bound on flat MCUs (jpeg_flat_check): for every MCU-aligned block of the rectangle that is one
#     flat colour in the reference, the only non-zero DCT coefficient of every component is DC = 8*(sample-128),
#     quantised with the step q found in the JPEG's own DQT segment: the reconstructed sample is off by at most
#     q/16, plus 1.5 for the fixed-point roundings (RGB->YCbCr 0.5, inverse DCT 0.5, safety 0.5).  Through
#     R = Y + 1.402 Cr, G = Y - 0.344 Cb - 0.714 Cr, B = Y + 1.772 Cb and the final rounding (+1) this gives the
#     per-channel bounds below; range clamping only moves a value towards the (in-range) truth.  The harness
#     decodes with plain chroma replication (do_fancy_upsampling = FALSE), so a flat MCU does not see its
#     neighbours.  A swapped channel order turns the pure red / green / blue blocks of the `flat16` content into
#     errors of 255.


def jpeg_flat_bounds(tab):
    comps = tab["comps"]
    if len(comps) != 3:
        raise D.Malformed("jpeg: %d components (YCbCr expected)" % len(comps))
    ey = tab["qdc"][comps[0][3]] / 16.0 + 1.5
    ecb = tab["qdc"][comps[1][3]] / 16.0 + 1.5
    ecr = tab["qdc"][comps[2][3]] / 16.0 + 1.5
    return (ey + 1.402 * ecr + 1.0, ey + 0.344136 * ecb + 0.714136 * ecr + 1.0, ey + 1.772 * ecb + 1.0)


def jpeg_flat_check(r, fmt, ref, res):
    """derived-bound oracle on flat MCUs; -> error text or None.  Only for 8-bit-per-channel client formats
    (error in 8-bit units is then exactly the JPEG sample error)."""
    tab = D.jpeg_tables(r["jpeg"])
    if (tab["w"], tab["h"]) != (r["w"], r["h"]):
        return "JPEG image is %dx%d, rectangle is %dx%d" % (tab["w"], tab["h"], r["w"], r["h"])
    if not (fmt.rmax == fmt.gmax == fmt.bmax == 255):
        return None
    comps = tab["comps"]
    hmax, vmax = max(c[1] for c in comps), max(c[2] for c in comps)
    if hmax > 2 or vmax > 2:
        return None
    bw, bh = 8 * hmax, 8 * vmax
    bounds = jpeg_flat_bounds(tab)
    bpp, w, h, px = fmt.bytespp, r["w"], r["h"], r["px"]
    st = res["stats"].setdefault("jpeg", {})
    for by in range(0, h, bh):
        for bx in range(0, w, bw):
            cw, ch = min(bw, w - bx), min(bh, h - by)
            first = ref[(by * w + bx) * bpp:(by * w + bx + 1) * bpp]
            rows = [ref[((by + yy) * w + bx) * bpp:((by + yy) * w + bx + cw) * bpp] for yy in range(ch)]
            if any(rw != first * cw for rw in rows):
                st["mcus_not_flat(measured only)"] = st.get("mcus_not_flat(measured only)", 0) + 1
                continue
            st["flat_mcus_checked_against_derived_bound"] = st.get("flat_mcus_checked_against_derived_bound", 0) + 1
            want = fmt.comps(first)
            seen = set()
            for yy in range(ch):
                row = px[((by + yy) * w + bx) * bpp:((by + yy) * w + bx + cw) * bpp]
                if row == first * cw:
                    continue
                for xx in range(cw):
                    pb = row[xx * bpp:(xx + 1) * bpp]
                    if pb in seen:
                        continue
                    seen.add(pb)
                    got = fmt.comps(pb)
                    for k in range(3):
                        if abs(got[k] - want[k]) > bounds[k]:
                            return ("flat %dx%d block at %d,%d of colour %r decodes to %r at %d,%d: channel %s off by %d > derived bound %.1f (DC steps %r)"
                                    % (cw, ch, bx, by, want, got, bx + xx, by + yy, "RGB"[k], abs(got[k] - want[k]), bounds[k], tab["qdc"]))
    return None


def png_bound(srv, fmt):
    """DERIVED tolerance, not a measured one.  TightPng carries the SERVER's colours rescaled to 8 bits per
    channel, c8 = round(cs*255/ms) (tight.c PrepareRowForImg); how a client rescales them to its own channel
    widths is not specified anywhere, this oracle uses the colour-scaling rule cc' = round(c8*mc/255).  The
    reference is the direct translation cc = round(cs*mc/ms).
      * ms = 255: c8 = cs, so cc' = cc.   * mc = 255: cc' = c8 = round(cs*255/ms) = cc.   -> exact (bound 0).
      * otherwise |c8*mc/255 - cs*mc/ms| = |c8 - cs*255/ms| * mc/255 <= 0.5 * mc/255 < 0.5, and two reals less
        than 0.5 apart round to integers at most 1 apart: one least-significant step of the client channel,
        i.e. ceil(255/mc) on the 0..255 scale used by chan_err."""
    if all(m == 255 for m in (srv.rmax, srv.gmax, srv.bmax)) or all(m == 255 for m in (fmt.rmax, fmt.gmax, fmt.bmax)):
        return 0
    return max(-(-255 // m) for m in (fmt.rmax, fmt.gmax, fmt.bmax) if m)


def merge(dst, src):
    for k, v in src.items():
        if isinstance(v, dict):
            merge(dst.setdefault(k, {}), v)
        else:
            dst[k] = dst.get(k, 0) + v


def run(ctx):
    from .. import build as _b
    try:
        os.remove(os.path.join(_b.CACHE, "c01-hangs-%d" % os.getpid()))
    except OSError:
        pass
    h = ctx.harness("c01")
    # minilzo reads unaligned 32-bit words by design (UBSan "misaligned load" inside lzo1x_1_compress,
    # third-party code, harmless on x86): scripts that reach the Ultra encoder use a build without
    # the alignment check, everything else runs with the full sanitizer set
    h_noalign = ctx.harness("c01", extra=("-fno-sanitize=alignment",))
    d = ctx.driver("drv_c01")
    cases = []
    corpus = sorted(os.listdir(os.path.join(common.VERIF, "corpus", "C01"))) if os.path.isdir(os.path.join(common.VERIF, "corpus", "C01")) else []
    if ctx.replay:
        rec = json.load(open(ctx.replay))
        cases.append(("\n".join(rec.get("script", [])) + "\n", rec.get("meta", {"sb": 4})))
    else:
        for f in corpus:
            if f.endswith(".json"):
                rec = json.load(open(os.path.join(common.VERIF, "corpus", "C01", f)))
                # the witness of a known finding is replayed only once known_findings.json lists it for C01
                # (it prints the KNOWN-FINDING line); before that it would be an unexplained alarm
                kf = rec.get("known_finding")
                if kf and kf not in [k["id"] for k in ctx.known if k.get("status") == "known"]:
                    continue
                cases.append(("\n".join(rec["script"]) + "\n", rec["meta"]))
        n = 500 if ctx.tier == "quick" else 8000
        # every encoding x a spread of formats first (stratified), then free random scripts
        for e in LOSSLESS_ENCS:
            for sb in (1, 2, 4):
                cases.append(gen_script(ctx.rng, ctx.tier, {"enc": e, "sb": sb, "big": False}))
            cases.append(gen_script(ctx.rng, ctx.tier, {"enc": e, "big": True}))
        for sc in boundary_scripts(ctx.rng):
            cases.append(sc)
        for sc in tiny_scripts(ctx.rng):
            cases.append(sc)
        for sc in stream_scripts(ctx.rng):
            cases.append(sc)
        for sc in jpeg_scripts(ctx.rng):
            cases.append(sc)
        for sc in newfb_scripts(ctx.rng):
            cases.append(sc)
        for sc in lastrect_count_scripts(ctx.rng):
            cases.append(sc)
        nlossy = 20 if ctx.tier == "quick" else 300
        for k in range(nlossy):
            cases.append(gen_script(ctx.rng, ctx.tier, {"enc": "tight", "quality": k % 10, "sb": ctx.rng.choice([2, 4, 4]),
                                                         "fmt": ctx.rng.choice(["server", "rgb888le", "bgr888be", "rgb565le", "rgb555be"]),
                                                         "big": False}))
        for k in range(4 if ctx.tier == "quick" else 40):
            cases.append(gen_script(ctx.rng, ctx.tier, {"enc": "zywrle", "quality": ctx.rng.choice([None, 1, 4, 8]), "sb": ctx.rng.choice([2, 4]),
                                                         "fmt": ctx.rng.choice(["server", "rgb888le", "rgb565le", "rgb555le", "rgb888be"]),
                                                         "big": False}))
        while len(cases) < n:
            cases.append(gen_script(ctx.rng, ctx.tier))
    t0 = time.time()
    # in batches: once three runs have crashed / spun / blocked the search stops (each of them is a concrete
    # counterexample already; a change that makes the server spin must cost minutes, not hours)
    results, stopped = [], False
    jobs = [(h_noalign if uses_ultra(sc) else h, d, sc, meta, ctx.driver_ok, h_noalign) for sc, meta in cases]
    with ProcessPoolExecutor(max_workers=14) as ex:
        for b0 in range(0, len(jobs), 56):
            results += list(ex.map(process, jobs[b0:b0 + 56], chunksize=1))
            if sum(1 for r in results for f in r["fails"] if f["kind"] == "crash" and not f.get("finding")) >= 3:
                stopped = True
                break
    cases = cases[:len(results)]
    fails, stats, samples = [], {}, []
    dist = {"enc": {}, "fmt": {}, "server_bpp": {}, "geom": {"big": 0, "special": 0, "other": 0}}
    nrects = npix = lean_rects = model_rects = nontrivial = 0
    lossy_err = {}
    for (sc, meta), r in zip(cases, results):
        fails += r["fails"]
        merge(stats, r["stats"])
        nrects += r["nrects"]
        npix += r["npix"]
        lean_rects += r["lean_rects"]
        model_rects += r["model_rects"]
        nontrivial += r["nontrivial"]
        for k, v in r["lossy_err"].items():
            lossy_err[k] = max(lossy_err.get(k, 0), v)
        dist["fmt"][meta.get("fmt", "?")] = dist["fmt"].get(meta.get("fmt", "?"), 0) + 1
        dist["server_bpp"][str(meta.get("sb"))] = dist["server_bpp"].get(str(meta.get("sb")), 0) + 1
        g = "big" if meta.get("big") else "special" if (meta.get("W"), meta.get("H")) in SPECIAL_GEOMS else "other"
        dist["geom"][g] += 1
        if len(samples) < 3:
            samples.append({"script": sc.splitlines()[:40], "meta": meta})
    dist.update({"wire_rects_by_encoding": stats.get("enc", {}), "hextile_tile_flags": stats.get("hextile", {}),
                 "zrle_tile_modes": stats.get("zrle", {}), "tight_subencodings": stats.get("tight", {}), "notes": stats.get("notes", {}), "rects_predicted_by_model_per_encoder": stats.get("model", {}), "jpeg_flat_mcu_oracle": stats.get("jpeg", {}),
                 "pixels_decoded": npix, "rects_spec_decoded_in_lean": lean_rects,
                 "rects_predicted_by_model": model_rects, "lossy_max_channel_error": lossy_err,
                 "wall_correspondence_s": round(time.time() - t0, 1)})
    return {
        "evaluations": nrects, "distinct_nontrivial": nontrivial,
        "rule": "one evaluation = one pixel-data rectangle on the wire, decoded independently and compared with the pre-encode snapshot; non-trivial = rectangle whose snapshot has at least two different pixel values",
        "samples": samples, "distribution": dist, "failures": fails[:40],
        "partial": PARTIAL, "assumptions": ASSUMPTIONS, "trusted_extra": TRUSTED_EXTRA,
    }


PARTIAL = [
    "Tight without JPEG is modelled and proved per sub-rectangle (server_tight_subrect_decodes, tpixel_law_*), its splitting and solid-area search are proved sound for every choice (tight_plan_tiles, tight_plan_fills_are_solid); the faithful search model tightRect is compared with the wire on every run but not proved to be an instance of planPieces",
    "TightPng: PNG rectangles have no model (PNG codec trusted); its basic rectangles (8 bpp) are validated per run by the independent decoders only",
    "Ultra: container proved under LzoLaw (ultra_rect_decodes); the LZO codec itself is trusted (repository's minilzo decompressor in the harness)",
    "TightPng PNG rectangles: exact whenever the server's or the client's colour channels are 8 bits wide; for other combinations (e.g. 5-bit server channels, 7-bit client channels) the client-side rescaling of the 8-bit PNG samples is unspecified and double rounding may cost one least-significant step of the client channel (bound png_bound, measured maximum in the evidence)",
    "LOSSY CLAUSE IS VALIDATED, NOT PROVED.  Tight-JPEG: for arbitrary content the per-channel error is only measured (evidence: lossy_max_channel_error), it never fails the check.  What fails: JPEG data that does not decode / has the wrong size / is not baseline YCbCr, and — on MCU-aligned blocks that are one flat colour (deterministic `flat16` content at every quality level, incl. pure red/green/blue blocks for the channel order) — a per-channel error above the bound DERIVED from the DC quantisation steps found in the rectangle's own DQT segment (q/16 + rounding, through the YCbCr->RGB factors; vlib/props/c01.py jpeg_flat_bounds)",
    "ZYWRLE: per-run validation of the container and of every tile that is not wavelet-coded (exact); wavelet-coded raw tiles are only checked for well-formedness (no inverse transform, no error bound)",
    "the model abstracts zrlePaletteHelper's hash table to 'index of first occurrence in the palette list'",
    "translation to the client's pixel format (translate.c) is trusted here (subject of C10): the snapshot is produced by the harness's own call of cl->translateFn on the whole rectangle",
]
ASSUMPTIONS = [
    "zlib: a deflate stream flushed with Z_SYNC_FLUSH, fed chunk by chunk to a persistent inflate stream, yields exactly the input (ZLaw in Enc/Containers.lean); LZO1X, libjpeg, libpng likewise trusted",
    "pixels handed to the encoders fit their bytes (PixOK / CPixOK): for CPIXEL formats the byte that is not transmitted is zero in translated pixels; an untranslated 32-bpp framebuffer may carry garbage there, the run compares on the colour bits only",
    "little-endian host (the models read client-format buffers the way a little-endian uintN_t* does)",
    "Raw/RRE-fallback cannot send lines longer than UPDATE_BUF_SIZE bytes (the server closes the client): generators keep w*bytespp <= 32768; see docs/C01.md",
]
TRUSTED_EXTRA = [
    "independent Python decoder vlib/props/c01_dec.py (direct oracle), Python's zlib module, libjpeg and the repository's minilzo (LZO1X decompressor) as codecs in the harness",
    "cl->translateFn (C10's subject) for the reference snapshot",
]

META = {
    "technique": "Lean 4 theorems: decode(serverEncoderModel P) = P for faithful models of Raw(+updateBuf batching), RRE, CoRRE, Hextile(+updateBuf bound), ZRLE tiles, Tight without JPEG (palette analysis, solid/mono/indexed/full colour, Pack24, CompressData, compact length) (all P, geometries); the pieces of CoRRE/Zlib/Ultra/Tight splitting tile the rectangle (for Tight: for every outcome of the solid-area search), decode(encodeWith choices P) = P for choice-parametrised reference encoders, zlib container/sequence composition under an explicit zlib law; tied to the code on every run by byte-exact comparison of the models with the real encoders, by spec-decoding the real wire bytes in Lean, and by an independent Python decoder compared with the pre-encode snapshot",
    "level_text": "Proof: Enc/Spec.lean holds decoders written from the RFB rules; Enc/Server.lean + Enc/UpdateBuf.lean hold bug-for-bug models of rfbSendRectEncodingRaw, subrectEncode (rre.c/corre.c/hextile.c), the Hextile tile loop and ZRLE_ENCODE_TILE; Props/C01.lean proves that every model output decodes to exactly its input, that the byte stream is independent of where updateBuf flushes, and that rectangles/updates compose over a persistent zlib stream.  Tie: harness/c01.c runs the real encoders (3 server depths x 23 client formats x 10 encodings x levels, boundary geometries, >=3 updates per connection); models are compared byte for byte, the Lean spec decoder and an independent Python decoder must both reproduce the hook snapshot.",
    "level_note": "Trusted: Lean kernel (propext/Classical.choice/Quot.sound), T0 probes, harness/generator/Python decoder/compiled driver (testing; measured distribution in the evidence), zlib/LZO/libjpeg/libpng, cl->translateFn (C10).  No theorem for TightPng's PNG path, Tight-JPEG, ZYWRLE (per-run validation only; ZYWRLE wavelet tiles not inverse-transformed); zlib/LZO are parameters with explicit laws; CPIXEL rule of the code differs from the RFC for depth>24 (known finding cpixel-depth).",
    "design_ref": "DESIGN.md section 7, C01",
}
