"""C06 — input events reach the application exactly when permitted, unaltered, in order.

Proof: lean/VncModel/Props/C06.lean about the model lean/VncModel/Input/{Stream,Scale,Model}.lean.
Tie:   harness/c06.c runs the REAL rfbProcessClientMessage / rfbProcessEvents with kbdAddEvent /
       ptrAddEvent / setXCutText hooks that log; the client byte stream is delivered through
       interposed read/select in an exactly prescribed segmentation (virtual time, no sleeping).
       Driver/C06.lean predicts the same log from the same script (exact comparison), and the
       direct oracle below checks the property's words on the implementation's log alone.
T0:    tools/consts/c06.{c,py} -> Gen/C06.lean (message sizes, type numbers, field offsets, the
       literal 1 MiB cut-text limit).
"""
import glob, json, os
from .. import common

PROPS_MOD = "VncModel.Props.C06"
EXTRA_TARGETS = ["drv_c06"]
LIMIT = 1 << 20
M64 = (1 << 64) - 1
EXTCLIP = 0xC0A1E5CE


# ----------------------------------------------------------------------------- helpers
def fnv(bs):
    h = 1469598103934665603
    for b in bs:
        h = ((h ^ b) * 1099511628211) & M64
    return h


def sm_bytes(seed, n):
    st, out = seed & M64, bytearray()
    for _ in range(n):
        st = (st + 0x9E3779B97F4A7C15) & M64
        z = st
        z = ((z ^ (z >> 30)) * 0xBF58476D1CE4E5B9) & M64
        z = ((z ^ (z >> 27)) * 0x94D049BB133111EB) & M64
        out.append((z ^ (z >> 31)) & 0xFF)
    return bytes(out)


def be16(v):
    return bytes([(v >> 8) & 255, v & 255])


def be32(v):
    return bytes([(v >> 24) & 255, (v >> 16) & 255, (v >> 8) & 255, v & 255])


def hx(b):
    return b.hex() if b else "-"


# message builders: -> (bytes, annotation)
def m_key(down, ks, pad=0):
    return bytes([4, down]) + be16(pad) + be32(ks), ("key", down, ks)


def m_ptr(mask, x, y):
    return bytes([5, mask]) + be16(x) + be16(y), ("ptr", mask, x, y)


def m_cut(text, pad=b"\0\0\0"):
    return bytes([6]) + pad + be32(len(text)) + text, ("cut", len(text), fnv(text))


def m_fbur(incr, x, y, w, h):
    return bytes([3, incr]) + be16(x) + be16(y) + be16(w) + be16(h), ("benign", "fbur")


def m_setenc(encs):
    return bytes([2, 0]) + be16(len(encs)) + b"".join(be32(e & 0xFFFFFFFF) for e in encs), \
        ("benign", "setenc", EXTCLIP in [e & 0xFFFFFFFF for e in encs])


def m_spf(bpp=32, depth=24, be=0, tc=1, rmax=255, gmax=255, bmax=255, rs=16, gs=8, bs=0):
    b = bytes([0, 0, 0, 0, bpp, depth, be, tc]) + be16(rmax) + be16(gmax) + be16(bmax) + bytes([rs, gs, bs, 0, 0, 0])
    ok = bpp in (8, 16, 32) and (tc != 0 or bpp == 8)
    return b, (("benign", "spf") if ok else ("closing", "spf-bad"))


def m_scale(s, palm=False):
    return bytes([15 if palm else 8, s, 0, 0]), (("scale", s) if s else ("closing", "scale0"))


def m_textchat(length, text=b""):
    return bytes([11, 0, 0, 0]) + be32(length) + text, \
        (("benign", "textchat") if (length >= 0xFFFFFFFD or 0 < length < 4096) else ("closing", "textchat-bad"))


def m_misc(kind, rng):
    if kind == "setsw":
        return bytes([10, rng.randrange(256)]) + be16(rng.randrange(65536)) + be16(rng.randrange(65536)), ("benign", kind)
    if kind == "ssi":
        return bytes([9, rng.randrange(256), rng.randrange(256), rng.randrange(256)]), ("benign", kind)
    if kind == "xvp":
        return bytes([250, 0, rng.choice([0, 1, 2]), rng.randrange(5)]), ("benign", kind)
    if kind == "sds":
        n = rng.choice([0, 1, 2, 5])
        return bytes([251, 0]) + be16(rng.randrange(2000)) + be16(rng.randrange(2000)) + bytes([n, 0]) + \
            bytes(rng.randrange(256) for _ in range(16 * n)), ("benign", kind)
    if kind == "fcme":
        return bytes([1, 0]) + be16(rng.randrange(65536)) + be16(rng.randrange(65536)), ("closing", kind)
    if kind == "ft":
        return bytes([7]) + bytes(rng.randrange(256) for _ in range(11)), ("closing", kind)
    if kind == "unknown":
        t = rng.choice([12, 13, 14, 16, 100, 200, 249, 252, 254, 255])
        return bytes([t]), ("closing", kind)
    raise ValueError(kind)


KEYSYMS = [0, 1, 0x41, 0xFF, 0x100, 0xFFFF, 0x10000, 0xFFE1, 0x7FFFFFFF, 0x80000000, 0xFFFFFFFE, 0xFFFFFFFF]
COORDS = [0, 1, 2, 255, 256, 0x7FFF, 0x8000, 0xFFFE, 0xFFFF]


def rnd_key(rng):
    ks = rng.choice(KEYSYMS) if rng.random() < 0.5 else rng.getrandbits(32)
    down = rng.choice([0, 1, 1, 0, 2, 0x80, 0xFF]) if rng.random() < 0.3 else rng.randint(0, 1)
    return m_key(down, ks, pad=rng.choice([0, 0, 0xFFFF, rng.getrandbits(16)]))


def rnd_ptr(rng, w, h, mask=None):
    def co(lim):
        r = rng.random()
        if r < 0.35:
            return rng.choice(COORDS)
        if r < 0.8:
            return rng.randrange(0, max(1, lim))
        return rng.getrandbits(16)
    if mask is None:
        mask = rng.choice([0, 0, 1, 2, 4, 8, 16, 0x80, 0xFF, rng.randrange(256)])
    return m_ptr(mask, co(w), co(h))


def rnd_cut(rng):
    n = rng.choice([0, 1, 2, 3, 7, 16, 100, rng.randrange(0, 600)])
    return m_cut(bytes(rng.randrange(256) for _ in range(n)),
                 pad=bytes(rng.randrange(256) for _ in range(3)) if rng.random() < 0.3 else b"\0\0\0")


def rnd_benign(rng, w, h, allow_ext):
    k = rng.choice(["fbur", "fbur", "setenc", "setenc", "spf", "setsw", "ssi", "xvp", "sds", "textchat"])
    if k == "fbur":
        return m_fbur(rng.randint(0, 1), rng.randrange(0, w + 3), rng.randrange(0, h + 3), rng.randrange(0, w + 5), rng.randrange(0, h + 5))
    if k == "setenc":
        pool = [0, 1, 2, 4, 5, -239, -223, -224, -232, -247, -256, -32, 0x574D5664, -308, -260, 0x7FFFFFFF]  # no zlib/tight/zrle/ultra: their encoders belong to other properties
        n = rng.choice([0, 1, 3, 8, 20])
        encs = [rng.choice(pool) for _ in range(n)]
        if allow_ext and rng.random() < 0.5:
            encs.insert(rng.randrange(len(encs) + 1), EXTCLIP)
        return m_setenc(encs)
    if k == "spf":
        return rng.choice([m_spf(), m_spf(16, 16, 0, 1, 31, 63, 31, 11, 5, 0), m_spf(8, 8, 0, 1, 7, 7, 3, 0, 3, 6),
                           m_spf(8, 8, 0, 0, 7, 7, 3, 0, 3, 6), m_spf(32, 24, 1, 1, 255, 255, 255, 0, 8, 16)])
    if k == "textchat":
        r = rng.random()
        if r < 0.4:
            return m_textchat(rng.choice([0xFFFFFFFF, 0xFFFFFFFE, 0xFFFFFFFD]))
        n = rng.choice([1, 2, 50, 4095])
        return m_textchat(n, bytes(rng.randrange(256) for _ in range(n)))
    return m_misc(k, rng)


def rnd_closing(rng):
    k = rng.choice(["fcme", "ft", "unknown", "scale0", "spf-bad", "textchat-bad", "cut-big"])
    if k == "scale0":
        return m_scale(0, rng.random() < 0.3)
    if k == "spf-bad":
        return rng.choice([m_spf(12), m_spf(0), m_spf(16, 16, 0, 0), m_spf(255)])
    if k == "textchat-bad":
        n = rng.choice([0, 4096, 4097, 4117, 0x7FFFFFFF, 0xFFFFFFFC])
        b, a = m_textchat(n)
        if n and rng.random() < 0.7:
            b += bytes(rng.randrange(256) for _ in range(4095))     # a clamping server would eat exactly this
        return b, a
    if k == "cut-big":
        n = rng.choice([LIMIT + 1, LIMIT + 2, 0x7FFFFFFF, 0x80000000, 0xFFFFFFFF, 0xFFF00000])
        return bytes([6, 0, 0, 0]) + be32(n), ("closing", "cut-big")
    return m_misc(k, rng)


def rnd_cuts(rng, n):
    r = rng.random()
    if r < 0.25 or n == 0:
        return []
    if r < 0.35:
        return list(range(1, n))          # byte by byte
    k = rng.choice([1, 1, 2, 2, 3, 5])
    return sorted(rng.randint(0, n) for _ in range(k))


class Script:
    def __init__(self, family):
        self.lines, self.ann, self.family = [], [], family

    def op(self, line, ann=None):
        self.lines.append(line)
        self.ann.append(ann)

    def send(self, c, msgs, cuts=None, wf=True, one=False, opts=""):
        data = b"".join(m[0] for m in msgs)
        line = "send %d %s" % (c, hx(data))
        if cuts:
            line += " cuts=" + ",".join(str(x) for x in cuts)
        if one:
            line += " one=1"
        if opts:
            line += " " + opts            # WebSocket framing options (frag=1, ctl=pingN|pongN): ignored by TCP clients and by the model
        self.op(line, {"c": c, "wf": wf, "msgs": [list(m[1]) for m in msgs], "n": len(data)})

    def text(self):
        return "\n".join(self.lines) + "\n"


VERSIONS = {3: b"RFB 003.003\n", 7: b"RFB 003.007\n", 8: b"RFB 003.008\n", 889: b"RFB 003.889\n", 5: b"RFB 003.005\n"}


def handshake(sc, rng, c, pw, kind="full", minor=None, split=None, ws=False):
    """well-formed handshake of client c; kind: full|view (password screens); ws: WebSocket transport"""
    minor = minor if minor is not None else rng.choice([3, 7, 8, 8, 8, 889, 5])
    split = rng.random() < 0.5 if split is None else split
    sc.op("conn %d%s" % (c, " ws" if ws else ""), {"conn": c, "ws": ws})
    hs = {"hs": c}
    v = VERSIONS[minor]
    if not pw:
        steps = [v] + ([] if minor < 7 else [b"\x01"]) + ([] if minor == 889 else [bytes([rng.choice([0, 1, 1, 7])])])
        if split:
            for k, s in enumerate(steps):
                sc.op("send %d %s%s" % (c, hx(s), cutstr(rnd_cuts(rng, len(s)))), dict(hs, last=(k == len(steps) - 1)))
        else:
            d = b"".join(steps)
            sc.op("send %d %s%s" % (c, hx(d), cutstr(rnd_cuts(rng, len(d)))), dict(hs, last=True))
    else:
        d = v + (b"" if minor < 7 else b"\x02")
        sc.op("send %d %s%s" % (c, hx(d), cutstr(rnd_cuts(rng, len(d)))), hs)
        sc.op("auth %d %s%s" % (c, kind, cutstr(rnd_cuts(rng, 16))), {"auth": c, "kind": kind})
        sc.op("send %d %s" % (c, hx(bytes([rng.choice([0, 1])]))), dict(hs, last=True))


def cutstr(cuts):
    return (" cuts=" + ",".join(str(x) for x in cuts)) if cuts else ""


# ----------------------------------------------------------------------------- generators
def gen_mix(rng, nops):
    """random multi-client sessions"""
    sc = Script("mix")
    w, h = rng.choice([(40, 30), (64, 48), (17, 9), (100, 100), (1, 1), (255, 3), (49, 98), (300, 200)])
    pw, utf8 = int(rng.random() < 0.3), int(rng.random() < 0.4)
    sc.op("screen %d %d %d %d 0" % (w, h, pw, utf8), {"screen": (w, h, pw, utf8, 0)})
    ncl = rng.choice([1, 1, 2, 2, 3])
    live = []
    for c in range(1, ncl + 1):
        handshake(sc, rng, c, pw, kind=rng.choice(["full", "full", "view"]), ws=rng.random() < 0.35)
        live.append(c)
        if rng.random() < 0.2:
            sc.op("viewonly %d 1" % c, {"viewonly": (c, 1)})
    nxt = ncl + 1
    for _ in range(nops):
        if not live:
            break
        r = rng.random()
        c = rng.choice(live)
        if r < 0.62:
            k = rng.choice([1, 1, 1, 2, 3, 6])
            msgs = []
            for _ in range(k):
                q = rng.random()
                if q < 0.25:
                    msgs.append(rnd_key(rng))
                elif q < 0.6:
                    msgs.append(rnd_ptr(rng, w, h))
                elif q < 0.72:
                    msgs.append(rnd_cut(rng))
                elif q < 0.80:
                    s = rng.choice([1, 2, 2, 3, 4, 7]) if rng.random() < 0.8 else rng.randrange(1, 256)
                    msgs.append(m_scale(s, rng.random() < 0.25))
                elif q < 0.97:
                    msgs.append(rnd_benign(rng, w, h, utf8))
                else:
                    msgs.append(rnd_closing(rng))
            n = sum(len(m[0]) for m in msgs)
            sc.send(c, msgs, rnd_cuts(rng, n), one=rng.random() < 0.2,
                    opts=rng.choice(["", "", "frag=1", "frag=1 ctl=ping0", "frag=1 ctl=pong4", "frag=1 ctl=ping8"]))
            if any(m[1][0] == "closing" for m in msgs):
                live.remove(c)
        elif r < 0.70:
            # contention: press by a, move by b, release by a, move by b
            a = c
            others = [x for x in live if x != a]
            sc.send(a, [rnd_ptr(rng, w, h, mask=rng.choice([1, 2, 4, 0x80]))], rnd_cuts(rng, 6))
            if others:
                b = rng.choice(others)
                sc.send(b, [rnd_ptr(rng, w, h, mask=rng.choice([0, 1]))], rnd_cuts(rng, 6))
            sc.send(a, [rnd_ptr(rng, w, h, mask=0)], rnd_cuts(rng, 6))
            if others:
                sc.send(b, [rnd_ptr(rng, w, h)], rnd_cuts(rng, 6))
        elif r < 0.76:
            v = rng.randint(0, 1)
            sc.op("viewonly %d %d" % (c, v), {"viewonly": (c, v)})
        elif r < 0.84:
            sc.op("pump", {"pump": 1})
        elif r < 0.87:
            sc.op("eof %d" % c, {"eof": c})
            live.remove(c)
        elif r < 0.90:
            # truncated message: times out, closes this connection only
            m = rng.choice([rnd_key(rng), rnd_ptr(rng, w, h), rnd_cut(rng), m_fbur(0, 0, 0, 1, 1)])[0]
            cutp = rng.randrange(1, len(m))
            pre = [rnd_key(rng)] if rng.random() < 0.5 else []
            data = b"".join(x[0] for x in pre) + m[:cutp]
            sc.op("send %d %s%s" % (c, hx(data), cutstr(rnd_cuts(rng, len(data)))),
                  {"c": c, "wf": False, "n": len(data)})
            live.remove(c)
        elif r < 0.95 and nxt < 8:
            handshake(sc, rng, nxt, pw, kind=rng.choice(["full", "view"]), ws=rng.random() < 0.35)
            live.append(nxt)
            nxt += 1
        elif utf8:
            # extended clipboard messages that need no zlib (Caps / Request / Peek / short / no action)
            sc.send(c, [m_setenc([0, EXTCLIP])])
            for _ in range(rng.randint(1, 3)):
                kind = rng.choice(["caps", "caps", "request", "peek", "none", "short", "caps-bad", "classic"])
                if kind == "classic":
                    sc.send(c, [rnd_cut(rng), rnd_key(rng)], rnd_cuts(rng, 10))
                    continue
                if kind == "caps":
                    fl = rng.choice([1, 1, 3, 0x1F, 2, 0]) | (1 << 24) | rng.choice([0, 0x0E000000, 0x1E000000])
                    nf = bin(fl & 0xFFFF).count("1")
                    body = be32(fl) + b"".join(be32(rng.getrandbits(32)) for _ in range(nf))
                elif kind == "caps-bad":
                    fl = 3 | (1 << 24)
                    body = be32(fl) + be32(100)
                elif kind == "request":
                    body = be32((1 << 25) | 1)
                elif kind == "peek":
                    body = be32(1 << 26)
                elif kind == "none":
                    body = be32(rng.choice([0, 1, 1 << 27])) + bytes(rng.randrange(256) for _ in range(rng.randint(0, 9)))
                else:
                    body = bytes(rng.randrange(256) for _ in range(rng.randint(0, 3)))
                data = bytes([6, 0, 0, 0]) + be32((-len(body)) & 0xFFFFFFFF) + body + rnd_key(rng)[0]
                sc.op("send %d %s%s" % (c, hx(data), cutstr(rnd_cuts(rng, len(data)))), {"c": c, "wf": False, "n": len(data), "ext": kind})
                if kind in ("short", "caps-bad"):
                    if c in live:
                        live.remove(c)
                    break
    sc.op("pump", {"pump": 1})
    sc.op("pump", {"pump": 1})
    return sc


def gen_gate(rng):
    """input messages at every handshake state; view-only by password position and by application"""
    sc = Script("gate")
    w, h = rng.choice([(40, 30), (64, 48)])
    pw = rng.randint(0, 1)
    sc.op("screen %d %d %d %d 0" % (w, h, pw, rng.randint(0, 1)), {"screen": (w, h, pw, 0, 0)})
    c = 1
    inputs = lambda: rng.choice([rnd_key(rng), rnd_ptr(rng, w, h), rnd_cut(rng)])[0]
    for stage in rng.sample(["pv", "sec", "auth", "init", "normal-vo", "normal"], 6):
        minor = rng.choice([7, 8, 3])
        sc.op("conn %d" % c, {"conn": c})
        early = {"c": c, "wf": False, "early": stage}
        steps = [("pv", VERSIONS[minor])]
        if minor >= 7:
            steps.append(("sec", bytes([2 if pw else 1])))
        if pw:
            steps.append(("auth", None))
        steps.append(("init", b"\x01"))
        done = False
        for (st, data) in steps:
            if st == stage:
                d = inputs() + (inputs() if rng.random() < 0.5 else b"")
                if st == "pv" and len(d) < 12:
                    d = d + inputs() + inputs()
                sc.op("send %d %s%s" % (c, hx(d), cutstr(rnd_cuts(rng, len(d)))), dict(early, n=len(d)))
                done = True
                break
            if st == "auth":
                kind = "view" if stage == "normal-vo" and rng.random() < 0.7 else ("bad" if rng.random() < 0.1 else "full")
                sc.op("auth %d %s" % (c, kind), {"auth": c, "kind": kind})
                if kind == "bad":
                    done = True
                    break
            else:
                sc.op("send %d %s" % (c, hx(data)), {"hs": c})
        if not done:
            if stage == "normal-vo":
                sc.op("viewonly %d 1" % c, {"viewonly": (c, 1)})
            msgs = [rnd_key(rng), rnd_ptr(rng, w, h), rnd_cut(rng), rnd_ptr(rng, w, h, mask=0)]
            rng.shuffle(msgs)
            sc.send(c, msgs, rnd_cuts(rng, sum(len(m[0]) for m in msgs)))
        c += 1
    sc.op("pump", {"pump": 1})
    return sc


def all_cuts(n, k):
    """every segmentation of n bytes with exactly k cuts (positions 0..n, non-decreasing)"""
    if k == 1:
        return [[a] for a in range(0, n + 1)]
    if k == 2:
        return [[a, b] for a in range(0, n + 1) for b in range(a, n + 1)]
    if k == 3:
        return [[a, b, c] for a in range(0, n + 1) for b in range(a, n + 1) for c in range(b, n + 1)]
    raise ValueError


def seg_messages(rng, w, h):
    return [
        ("key", [m_key(1, 0x41)]), ("key-max", [m_key(0, 0xFFFFFFFF, 0xFFFF)]),
        ("ptr", [m_ptr(1, 5, 7)]), ("ptr-max", [m_ptr(0xFF, 0xFFFF, 0xFFFF)]),
        ("cut0", [m_cut(b"")]), ("cut5", [m_cut(b"hello")]),
        ("fbur", [m_fbur(1, 0, 0, w, h)]), ("setenc3", [m_setenc([0, 1, 5])]), ("setenc0", [m_setenc([])]),
        ("spf", [m_spf()]), ("scale2", [m_scale(2)]), ("palm1", [m_scale(1, True)]),
        ("setsw", [m_misc("setsw", rng)]), ("ssi", [m_misc("ssi", rng)]), ("xvp", [m_misc("xvp", rng)]),
        ("sds", [m_misc("sds", rng)]), ("textchat-open", [m_textchat(0xFFFFFFFF)]),
        ("textchat5", [m_textchat(5, b"abcde")]),
        ("key+ptr", [m_key(1, 0x61), m_ptr(0, 1, 2)]), ("cut+key", [m_cut(b"xy"), m_key(0, 0x62)]),
        ("fbur+ptr", [m_fbur(0, 1, 1, 2, 2), m_ptr(2, 3, 4)]),
        ("setenc+key", [m_setenc([7, -239]), m_key(1, 0xFFE1)]),
    ]


def gen_seg(rng, which, kcuts, ws=False, sample=None):
    """every k-cut segmentation of one message (sequence); a sentinel key event follows each send so
    that a parser that lost sync mangles it.  ws: the client is a WebSocket client and every segment
    is its own frame (the cut is a FRAME boundary inside the message); additionally the whole op in
    one frame, and all frames in one TCP segment"""
    sc = Script("seg-ws" if ws else "seg")
    w, h = 40, 30
    sc.op("screen %d %d 0 0 0" % (w, h), {"screen": (w, h, 0, 0, 0)})
    handshake(sc, rng, 1, 0, minor=8, split=False, ws=ws)
    name, msgs = which
    n = sum(len(m[0]) for m in msgs)
    cl = all_cuts(n, kcuts)
    if sample is not None and len(cl) > sample:
        cl = rng.sample(cl, sample)
    for cuts in cl:
        sc.send(1, msgs + [m_key(1, 0x53454E54)], cuts)
    if ws and kcuts == 1:
        # the same cuts as FRAGMENTS of one WebSocket message (FIN only on the last frame), bare and
        # with a ping / pong control frame between the fragments (with and without payload)
        ctls = ["", "ctl=ping0", "ctl=pong0", "ctl=ping4", "ctl=pong8"]
        for k, cuts in enumerate(cl):
            sc.send(1, msgs + [m_key(1, 0x53454E54)], cuts, opts=("frag=1 " + ctls[k % len(ctls)]).strip())
        sc.send(1, msgs + [m_key(1, 0x53454E54)], [1, n // 2 + 1, n + 2], opts="frag=1 ctl=ping4", one=True)
    if ws:
        sc.send(1, msgs + [m_key(1, 0x53454E54)] + msgs)                    # several messages in one frame
        sc.send(1, msgs + [m_key(1, 0x53454E54)], [n // 2, n + 3], one=True)  # several frames in one segment
    return sc


PROVIDE = 1 << 28


def m_provide(formats, corrupt=None):
    """extended-clipboard Provide. formats: dict bit -> bytes (bit 0 = text).  corrupt: None |
    'short' (last record truncated) | 'big' (last record announces > 1 MiB) -> (flags, plain, ann)"""
    flags = PROVIDE
    plain = b""
    bits = sorted(formats)
    for k, b in enumerate(bits):
        flags |= 1 << b
        d = formats[b]
        if corrupt and k == len(bits) - 1:
            if corrupt == "short":
                plain += be32(len(d) + 5) + d
            else:
                plain += be32(LIMIT + 1 + len(d)) + d
        else:
            plain += be32(len(d)) + d
    text = formats.get(0)
    text_ok = text is not None and not (corrupt and bits[-1] == 0)
    ann = ["prov", len(text) if text_ok else None, fnv(text) if text_ok else None, corrupt is None]
    return flags, plain, ann


def op_provide(sc, c, formats, rng, corrupt=None):
    flags, plain, ann = m_provide(formats, corrupt)
    cuts = sorted(rng.randint(0, 40) for _ in range(rng.choice([0, 1, 3])))
    sc.op("sendprov %d %s %s%s" % (c, hx(be32(flags)), hx(plain), cutstr(cuts)),
          {"c": c, "wf": True, "msgs": [ann], "n": len(plain)})


def gen_ext(rng):
    """extended clipboard: Provide with several formats of different lengths, Caps / Request / Peek /
    Notify in between, a view-only client, a WebSocket client; sentinel key events keep sync visible"""
    sc = Script("ext")
    w, h = 40, 30
    sc.op("screen %d %d 0 1 0" % (w, h), {"screen": (w, h, 0, 1, 0)})
    handshake(sc, rng, 1, 0, minor=8, split=False)
    handshake(sc, rng, 2, 0, minor=8, split=False, ws=True)
    handshake(sc, rng, 3, 0, minor=8, split=False)
    sc.op("viewonly 3 1", {"viewonly": (3, 1)})
    rb = lambda n: bytes(rng.randrange(256) for _ in range(n))
    for c in (1, 2, 3):
        sc.send(c, [m_setenc([0, EXTCLIP])])
    cases = [
        {0: b"hello"},
        {0: b"hello", 1: b"AB", 2: b"xyz-html"},                 # text longer than the last format
        {0: b"hi", 1: rb(40), 2: rb(7)},                          # text shorter than the others
        {0: rb(rng.randint(1, 300)), 2: rb(rng.randint(1, 300))},
        {1: b"rtf only", 2: b"<b>x</b>"},                         # no text: no callback
        {0: rb(3000), 1: rb(1), 3: rb(5000), 4: rb(2)},
        {0: b"x"},
        {0: rb(rng.randint(1, 64)), 1: rb(rng.randint(1, 64)), 2: rb(rng.randint(1, 64))},
    ]
    rng.shuffle(cases)
    for k, f in enumerate(cases):
        c = (1, 2, 3)[k % 3] if k >= 3 else 1 + (k % 2)
        op_provide(sc, c, f, rng)
        sc.send(c, [m_key(1, 0x50524F56)], rnd_cuts(rng, 8))
        # the other actions of the extension carry no clipboard text
        kind = ["caps", "request", "peek", "notify"][k % 4]       # every action in every run
        fl = {"caps": (1 << 24) | 1 | rng.choice([0, 0x1E000000]), "request": (1 << 25) | 1, "peek": 1 << 26, "notify": (1 << 27) | 1}[kind]
        body = be32(fl) + (be32(rng.getrandbits(20)) if kind == "caps" else b"")
        data = bytes([6, 0, 0, 0]) + be32((-len(body)) & 0xFFFFFFFF) + body
        sc.op("send %d %s%s" % (c, hx(data), cutstr(rnd_cuts(rng, len(data)))), {"c": c, "wf": True, "msgs": [["benign", "ext-" + kind]], "n": len(data)})
        sc.send(c, [rnd_cut(rng), m_key(0, 0x50524F56)])
    # corrupt provides: the client is closed, nothing but (possibly) its own text was delivered
    op_provide(sc, 1, {0: b"text first", 1: b"then a short record"}, rng, corrupt="short")
    op_provide(sc, 2, {0: b"abc", 2: b"big"}, rng, corrupt="big")
    sc.send(3, [m_key(1, 0x41)])
    sc.op("pump", {"pump": 1})
    return sc


def gen_chat(rng):
    """UltraVNC TextChat at the boundary lengths, each followed IN THE SAME STREAM by bytes that look
    like key / pointer events: a valid chat line is skipped exactly, an over-long or empty one closes
    the connection and nothing after it may be delivered"""
    sc = Script("chat")
    w, h = 40, 30
    sc.op("screen %d %d 0 0 0" % (w, h), {"screen": (w, h, 0, 0, 0)})
    c = 1
    keyish = (m_key(1, 0x61)[0] + m_ptr(1, 3, 4)[0])
    lens = [0, 1, 2, 4094, 4095, 4096, 4097, 4117, 8192, 65536, 0x7FFFFFFF, 0x80000000, 0xFFFFFFFC,
            0xFFFFFFFD, 0xFFFFFFFE, 0xFFFFFFFF]
    for n in lens:
        handshake(sc, rng, c, 0, minor=8, split=False, ws=(c % 5 == 0))
        special = n >= 0xFFFFFFFD
        valid = 0 < n < 4096
        tail = [m_key(1, 0x43484154), m_ptr(2, 5, 6), m_key(0, 0x43484154)]
        if special:
            first = (bytes([11, 0, 0, 0]) + be32(n), ("benign", "textchat"))
        elif valid:
            body = (keyish * (n // len(keyish) + 1))[:n]           # chat text that looks like input
            first = (bytes([11, 0, 0, 0]) + be32(n) + body, ("benign", "textchat"))
        else:
            # what follows the header: 4095 filler bytes, then well-aligned "input"
            fill = (keyish * 400)[:4095] if n else b""
            first = (bytes([11, 0, 0, 0]) + be32(n) + fill, ("closing", "textchat-bad"))
        msgs = [first] + tail
        tot = sum(len(m[0]) for m in msgs)
        sc.send(c, msgs, sorted(rng.randint(0, tot) for _ in range(rng.choice([0, 1, 2]))))
        if valid or special:
            sc.send(c, [m_key(1, 0x4F4B)])
        c += 1
        if c > 15:
            break
    sc.op("pump", {"pump": 1})
    return sc


def gen_login(rng):
    """both view-only mechanisms on password screens: flag set by the application before the login
    (newClientHook, or directly) x position of the password used.  View-only is only ever raised."""
    sc = Script("login")
    w, h = 40, 30
    sc.op("screen %d %d 1 %d 0" % (w, h, rng.randint(0, 1)), {"screen": (w, h, 1, 0, 0)})
    c = 1
    combos = [(hook, pre, kind) for hook in (0, 1) for pre in (0, 1) for kind in ("full", "view")]
    rng.shuffle(combos)
    for (hook, pre, kind) in combos:
        sc.op("hookvo %d" % hook, {"hookvo": hook})
        minor = rng.choice([3, 7, 8])
        sc.op("conn %d" % c, {"conn": c})
        if pre:
            sc.op("viewonly %d 1" % c, {"viewonly": (c, 1)})
        d = VERSIONS[minor] + (b"" if minor < 7 else b"\x02")
        sc.op("send %d %s%s" % (c, hx(d), cutstr(rnd_cuts(rng, len(d)))), {"hs": c})
        sc.op("auth %d %s%s" % (c, kind, cutstr(rnd_cuts(rng, 16))), {"auth": c, "kind": kind})
        sc.op("send %d %s" % (c, hx(bytes([rng.choice([0, 1])]))), {"hs": c})
        msgs = [rnd_key(rng), rnd_ptr(rng, w, h, mask=0), rnd_cut(rng), m_key(1, 0x4C4F47)]
        sc.send(c, msgs, rnd_cuts(rng, sum(len(m[0]) for m in msgs)))
        c += 1
    sc.op("hookvo 0", {"hookvo": 0})
    sc.op("pump", {"pump": 1})
    return sc


def gen_limit(rng, lens, nclients=2, ext=False, ws=False):
    """classic ClientCutText around the 1 MiB limit, other clients must be unaffected"""
    sc = Script("limit")
    w, h = 40, 30
    sc.op("screen %d %d 0 %d 0" % (w, h, 1 if ext else 0), {"screen": (w, h, 0, 1 if ext else 0, 0)})
    c = 1
    for n in lens:
        handshake(sc, rng, c, 0, minor=8, split=False, ws=ws)
        handshake(sc, rng, c + 1, 0, minor=8, split=False)
        if ext:
            sc.send(c, [m_setenc([EXTCLIP])])
        seed = rng.getrandbits(32)
        real = n if n <= LIMIT else 0
        tail = m_key(1, 0x4C494D)       # follows the cut text in the same stream
        hdr = bytes([6, 0, 0, 0]) + be32(n)
        # the text itself is generated on both sides (sendgen): header, n pseudo-random bytes
        total = len(hdr) + real
        cuts = sorted(rng.randint(0, total) for _ in range(rng.choice([0, 1, 2, 4])))
        line = "sendgen %d %s %d %d%s" % (c, hx(hdr), real, seed, cutstr(cuts))
        txt = sm_bytes(seed, real)
        if n <= LIMIT:
            ann = {"c": c, "wf": True, "msgs": [["cut", n, fnv(txt)]], "n": total}
        else:
            ann = {"c": c, "wf": True, "msgs": [["closing", "cut-big"]], "n": total}
        sc.op(line, ann)
        if n <= LIMIT:
            sc.send(c, [tail])
        sc.send(c + 1, [m_key(0, 0x4F54)])      # the other client is alive and served
        c += 2
    sc.op("pump", {"pump": 1})
    return sc


def gen_scale(rng, pairs):
    sc = Script("scale")
    sc.op("screen 8 8 0 0 0", {"screen": (8, 8, 0, 0, 0)})
    for (f, t) in pairs:
        sc.op("scale%s %d %d 0 65536" % (rng.choice("xy"), f, t), {"scale_fn": (f, t)})
    return sc


def gen_defer(rng, nops, scaled=False):
    """pointer coalescing on (deferPtrUpdateTime > 0), virtual clock.  scaled: the first client is on
    a scale factor > 1 from the start (coalesced positions must be mapped back too) and changes it
    once mid-way"""
    sc = Script("defer-scaled" if scaled else "defer")
    w, h = rng.choice([(64, 48), (100, 60)]) if scaled else (64, 48)
    defer = rng.choice([5, 20, 50])
    sc.op("screen %d %d 0 0 %d" % (w, h, defer), {"screen": (w, h, 0, 0, defer)})
    ncl = rng.choice([1, 1, 2])
    for c in range(1, ncl + 1):
        handshake(sc, rng, c, 0, minor=8, split=False, ws=rng.random() < 0.2)
    if scaled:
        sc.send(1, [m_scale(rng.choice([2, 3, 4]), rng.random() < 0.3)])
    for k in range(nops):
        r = rng.random()
        c = rng.randint(1, ncl)
        if scaled and k == nops // 2:
            sc.send(1, [m_scale(rng.choice([1, 2, 3, 5]))])
        if r < 0.55:
            msgs = [rnd_ptr(rng, w, h, mask=rng.choice([0, 0, 0, 1, 1, 3])) for _ in range(rng.choice([1, 1, 2, 4]))]
            sc.send(c, msgs, rnd_cuts(rng, 6 * len(msgs)))
        elif r < 0.62:
            sc.send(c, [rnd_key(rng)])
        elif r < 0.8:
            sc.op("tick %d" % rng.choice([0, 1, defer - 1, defer, defer + 1, 2 * defer, 1000, 999]), {"tick": 1})
        else:
            sc.op("pump", {"pump": 1})
    for _ in range(2):
        sc.op("tick %d" % (10 * defer + 1000), {"tick": 1})
        sc.op("pump", {"pump": 1})
        sc.op("pump", {"pump": 1})
    return sc


# ----------------------------------------------------------------------------- direct oracle
CB = ("kbd ", "ptr ", "cut ", "cutu8 ")


def blocks(lines):
    """split an observation stream into one block per op: (callbacks, closed, final line)"""
    out, cbs, closed = [], [], []
    for l in lines:
        if l.startswith(CB):
            cbs.append(l)
        elif l.startswith("closed "):
            closed.append(l)
        else:
            out.append((cbs, closed, l))
            cbs, closed = [], []
    return out, (cbs or closed)


def parse_state(line):
    d = {}
    for t in line.split()[1:]:
        p = t.split(":")
        d[int(p[0][1:])] = p[1:]
    return d


def oracle(lines, anns, impl):
    """The property's words, checked on the implementation's log alone.  Returns None or a message.
    State (handshake finished / closed / gone) is read from the implementation's own status lines;
    view-only status and pointer-button ownership are derived from the script."""
    bl, dangling = blocks(impl)
    if dangling or len(bl) != len(lines):
        return "observation blocks %d != ops %d" % (len(bl), len(lines))
    W = H = 0
    defer = 0
    st = {}                     # last status line
    vo = {}                     # script-derived view-only flag
    scale = {}                  # client -> scale factor in force (None = unscaled)
    phys = {}                   # last button mask each client sent
    holder = None               # client whose button press the server has accepted
    lastpos = {}                # defer>0: last position each client sent / last delivered
    sent, sent_ok, delivered = {}, {}, {}   # defer>0: pointer events accepted from / delivered for each client
    hook_vo = False             # newClientHook currently makes new clients view-only
    dirty = set()               # clients that were fed bytes the generator did not structure (their
                                # scale factor / button state is unknown to this oracle)
    for idx, (line, ann, (cbs, closed, fin)) in enumerate(zip(lines, anns, bl)):
        ann = ann or {}
        where = "op %d `%s`: " % (idx, line[:60])
        if "screen" in ann:
            W, H, _, _, defer = ann["screen"]
            if cbs:
                return where + "callbacks without any client"
            continue
        if fin == "bad-op":
            a0 = ann.get("c", ann.get("hs", ann.get("auth", ann.get("eof"))))
            if "viewonly" in ann:
                a0 = ann["viewonly"][0]
            if a0 is not None and (st.get(a0, ["gone"]) == ["gone"] or st[a0][1] != "open" or "auth" in ann):
                continue            # the generator addressed a client the server had already closed
            return where + "harness rejected a generated op"
        if "scale_fn" in ann:
            continue
        pre = st
        cur = parse_state(fin) if fin.startswith("=") else pre
        # callbacks may only come from the client whose bytes are being processed
        actor = ann.get("c", ann.get("hs", ann.get("auth")))
        for l in cbs:
            who = int(l.split()[1][1:])
            if actor is not None and who != actor:
                return where + "callback for c%d while processing input of c%d: %s" % (who, actor, l)
            if l.startswith("cutu8") and not any(m and m[0] == "prov" for m in ann.get("msgs", [])):
                return where + "unexpected UTF-8 clipboard callback: " + l
        for l in cbs:
            if l.startswith("ptr "):
                p = l.split()
                delivered.setdefault(int(p[1][1:]), []).append((int(p[2]), int(p[3]), int(p[4])))
        if "hookvo" in ann:
            hook_vo = bool(ann["hookvo"])
        if "conn" in ann and hook_vo:
            vo[ann["conn"]] = True        # the application's newClientHook made it view-only
        if ("pump" in ann or "tick" in ann or "viewonly" in ann or "eof" in ann or "conn" in ann or "hookvo" in ann) and defer == 0 and cbs:
            return where + "callback without client input: " + cbs[0]
        # isolation: an op on client c never changes another client's status (except reaping by pump)
        if actor is not None:
            for j, v in pre.items():
                if j != actor and cur.get(j) != v:
                    return where + "status of bystander c%d changed %r -> %r" % (j, v, cur.get(j))
        if "hs" in ann and fin.startswith("="):
            # well-formed handshake bytes of a client that was connected: it must still be connected
            v = cur.get(ann["hs"])
            if pre.get(ann["hs"], ["", ""])[1:2] == ["open"] and (not v or v[1:2] != ["open"]):
                return where + "connection closed during a well-formed handshake"
            if ann.get("last") and (not v or v[0] != "normal"):
                return where + "well-formed handshake did not reach RFB_NORMAL (state %r)" % (v,)
        if "viewonly" in ann:
            vo[ann["viewonly"][0]] = bool(ann["viewonly"][1])
        if "auth" in ann and ann["kind"] == "view":
            vo[ann["auth"]] = True
        if "auth" in ann:
            if ann["kind"] == "bad" and cur.get(ann["auth"], ["", "closed"])[1] != "closed":
                return where + "wrong password response did not close the connection"
            if ann["kind"] != "bad" and cur.get(ann["auth"], [""])[0] != "init":
                return where + "correct password response not accepted"
        if "pump" in ann:
            for j, v in cur.items():
                if v == ["gone"] and holder == j:
                    holder = None
        if "c" in ann:
            c = ann["c"]
            was = pre.get(c)
            now = cur.get(c)
            permitted_before = bool(was) and was[0] == "normal" and was[1] == "open"
            # gating: never any callback from a client that has not finished the handshake or is view-only
            if now and now[0] != "normal" and cbs:
                return where + "callback from a client still in the handshake: " + cbs[0]
            if vo.get(c) and cbs:
                return where + "callback from a view-only client: " + cbs[0]
            if not ann.get("wf"):
                dirty.add(c)
            ptr_uncertain = any(cur.get(d2, ["gone"]) != ["gone"] or pre.get(d2, ["gone"]) != ["gone"] for d2 in dirty)
            if ann.get("wf") and permitted_before:
                exp = []            # (line or (prefix, x, y, tol), optional)
                alive = True
                simple = c not in dirty
                for m in ann["msgs"]:
                    if not alive:
                        break
                    k = m[0]
                    if k == "key":
                        if not vo.get(c):
                            exp.append(("kbd c%d %d %d" % (c, m[1], m[2]), False))
                    elif k == "cut":
                        if not vo.get(c):
                            exp.append(("cut c%d %d %016x" % (c, m[1], m[2]), False))
                    elif k == "ptr":
                        mask, x, y = m[1], m[2], m[3]
                        if vo.get(c):
                            # a view-only client never holds the pointer (its events do not reach the
                            # application); if it held it before being made view-only it lets go
                            if holder == c:
                                holder = None
                            phys[c] = 0
                            continue
                        others_pressed = [d for d in phys if d != c and phys[d] and cur.get(d, ["gone"]) != ["gone"]]
                        blocked = holder is not None and holder != c
                        clear = blocked and not vo.get(holder) and pre.get(holder, ["", ""])[1:2] == ["open"]
                        if not blocked:
                            holder = c if mask else None
                        phys[c] = mask
                        s = scale.get(c)
                        if s:
                            fw, fh = W // s, H // s
                            e = ("ptr c%d %d" % (c, mask), x * W / fw, y * H / fh)
                        else:
                            e = "ptr c%d %d %d %d" % (c, mask, x, y)
                        if defer:
                            simple = False
                            if c in dirty:
                                sent_ok[c] = False
                            elif clear and not ptr_uncertain:
                                pass                        # not accepted: another client holds a button
                            else:
                                ev = (mask, x, y) if not s else (mask, x * W / (W // s), y * H / (H // s))
                                sent.setdefault(c, []).append((ev, bool(others_pressed) or blocked or ptr_uncertain))
                        if clear and not ptr_uncertain:
                            continue                       # must not be delivered
                        exp.append((e, bool(others_pressed) or blocked or ptr_uncertain))
                    elif k == "scale":
                        s = m[1]
                        if s == 1:
                            scale[c] = None
                        elif H // s == 0 or W // s == 0:
                            pass                           # refused by the library, scale unchanged
                        else:
                            scale[c] = s
                    elif k == "benign":
                        pass
                    elif k == "prov":
                        # extended-clipboard Provide: [.., text_len, text_fnv, ok]; the text must reach
                        # setXCutTextUTF8 exactly once with exactly these bytes; a corrupt message
                        # (ok = False) closes the client, whether its text was delivered first is open
                        if m[1] is not None and not vo.get(c):
                            exp.append(("cutu8 c%d %d %016x" % (c, m[1], m[2]), not m[3]))
                        if not m[3]:
                            alive = False
                    elif k == "closing":
                        alive = False
                    else:
                        simple = False
                if simple:
                    err = match_expected(exp, cbs)
                    if err:
                        return where + err
                    if alive and (not now or now[1] != "open"):
                        return where + "connection closed by well-formed permitted messages"
            if now and now[1:2] == ["closed"] or now == ["gone"]:
                pass
        if "eof" in ann:
            pass
        if fin.startswith("="):
            st = cur
    if defer:
        # coalescing on: what is delivered is a subsequence of what the client sent (nothing stale,
        # nothing invented, order kept), and once the intervals have run out (every defer script ends
        # with long ticks and pumps) the LAST position sent has been delivered
        for c, evs in sent.items():
            if sent_ok.get(c) is False or vo.get(c) or c in dirty:
                continue
            got = delivered.get(c, [])
            i = 0
            for g in got:
                while i < len(evs) and not same_ptr(evs[i][0], g):
                    i += 1
                if i == len(evs):
                    return "defer: c%d: delivered pointer event %r is not the next of the events sent (stale or reordered); sent=%r delivered=%r" % (c, g, [e[0] for e in evs][-6:], got[-6:])
                i += 1
            fin_st = st.get(c)
            if fin_st and fin_st[:2] == ["normal", "open"] and evs and not evs[-1][1]:
                if not got or not same_ptr(evs[-1][0], got[-1]):
                    return "defer: c%d: last position sent %r was never delivered (last delivered %r)" % (c, evs[-1][0], got[-1] if got else None)
    return None


def same_ptr(e, g):
    """sent event e (mask, x, y; x/y possibly the real-valued mapped-back position) vs delivered g"""
    return e[0] == g[0] and abs(e[1] - g[1]) <= 1.0 and abs(e[2] - g[2]) <= 1.0 and \
        (not isinstance(e[1], int) or (e[1] == g[1] and e[2] == g[2]))


def match_expected(exp, cbs):
    i = 0
    for (e, optional) in exp:
        got = cbs[i] if i < len(cbs) else None
        ok = False
        if got is not None:
            if isinstance(e, str):
                ok = got == e
            else:
                p = got.split()
                ok = got.startswith(e[0] + " ") and len(p) == 5 and abs(int(p[3]) - e[1]) <= 1.0 and abs(int(p[4]) - e[2]) <= 1.0
        if ok:
            i += 1
        elif not optional:
            return "expected callback %r, got %r (callback %d of this op)" % (e, got, i)
    if i < len(cbs):
        return "spurious callback %r" % cbs[i]
    return None


def oracle_scale(lines, anns, impl):
    return None


# ----------------------------------------------------------------------------- real sockets, threads
def ws_scenarios(pw):
    """(name, hookvo, wait, items, verdict) for harness/c06_wsthread.c; items: ('F', bytes) one
    WebSocket frame, ('A', kind, bytes) auth response + bytes in the SAME frame.
    verdict: 'refused' (server must close, NO callback), 'silent' (no callback), or the exact list
    of callback lines expected (controls: the probe really delivers input)."""
    key, ptr, cut = m_key(1, 0x61)[0], m_ptr(1, 3, 4)[0], m_cut(b"abc")[0]
    kcb, pcb, ccb = "kbd c1 1 97", "ptr c1 1 3 4", "cut c1 3 %016x" % fnv(b"abc")
    v8, v3 = VERSIONS[8], VERSIONS[3]
    out = []
    if pw:
        pre = [("F", v8), ("F", b"\x02")]
        out += [
            ("bad-auth+key", 0, "eof", pre + [("A", "bad", key)], "refused"),
            ("bad-auth+ptr", 0, "eof", pre + [("A", "bad", ptr)], "refused"),
            ("bad-auth+cut", 0, "eof", pre + [("A", "bad", cut)], "refused"),
            ("bad-auth+init+key+ptr+cut", 0, "eof", pre + [("A", "bad", b"\x01" + key + ptr + cut)], "refused"),
            ("bad-auth33+key", 0, "eof", [("F", v3), ("A", "bad", key)], "refused"),
            ("bad-auth-then-key", 0, "eof", pre + [("A", "bad", b""), ("F", key)], "refused"),
            ("full+init+key+ptr+cut", 0, "cb3", pre + [("A", "full", b"\x01" + key + ptr + cut)], [kcb, pcb, ccb]),
            ("view+init+key+ptr+cut", 0, "quiet", pre + [("A", "view", b"\x01" + key + ptr + cut)], "silent"),
            ("hookvo+full+init+key", 1, "quiet", pre + [("A", "full", b"\x01" + key + ptr)], "silent"),
            ("full,key,unknown+key", 0, "eof", pre + [("A", "full", b"\x01"), ("F", key), ("F", b"\xee" + key + ptr)], [kcb]),
            ("full,toobig-cut+key", 0, "eof", pre + [("A", "full", b"\x01" + bytes([6, 0, 0, 0]) + be32(LIMIT + 1) + key + cut)], "refused"),
        ]
    else:
        pre = [("F", v8)]
        out += [
            ("badsec+key", 0, "eof", pre + [("F", b"\x07" + key + ptr)], "refused"),
            ("key-as-version", 0, "eof", [("F", key + key)], "refused"),
            ("none+init+key+ptr+cut", 0, "cb3", pre + [("F", b"\x01\x01" + key + ptr + cut)], [kcb, pcb, ccb]),
            ("hookvo,none+init+key+ptr+cut", 1, "quiet", pre + [("F", b"\x01\x01" + key + ptr + cut)], "silent"),
            ("unknown+key", 0, "eof", pre + [("F", b"\x01\x01"), ("F", b"\xfe" + key + ptr + cut)], "refused"),
            ("fixcolourmap+key", 0, "eof", pre + [("F", b"\x01\x01" + bytes([1, 0, 0, 0, 0, 0]) + key)], "refused"),
            ("overlong-chat+key", 0, "eof", pre + [("F", b"\x01\x01" + bytes([11, 0, 0, 0]) + be32(4117) + key + ptr)], "refused"),
            ("scale0+ptr", 0, "eof", pre + [("F", b"\x01\x01" + bytes([8, 0, 0, 0]) + ptr + key)], "refused"),
            ("key,filetransfer+key", 0, "eof", pre + [("F", b"\x01\x01" + key), ("F", bytes([7] + [0] * 11) + key)], [kcb]),
        ]
    # several connections: an item may be prefixed with the connection number; (k, "X") = viewer k goes away
    p = lambda mask, x, y: m_ptr(mask, x, y)[0]
    if pw:
        hs = lambda k: [(k, "F", v8), (k, "F", b"\x02"), (k, "A", "full", b"\x01")]
    else:
        hs = lambda k: [(k, "F", v8), (k, "F", b"\x01\x01")]
    out += [
        # A presses a button and disconnects without releasing it: afterwards B's pointer events must all arrive
        ("holder-disconnects", 0, "cb3", hs(1) + hs(2) + [(1, "F", p(1, 5, 6)), ("W", 1), (1, "X"),
                                                          (2, "F", p(0, 3, 4)), (2, "F", p(1, 9, 9))],
         ["ptr c1 1 5 6", "ptr c2 0 3 4", "ptr c2 1 9 9"]),
        # ... the same when the SERVER drops A (unknown message type) while it holds the button
        ("holder-dropped-by-server", 0, "cb3", hs(1) + hs(2) + [(1, "F", p(4, 1, 2)), ("W", 1), (1, "F", b"\xfd"), (1, "X"),
                                                                (2, "F", p(0, 3, 4)), (2, "F", p(2, 9, 9))],
         ["ptr c1 4 1 2", "ptr c2 0 3 4", "ptr c2 2 9 9"]),
        # control: after A's release B is served
        ("holder-releases", 0, "cb3", hs(1) + hs(2) + [(1, "F", p(1, 5, 6)), ("W", 1), (1, "F", p(0, 5, 6)), ("W", 2),
                                                       (2, "F", p(0, 3, 4))],
         ["ptr c1 1 5 6", "ptr c1 0 5 6", "ptr c2 0 3 4"]),
    ]
    return out


def run_wsthread(ctx, d):
    """gating on real sockets: WebSocket (binary and base64) x threaded / single-threaded event loop.
    After the server has refused or closed a connection, nothing it still holds of that connection's
    bytes (the rest of the same WebSocket frame!) may reach a callback."""
    fails, n = [], 0
    exe = ctx.harness("c06_wsthread")
    jobs = []
    for pw in (0, 1):
        scs = ws_scenarios(pw)
        lines, meta = [], []
        for proto in ("bin", "b64", "tcp"):
            for (name, hook, wait, items, verdict) in scs:
                toks = []
                model = ["screen 64 48 %d 0 0" % pw, "hookvo %d" % hook]
                opened = set()
                for it in items:
                    k = 1
                    if it[0] == "W":
                        toks.append("W%d" % it[1])
                        continue
                    if isinstance(it[0], int):
                        k, it = it[0], it[1:]
                    if k not in opened:
                        opened.add(k)
                        model.append("conn %d%s" % (k, "" if proto == "tcp" else " ws"))
                    if it[0] == "F":
                        toks.append("%dF:%s" % (k, hx(it[1])))
                        model.append("send %d %s" % (k, hx(it[1])))
                    elif it[0] == "X":
                        toks.append("%dX" % k)
                        model += ["eof %d" % k, "pump"]
                    else:
                        toks.append("%dA:%s:%s" % (k, it[1], hx(it[2])))
                        if it[1] == "bad":
                            model.append("send %d %s" % (k, hx(b"\x55" * 16 + it[2])))
                        else:
                            model.append("auth %d %s%s" % (k, it[1], (" extra=" + hx(it[2])) if it[2] else ""))
                lines.append("scn %s %s %d %s %s" % (name, proto, hook, wait, " ".join(toks)))
                meta.append((name, proto, verdict, "\n".join(model) + "\n"))
        for mode in ("thr", "st"):
            jobs.append((pw, mode, lines, meta))

    def one(job):
        pw, mode, lines, meta = job
        return ctx.run_lines(exe, "\n".join(lines) + "\n", timeout=900, args=[mode, str(pw)])

    for (pw, mode, lines, meta), (rc, out, err) in zip(jobs, common.pmap(one, jobs, workers=4)):
        what = "gating on real sockets (WebSocket, %s loop, %s screen)" % (
            "threaded" if mode == "thr" else "single-threaded", "password" if pw else "open")
        if rc != 0:
            fails.append({"kind": "crash", "what": what + ": c06_wsthread exit %d" % rc, "script": lines,
                          "impl": out[-20:], "detail": err})
            continue
        bl, dangling = blocks(out)
        if dangling or len(bl) != len(lines):
            fails.append({"kind": "crash", "what": what + ": %d scenario results for %d scenarios" % (len(bl), len(lines)),
                          "script": lines, "impl": out[-20:], "detail": err})
            continue
        for line, (name, proto, verdict, mscript), (cbs, _closed, fin) in zip(lines, meta, bl):
            n += 1
            msg = None
            if not fin.startswith("= " + name + " eof="):
                msg = "scenario did not run: %r" % fin
            elif verdict == "refused":
                if cbs:
                    msg = "callback(s) %r from a connection the server refused / closed" % cbs
                elif not fin.endswith("eof=1"):
                    msg = "the server did not close the connection"
            elif verdict == "silent":
                if cbs:
                    msg = "callback(s) %r from a view-only client" % cbs
            elif cbs != verdict:
                msg = "expected exactly %r, got %r" % (verdict, cbs)
            if msg:
                fails.append({"kind": "oracle", "what": what, "detail": "%s (%s): %s" % (name, proto, msg),
                              "script": ["# harness/c06_wsthread.c %s %d" % (mode, pw), line], "impl": cbs + [fin],
                              "family": "wsthread"})
                continue
            if ctx.driver_ok:      # the model predicts the same callbacks from the equivalent script
                rc2, mo, _ = ctx.run_lines(d, mscript)
                mcb = [l for l in mo if l.startswith(CB)]
                if rc2 != 0 or mcb != cbs:
                    fails.append({"kind": "exact", "what": what + " vs model", "script": mscript.splitlines(),
                                  "impl": cbs, "model": mcb, "family": "wsthread"})
    return fails, n


UDP_FINDING = "udp-input-unauthenticated"


def run_udp(ctx):
    """UDP input channel (screen->udpPort, off by default): on a password-protected screen a datagram
    from a socket that never authenticated must not reach a callback.  Witness harness/c06_udp.c.
    Runs once known_findings.json has an entry with this id (known: reported as KNOWN-FINDING; fixed:
    must pass); see docs/C06.md."""
    if not any(k.get("id") == UDP_FINDING for k in ctx.known):
        return [], 0
    exe = ctx.harness("c06_udp")
    fails = []
    rc, out, err = ctx.run_lines(exe, "", timeout=300, args=["1"])
    cbs = [l for l in out if l.startswith(("kbd ", "ptr "))]
    if rc != 0 or not out or not out[-1].startswith("="):
        fails.append({"kind": "crash", "what": "c06_udp exit %d" % rc, "script": ["# harness/c06_udp.c 1"], "impl": out, "detail": err})
    elif cbs:
        fails.append({"kind": "oracle", "what": "UDP input on a password-protected screen", "finding": UDP_FINDING,
                      "detail": "unauthenticated datagrams reached the application: %r" % cbs,
                      "script": ["# harness/c06_udp.c 1  (screen with password list, udpPort set; KeyEvent and PointerEvent datagrams from an unrelated socket)"],
                      "impl": out, "family": "udp"})
    return fails, 1


# ----------------------------------------------------------------------------- run
def classify(sc, impl, dist, seen):
    dist["family"][sc.family] = dist["family"].get(sc.family, 0) + 1
    for a in sc.ann:
        if not a:
            continue
        for m in a.get("msgs", []):
            key = m[0] if m[0] not in ("benign", "closing") else "%s:%s" % (m[0], m[1])
            dist["msgs"][key] = dist["msgs"].get(key, 0) + 1
        if "c" in a and not a.get("wf"):
            dist["malformed_or_handshake_sends"] += 1
    dist["ws_conns"] = dist.get("ws_conns", 0) + sum(1 for l in sc.lines if l.startswith("conn ") and l.endswith(" ws"))
    for l in sc.lines:
        if "cuts=" in l:
            k = l.split("cuts=")[1].count(",") + 1
            dist["cuts"][str(min(k, 6))] = dist["cuts"].get(str(min(k, 6)), 0) + 1
    ncb = sum(1 for l in impl if l.startswith(CB))
    dist["callbacks"] += ncb
    dist["closed"] += sum(1 for l in impl if l.startswith("closed "))
    if ncb >= 1 or sc.family == "scale":
        seen.add(sc.text())


def run(ctx):
    h = ctx.harness("c06")
    d = ctx.driver("drv_c06")
    rng = ctx.rng
    thorough = ctx.tier == "thorough"
    scripts = []
    if ctx.replay and json.load(open(ctx.replay)).get("family") == "wsthread":
        rec = json.load(open(ctx.replay))
        hdr = rec["script"][0].split()               # "# harness/c06_wsthread.c MODE PW"
        exe = ctx.harness("c06_wsthread")
        rc, out, err = ctx.run_lines(exe, rec["script"][1] + "\n", timeout=900, args=[hdr[2], hdr[3]])
        cbs = [l for l in out if l.startswith(CB)]
        fails = []
        want = rec.get("impl", [])[:-1]
        if rc != 0:
            fails.append({"kind": "crash", "what": "c06_wsthread exit %d" % rc, "script": rec["script"], "impl": out, "detail": err})
        elif cbs and cbs == want:
            fails.append({"kind": "oracle", "what": rec.get("what", "wsthread replay"), "detail": "still happens: " + rec.get("detail", ""),
                          "script": rec["script"], "impl": out, "family": "wsthread"})
        return {"evaluations": 1, "distinct_nontrivial": 1, "rule": "replay of one real-socket scenario", "samples": [],
                "distribution": {}, "failures": fails, "partial": PARTIAL, "assumptions": ASSUMPTIONS}
    if ctx.replay:
        rec = json.load(open(ctx.replay))
        sc = Script(rec.get("family", "replay"))
        sc.lines = rec.get("script", [])
        sc.ann = rec.get("ann") or [None] * len(sc.lines)
        scripts = [sc]
    else:
        for f in sorted(glob.glob(os.path.join(common.VERIF, "corpus", "C06", "*.json"))):
            rec = json.load(open(f))
            sc = Script("corpus")
            sc.lines, sc.ann = rec["script"], rec.get("ann") or [None] * len(rec["script"])
            sc.finding = rec.get("finding")
            scripts.append(sc)
        for _ in range(3 if not thorough else 40):
            scripts.append(gen_ext(rng))
            scripts.append(gen_chat(rng))
            scripts.append(gen_login(rng))
        segm = seg_messages(rng, 40, 30)
        for which in segm:
            n = sum(len(m[0]) for m in which[1])
            scripts.append(gen_seg(rng, which, 1))
            if thorough or n <= 24:
                scripts.append(gen_seg(rng, which, 2))
            if thorough and n <= 16:
                scripts.append(gen_seg(rng, which, 3))
            # the same over WebSocket: the cut is a frame boundary inside the message
            scripts.append(gen_seg(rng, which, 1, ws=True))
            scripts.append(gen_seg(rng, which, 2, ws=True, sample=None if thorough else 12))
        for _ in range(120 if not thorough else 3000):
            scripts.append(gen_mix(rng, rng.choice([10, 25, 50])))
        for _ in range(15 if not thorough else 150):
            scripts.append(gen_gate(rng))
        for k in range(30 if not thorough else 300):
            scripts.append(gen_defer(rng, rng.choice([10, 30, 60]), scaled=(k % 3 == 0)))
        scripts.append(gen_limit(rng, [0, 1, LIMIT - 1, LIMIT, LIMIT + 1]))
        scripts.append(gen_limit(rng, [LIMIT, LIMIT + 1, 0x7FFFFFFF, 0x80000000, 0xFFFFFFFF, 0xFFF00000 + 5], ext=False))
        scripts.append(gen_limit(rng, [LIMIT, 5, 0x7FFFFFFF], ext=True))
        scripts.append(gen_limit(rng, [LIMIT, 70000, LIMIT + 1], ws=True))
        if thorough:
            for _ in range(6):
                scripts.append(gen_limit(rng, [LIMIT - 1, LIMIT, LIMIT + 1, rng.randrange(2, LIMIT)]))
        special = [(49, 98), (49, 49 * 3), (3, 9), (257, 65535), (65535, 1), (128, 32767), (7, 4096), (20, 40), (13, 40), (1, 1), (2, 1),
                   (32767, 65535), (21845, 65535), (107, 321), (99, 200), (4095, 4096)]
        npairs = 30 if not thorough else 600
        pairs = special + [(rng.randint(1, 4096), rng.randint(1, 4096)) for _ in range(npairs)] + \
            [(max(1, t // s), t) for (t, s) in ((rng.randint(1, 4096), rng.randint(1, 12)) for _ in range(npairs))]
        for i in range(0, len(pairs), 6):
            scripts.append(gen_scale(rng, pairs[i:i + 6]))

    fails, samples, seen = [], [], set()
    ws_evals = 0
    if not ctx.replay:
        wf, ws_evals = run_wsthread(ctx, d)
        fails.extend(wf)
        uf, un = run_udp(ctx)
        fails.extend(uf)
        ws_evals += un
    dist = {"family": {}, "msgs": {}, "cuts": {}, "malformed_or_handshake_sends": 0, "callbacks": 0, "closed": 0}

    # A hung or blocked server is a counterexample, reported in bounded time: the harness has its own
    # watchdog (virtual I/O-call budget, no-progress guard, alarm() per op -> exit 3 with a `hang:` line);
    # the per-script limit here is only the outer net (Ctx.run_lines confirms an expiry by one retry).
    # After the first crash/hang the remaining scripts are skipped: one concrete input is enough.
    stop = {"flag": False}
    limit = 400 if not thorough else 900

    def one(sc):
        if stop["flag"]:
            return None
        r = common.compare_streams(ctx, sc.text(), h, d, "input." + sc.family, timeout=limit)
        if r[2] and r[2]["kind"] == "crash":
            stop["flag"] = True
        return r

    results = common.pmap(one, scripts)
    evals = ws_evals
    dist["wsthread_scenarios"] = ws_evals
    for sc, res in zip(scripts, results):
        if res is None:
            continue                # skipped after a crash/hang elsewhere
        impl, model, f = res
        evals += 1
        fid = getattr(sc, "finding", None)
        if f:
            f = dict(f, ann=sc.ann, family=sc.family)
            if f["kind"] == "crash" and any(l.startswith("hang:") for l in impl[-3:]):
                f["what"] = "input.%s: HANG - %s" % (sc.family, [l for l in impl if l.startswith("hang:")][-1])
            f["script"] = [l[:400] for l in sc.lines][:400]
            if fid:
                f["finding"] = fid
            fails.append(f)
        if not (f and f["kind"] == "crash"):
            o = oracle(sc.lines, sc.ann, impl)
            if o:
                fl = {"kind": "oracle", "what": "C06 input oracle (%s)" % sc.family, "detail": o,
                      "script": [l[:400] for l in sc.lines][:400], "ann": sc.ann, "family": sc.family, "impl": impl[-30:]}
                if fid:
                    fl["finding"] = fid
                fails.append(fl)
        classify(sc, impl, dist, seen)
        if len(samples) < 5 and sc.family in ("mix", "gate", "defer", "defer-scaled", "seg-ws", "login") and len(sc.lines) < 40:
            samples.append({"script": [l[:200] for l in sc.lines], "impl": impl[:80]})
        # keep going until a CONCRETE counterexample is found (model/code disagreements alone must not
        # stop the search for one); cap the number of disagreement records kept
        if sum(1 for x in fails if x["kind"] in ("oracle", "crash")) >= 3:
            break
        nex = [x for x in fails if x["kind"] not in ("oracle", "crash")]
        if len(nex) > 5:
            fails = [x for x in fails if x["kind"] in ("oracle", "crash")] + nex[:5]
    return {
        "evaluations": evals, "distinct_nontrivial": len(seen),
        "rule": "one evaluation = one script (session) run on the real server and on the model; non-trivial = distinct script in which the real server invoked at least one input callback (or an exhaustive ScaleX/ScaleY sweep over x=0..65535 for 6 dimension pairs)",
        "samples": samples, "distribution": dist, "failures": fails,
        "partial": PARTIAL, "assumptions": ASSUMPTIONS,
        "trusted_extra": ["link-level interposition of read/recv/select/close/gettimeofday in harness/c06.c (virtual segmentation and clock)"],
    }


PARTIAL = [
    "handshake states are modelled abstractly (canonical `RFB ddd.ddd\\n` version strings, security type byte, password check as an oracle parameter): enough for `gated_handshake`; byte-level sscanf/DES behaviour belongs to C05",
    "extended-clipboard messages are modelled (framing, limit, Caps/Request/Peek/Notify, Provide with any number of formats) with zlib inflate as a parameter of the model: the driver runs Provide on the plain stream with the identity as inflate, the harness compresses the same stream with zlib (assumed law inflate(compress s) = s); a Provide record of 0 bytes is out of the model (zlib-internal return value) and not generated; content properties of the clipboard beyond 'the text, once, unaltered' are C18's",
    "deliver_exactly_once_in_order assumes the harness configuration of non-input messages (no protocol extensions registered, permitFileTransfer off, default setDesktopSizeHook, no xvp/textchat hooks): messages that this configuration answers by closing the connection (FixColourMapEntries, FileTransfer, unknown types, SetScale 0, bad TextChat length, bad pixel format) are modelled and correspondence-tested but are outside `Benign`",
]
ASSUMPTIONS = [
    "interposed read/recv/select model the kernel: read returns a non-empty prefix of the bytes that have arrived (at most the requested length), EAGAIN when none, select wakes when the next segment arrives and times out when none is in flight (virtual time)",
    "server-side writes never fail (4 MiB socket buffers, harness drains after every op)",
    "a raw 16-byte `send` in state RFB_AUTHENTICATION is not a valid DES response (probability 2^-128); valid responses are injected by the `auth` op using the library's own rfbEncryptBytes",
    "harness/c06.c: single screen, alwaysShared, application-driven event loop: rfbProcessClientMessage is called while input is pending and the connection is open, rfbProcessEvents on `pump`; the threaded loop (clientInput) and the real rfbCheckFds loop are exercised by harness/c06_wsthread.c over real sockets (timing-based waits: up to 10 s per scenario for the server to answer)",
    "UDP input (screen->udpPort, off by default) is outside the model; it is unauthenticated by construction (proposed known finding udp-input-unauthenticated, witness harness/c06_udp.c)",
    "a corrupt extended-clipboard payload in a raw `send` is generated with an invalid zlib header byte, so that inflate fails for certain (model: inflate oracle returns none)",
    "SetPixelFormat is generated with sane shifts/maxima only (shifts >= 32 and 24bpp table init have sanitizer findings that belong to C04/C10)",
]

META = {
    "technique": "Lean 4 theorems about an executable model of the client-message path (read programs over segmented streams, parser/encoder round trip, gating, pointer ownership, cut-text limit, scaling) + exact differential run of the model against the real rfbProcessClientMessage/rfbProcessEvents with deterministic stream segmentation (interposed read/select) + model-independent oracle + T0-regenerated sizes/offsets/limit",
    "level_text": "Proof: Props/C06.lean proves, for the model in VncModel/Input, delivery exactly once / unaltered / in order for every sequence of well-formed messages of a permitted client (incl. all benign non-input message types and mid-stream SetScale), the three gating clauses, invariance under every segmentation for every byte stream, the exact 2^20 cut-text boundary with isolation of the closed connection, parser synchronisation, the exact scaled mapping without int overflow, and for pointer coalescing (deferPtrUpdateTime > 0, fixed code) over every schedule with an arbitrary non-decreasing clock: delivered events are a subsequence of the sent ones, the last position is delivered, mask changes are never coalesced away. The model is tied to the code on every run by regenerated header constants and by an exact differential run (real server in-process vs compiled Lean driver) over generated sessions, exhaustive 1-/2-cut segmentations of every message type, limit boundaries with 1 MiB payloads, exhaustive ScaleX/ScaleY sweeps, plus a direct oracle.",
    "level_note": "Trusted: Lean kernel (axioms propext/Classical.choice/Quot.sound only), harness incl. the read/select interposers, driver, generators (testing; distribution in evidence). Modelled abstractly: handshake (C05), sharing policy (C14, neutralised by alwaysShared). Not modelled: threads (C13), TLS/WebSocket transports (C09), extended clipboard payload (C18), UDP input.",
    "design_ref": "DESIGN.md section 7, C06",
}
