"""C07 — LibVNCClient reconstructs exactly what a conforming server encoded.

Proof: lean/VncModel/Props/C07.lean (client decoder models refine the specification decoders of
VncModel.Enc.Spec; CopyRectangleFromRectangle = simultaneous copy; buffered reader independent of
the read segmentation; request builders).
Tie: harness/c07.c feeds server streams produced by the independent reference encoder
(vlib/props/c07_enc.py) to the REAL library through an interposed socket; the Lean driver
(Driver/C07.lean) runs the client model AND the specification decoders on the same bytes; exact
comparison of every observation line; direct oracle: framebuffer == what the generator encoded.
"""
import json, os, struct, zlib, subprocess, select, re
from .. import common, build
from . import c07_enc as E

PROPS_MOD = "VncModel.Props.C07"
EXTRA_TARGETS = ["drv_c07"]
# -ftrivial-auto-var-init=pattern: a local variable the library reads before writing it holds 0xFE.. bytes
# (a hostile value), not whatever the previous call left on the stack: such reads become deterministic
HARNESS_EXTRA = ("-fno-sanitize=alignment", "-ftrivial-auto-var-init=pattern")


def play_variant(script):
    """the same session through the library's play-file transport (vncrec log): -> script or None"""
    ls = script.splitlines()
    inits = [l for l in ls if l.startswith("init ")]
    msgs = [l.split()[1] for l in ls if l.startswith("msg ")]
    if len(inits) != 1 or len(msgs) > 28 or any(l.split()[0] in ("feed", "feedrep", "drain", "fbdump", "fill", "copy", "bitmap", "req", "setformat", "wait", "eos") for l in ls) \
            or "-" in msgs:
        return None
    hd = [l for l in ls if l.split()[0] in ("client", "adopt")]
    return "\n".join(hd + ["play %s %s" % (inits[0].split()[1], " ".join(msgs)), "init -"] + ["msg -"] * len(msgs) + ["end"]) + "\n"


def strip_out(line):
    return " ".join(t for t in line.split() if not t.startswith("out="))


def realtime_hang(impl):
    return bool(impl) and impl[-1].strip() == "HANG realtime"


def build_harness(ctx):
    return ctx.harness("c07", libs=("client",), extra=HARNESS_EXTRA)


# --------------------------------------------------------------------------------------------
# LZO through the repository's minilzo (helper op of the harness); cached per process
# --------------------------------------------------------------------------------------------
class Lzo:
    def __init__(self, exe):
        self.exe = exe
        self.p = None

    def __call__(self, data):
        if self.p is None:
            env = dict(os.environ)
            env["ASAN_OPTIONS"] = "detect_leaks=0"
            self.p = subprocess.Popen([self.exe], stdin=subprocess.PIPE, stdout=subprocess.PIPE, text=True, env=env)
        self.p.stdin.write("lzo %s\n" % (data.hex() or "-"))
        self.p.stdin.flush()
        # finite limit (generous: the helper answers in milliseconds); expiry is a machinery error of the
        # generator, never a verdict about the library
        rd, _, _ = select.select([self.p.stdout], [], [], 600)
        if not rd:
            self.p.kill()
            self.p = None
            raise RuntimeError("lzo helper did not answer within 600 s")
        out = self.p.stdout.readline().strip()
        if out == "bad-op" or not out:
            raise RuntimeError("lzo helper failed")
        return b"" if out == "-" else bytes.fromhex(out)

    def close(self):
        if self.p:
            self.p.stdin.close()
            self.p.wait()
            self.p = None


def lzo_literal(data):
    """LZO1X stream consisting of one literal run + end marker (independent of minilzo)"""
    n = len(data)
    if n == 0:
        return b"\x11\x00\x00"
    if n <= 238:
        return bytes([n + 17]) + data + b"\x11\x00\x00"
    t = n - 3
    if t <= 15:
        head = bytes([t])
    else:
        t -= 15
        head = b"\x00" + b"\x00" * ((t - 1) // 255) + bytes([(t - 1) % 255 + 1])
    return head + data + b"\x11\x00\x00"


# --------------------------------------------------------------------------------------------
# session generator
# --------------------------------------------------------------------------------------------
ALL_ENCS = ["raw", "copyrect", "rre", "corre", "hextile", "zlib", "tight", "ultra", "trle", "zrle"]


def hexs(b):
    return b.hex() if b else "-"


def crc_fb(sess):
    return zlib.crc32(sess.fmt.mask_bytes(bytes(sess.fb))) & 0xFFFFFFFF


def gen_geometry(rng, W, H, enc):
    r = rng.random()
    if r < 0.08 and not (enc == "corre" and (W > 255 or H > 255)):
        return 0, 0, W, H
    w = rng.randint(1, W)
    h = rng.randint(1, H)
    if rng.random() < 0.4:
        w = min(w, rng.choice([1, 2, 7, 8, 9, 15, 16, 17, 31, 33, 63, 64, 65]))
    if rng.random() < 0.4:
        h = min(h, rng.choice([1, 2, 15, 16, 17, 63, 64, 65]))
    if enc == "corre":
        w, h = min(w, 255), min(h, 255)
    x = rng.randint(0, W - w)
    y = rng.randint(0, H - h)
    if rng.random() < 0.2:
        x = W - w
    if rng.random() < 0.2:
        y = H - h
    return x, y, w, h


def gen_copyrect(rng, sess):
    W, H = sess.W, sess.H
    w = rng.randint(1, max(1, W - 1))
    h = rng.randint(1, max(1, H - 1))
    sx = rng.randint(0, W - w)
    sy = rng.randint(0, H - h)
    # destination: mostly overlapping the source, in all 8 directions (and 0,0)
    dx = rng.choice([-1, 0, 1]) * rng.randint(0, max(1, w))
    dy = rng.choice([-1, 0, 1]) * rng.randint(0, max(1, h))
    x = min(max(sx + dx, 0), W - w)
    y = min(max(sy + dy, 0), H - h)
    return sess.enc_copyrect(x, y, w, h, sx, sy)


def gen_cursor(rng, sess, rich, size=None):
    fmt = sess.fmt
    w, h = size if size is not None else rng.choice([(0, 0), (1, 1), (7, 3), (8, 8), (9, 2), (16, 16), (17, 5), (32, 32)])
    xh, yh = (rng.randint(0, max(0, w - 1)), rng.randint(0, max(0, h - 1)))
    hdr = struct.pack(">HHHHI", xh, yh, w, h, E.ENC["richcursor" if rich else "xcursor"])
    if w * h == 0:
        return hdr, None
    rowb = (w + 7) // 8
    mask = bytes(rng.getrandbits(8) for _ in range(rowb * h))
    mbits = bytes((mask[r * rowb + c // 8] >> (7 - c % 8)) & 1 for r in range(h) for c in range(w))
    if rich:
        px = b"".join(fmt.rand_pixel(rng) for _ in range(w * h))
        body, src = px + mask, px
    else:
        cols = bytes(rng.getrandbits(8) for _ in range(6))     # fore r,g,b  back r,g,b
        bits = bytes(rng.getrandbits(8) for _ in range(rowb * h))
        body = cols + bits + mask

        def conv(r, g, b):      # what the library documents: scaled to the client's format
            v = (((r * fmt.rmax + 127) // 255) << fmt.rs) | (((g * fmt.gmax + 127) // 255) << fmt.gs) | \
                (((b * fmt.bmax + 127) // 255) << fmt.bs)
            return v.to_bytes(4, "little")[:fmt.bytespp]        # host order of the library (see docs/C07.md)
        c = [conv(*cols[3:6]), conv(*cols[0:3])]                 # index 0 = background, 1 = foreground
        src = b"".join(c[(bits[r * rowb + x // 8] >> (7 - x % 8)) & 1] for r in range(h) for x in range(w))
    obs = "cur:%d:%d:%d:%d:%d:%08x:%08x" % (xh, yh, w, h, fmt.bytespp, zlib.crc32(src) & 0xFFFFFFFF,
                                             zlib.crc32(mbits) & 0xFFFFFFFF)
    return hdr + body, obs


def gen_extdesktop(rng, sess, size=None, nscreens=None):
    """ExtendedDesktopSize rectangle of a conforming server: 1..4 screens with non-zero ids and
    non-empty geometry; the framebuffer is re-allocated exactly when the announced size differs"""
    if size is None:
        size = (sess.W, sess.H) if rng.random() < 0.25 else (rng.randint(1, 100), rng.randint(1, 80))
    nw, nh = size
    n = nscreens or rng.choice([1, 1, 2, 4])
    body = bytes([n, 0, 0, 0])
    for k in range(n):
        body += struct.pack(">IHHHHI", rng.choice([1, 2, 0x100, 0x10000, 0x1000000, 0xFFFFFFFF, rng.randint(1, 2 ** 32 - 1)]),
                            rng.randint(0, 65535), rng.randint(0, 65535), rng.choice([1, 256, nw, 65535]), rng.choice([1, 256, nh, 65535]),
                            rng.getrandbits(32))
    rect = struct.pack(">HHHHI", rng.choice([0, 1, 2]), 0, nw, nh, E.ENC["extdesktopsize"]) + body
    cb = []
    if (nw, nh) != (sess.W, sess.H):
        sess.resize(nw, nh)
        cb.append("malloc:%d:%d" % (nw, nh))
    sess.tag("extdesktopsize")
    return rect, cb


def gen_session(rng, lzo, force=None):
    """-> dict(script, expect=[(kind, fields)], tags)"""
    force = force or {}
    fmt = force.get("fmt") or rng.choice(E.FORMATS)
    sfmt = force.get("sfmt") or rng.choice([E.FMT_BY_NAME["rgb888le"]] * 3 + E.FORMATS)
    big = rng.random() < 0.12
    if big:
        W, H = rng.choice([(400, 210), (320, 300), (700, 130), (2100, 40)])
    else:
        W, H = rng.randint(1, 100), rng.randint(1, 80)
    W, H = force.get("size", (W, H))
    encs = force.get("encs")
    if not encs:
        encs = rng.sample(ALL_ENCS, rng.randint(1, 4))
        if rng.random() < 0.3:
            encs = list(ALL_ENCS)
        # known defect (C07 zlib-zrle-shared-stream): one inflate stream for both encodings
        if "zlib" in encs and "zrle" in encs and not force.get("mix_zlib_zrle"):
            encs.remove(rng.choice(["zlib", "zrle"]))
    version = force.get("version") or rng.choice([b"RFB 003.008\n"] * 4 + [b"RFB 003.007\n", b"RFB 003.003\n", b"RFB 003.889\n", b"RFB 004.000\n"])
    name = bytes(rng.getrandbits(8) for _ in range(rng.choice([0, 1, 5, 40, 300])))
    sess = E.Session(rng, fmt, W, H, lzo=lzo)
    segsizes = rng.choice([[0], [1], [1], [2], [3, 1], [7], [8192], [8191, 1], [5, 8200], [rng.randint(1, 40) for _ in range(8)],
                           [rng.randint(1, 9000) for _ in range(6)]])
    lines = ["client %s enc=%s cursor=1 fbmode=%d" % (" ".join(str(v) for v in fmt.tuple()), "+".join(encs), rng.choice([0, 1])),
             "seg " + ",".join(str(s) for s in segsizes),
             "init " + hexs(E.handshake(sfmt, W, H, name, version))]
    expect = [None, None, ("init", W, H, name)]
    if force.get("adopt") or rng.random() < 0.08:
        # the application creates the client with some format and adopts the session's format in its first
        # MallocFrameBuffer callback: the library must REQUEST and DECODE the adopted format
        fmt0 = force.get("adopt") or rng.choice(E.FORMATS)
        lines[0] = lines[0].replace(" ".join(str(v) for v in fmt.tuple()), " ".join(str(v) for v in fmt0.tuple()), 1)
        lines.insert(1, "adopt " + " ".join(str(v) for v in fmt.tuple()))
        expect.insert(1, None)
        sess.tag("adopt-format")
    nmsg = force.get("nmsg") or rng.randint(1, 6)
    pix_encs = [e for e in encs if e != "copyrect"] or ["raw"]
    for _ in range(nmsg):
        r = rng.random()
        cbs = []
        if r < 0.06:
            lines.append("msg 02")
            expect.append(("msg", crc_fb(sess), sess.W, sess.H, ["bell"]))
            sess.tag("bell")
            continue
        if r < 0.12:
            t = bytes(rng.getrandbits(8) for _ in range(rng.choice([0, 1, 10, 300, 9000])))
            lines.append("msg " + hexs(struct.pack(">BxxxI", 3, len(t)) + t))
            expect.append(("msg", crc_fb(sess), sess.W, sess.H, ["cut:%d:%08x" % (len(t), zlib.crc32(t) & 0xFFFFFFFF)]))
            sess.tag("cuttext")
            continue
        rects = []
        sess.z = []
        nrect = rng.choice([0, 1, 1, 1, 2, 3, 5])
        for _k in range(nrect):
            q = rng.random()
            if q < 0.06:
                rect, obs = gen_cursor(rng, sess, rng.random() < 0.5)
                rects.append(rect)
                if obs:
                    cbs.append(obs)
                sess.tag("cursor")
                continue
            if q < 0.09:
                x, y = rng.randint(0, 65535), rng.randint(0, 65535)
                rects.append(struct.pack(">HHHHI", x, y, 0, 0, E.ENC["pointerpos"]))
                cbs.append("pos:%d:%d" % (x, y))
                sess.tag("pointerpos")
                continue
            if q < 0.11:
                v = rng.randint(0, 7)
                rects.append(struct.pack(">HHHHI", v, 0, 0, 0, E.ENC["ledstate"]))
                cbs.append("led:%d" % v)
                continue
            if q < 0.14 and not big:
                nw, nh = rng.randint(1, 100), rng.randint(1, 80)
                rects.append(struct.pack(">HHHHI", 0, 0, nw, nh, E.ENC["newfbsize"]))
                sess.resize(nw, nh)
                cbs.append("malloc:%d:%d" % (nw, nh))
                sess.tag("newfbsize")
                continue
            if q < 0.17 and not big:
                rect, cb = gen_extdesktop(rng, sess)
                rects.append(rect)
                cbs += cb
                continue
            if "copyrect" in encs and q < 0.35 and sess.W > 1 and sess.H > 1:
                rects.append(gen_copyrect(rng, sess))
                cbs.append("upd:%d:%d:%d:%d" % struct.unpack(">HHHH", rects[-1][:8]))
                continue
            enc = rng.choice(pix_encs)
            x, y, w, h = gen_geometry(rng, sess.W, sess.H, enc)
            if enc == "tight" and fmt.bpp != 8 and w > 2048:
                w = 2048
            rects.append(sess.enc_rect(enc, x, y, w, h))
            cbs.append("upd:%d:%d:%d:%d" % (x, y, w, h))
        lastrect = rng.random() < 0.15
        if lastrect:
            body = struct.pack(">BxH", 0, rng.choice([0xFFFF, len(rects) + 1])) + b"".join(rects) + \
                struct.pack(">HHHHI", 0, 0, 0, 0, E.ENC["lastrect"])
            sess.tag("lastrect")
        else:
            body = E.fbu(rects)
        for (sid, z, plain) in sess.z:
            lines.append("z %d %s %s" % (sid, hexs(z), hexs(plain)))
            expect.append(None)
        lines.append("msg " + hexs(body))
        expect.append(("msg", crc_fb(sess), sess.W, sess.H, cbs + ["fin"]))
    lines.append("end")
    expect.append(None)
    return {"script": "\n".join(lines) + "\n", "expect": expect, "tags": sess.tags,
            "fmt": fmt.name, "sfmt": sfmt.name, "encs": encs, "size": (W, H), "seg": segsizes}


def gen_tight_boundary(rng, target):
    """session whose single Tight rectangle has a compressed length of exactly `target` bytes
    (compact-length boundaries 127/128/16383/16384): 8bpp, copy filter, fresh level-0 stream"""
    fmt = E.FMT_BY_NAME["bgr233"]
    n = None
    for cand in range(max(12, target - 40), target + 1):
        co = zlib.compressobj(0)
        if len(co.compress(b"\x5a" * cand) + co.flush(zlib.Z_SYNC_FLUSH)) == target:
            n = cand
            break
    if n is None:
        return None
    h = next((d for d in range(1, 400) if n % d == 0 and n // d <= 6000), None)
    if h is None:
        return None
    w = n // h
    W, H = w + rng.randint(0, 3), h + rng.randint(0, 3)
    sess = E.Session(rng, fmt, W, H)
    x, y = rng.randint(0, W - w), rng.randint(0, H - h)
    px = bytes(rng.getrandbits(8) for _ in range(n))
    sid = rng.randrange(4)
    co = zlib.compressobj(0)
    z = co.compress(px) + co.flush(zlib.Z_SYNC_FLUSH)
    assert len(z) == target
    sess.zs[sid].co = co
    # first use of the stream: a reset bit for it is harmless and exercises the reset path
    ctl = bytes([(sid << 4) | (rng.choice([0, 1 << sid]))])
    rect = struct.pack(">HHHHI", x, y, w, h, 7) + ctl + E.compact_len(target) + z
    sess.put(x, y, w, h, px)
    # a second rectangle on the same stream proves the stream state persisted
    px2 = bytes(rng.getrandbits(8) for _ in range(w * h))
    z2 = sess.zs[sid].feed(px2)
    rect2 = struct.pack(">HHHHI", x, y, w, h, 7) + bytes([sid << 4]) + E.compact_len(len(z2)) + z2
    sess.put(x, y, w, h, px2)
    segs = rng.choice([[0], [1], [7], [8191, 1]])
    lines = ["client %s enc=tight cursor=1 fbmode=%d" % (" ".join(str(v) for v in fmt.tuple()), rng.choice([0, 1])),
             "seg " + ",".join(str(v) for v in segs),
             "init " + hexs(E.handshake(E.FMT_BY_NAME["rgb888le"], W, H, b"b")),
             "z %d %s %s" % (sid, hexs(z), hexs(px)), "z %d %s %s" % (sid, hexs(z2), hexs(px2)),
             "msg " + hexs(E.fbu([rect, rect2])), "end"]
    expect = [None, None, ("init", W, H, b"b"), None, None,
              ("msg", crc_fb(sess), W, H, ["upd:%d:%d:%d:%d" % (x, y, w, h)] * 2 + ["fin"]), None]
    return {"script": "\n".join(lines) + "\n", "expect": expect, "tags": ["tight:clen=%d" % target, "tight:copy", "boundary"],
            "fmt": fmt.name, "sfmt": "rgb888le", "encs": ["tight"], "size": (W, H), "seg": segs}


# --------------------------------------------------------------------------------------------
# direct oracle (no model involved): the library's observations against the generator's truth
# --------------------------------------------------------------------------------------------
def parse_obs(line):
    t = line.split()
    d = {"tag": t[0], "ok": len(t) > 1 and t[1] == "T"}
    for x in t[2:]:
        if "=" in x:
            k, v = x.split("=", 1)
            d[k] = v
    return d


def jpeg_image(w, h):
    """smooth RGB test image with clearly different red and blue (a swapped channel order is visible)"""
    return bytes(v for y in range(h) for x in range(w) for v in (40 + 4 * x if w <= 48 else 40 + x % 200, 200 - 5 * (y % 32), 30 + (x + 2 * y) % 64))


def check_jpeg(ob, fmt, W, H, before, x, y, w, h, rgb, tol8=14):
    """fbdump after a Tight JPEG rectangle: inside the rectangle every channel is within a JPEG
    tolerance of the source image, outside it the framebuffer is untouched"""
    try:
        fb = bytes.fromhex(ob)
    except ValueError:
        return "fbdump answered %r" % ob[:60]
    b = fmt.bytespp
    if len(fb) != W * H * b:
        return "fbdump has %d bytes, expected %d" % (len(fb), W * H * b)
    rs, gs, bs_ = fmt.tuple()[7:10]
    maxs = (fmt.rmax, fmt.gmax, fmt.bmax)
    for py in range(H):
        for px_ in range(W):
            o = (py * W + px_) * b
            got = fb[o:o + b]
            if x <= px_ < x + w and y <= py < y + h:
                v = int.from_bytes(got, "big" if fmt.be else "little")
                src = rgb[((py - y) * w + (px_ - x)) * 3:][:3]
                for c, (sh, mx) in enumerate(zip((rs, gs, bs_), maxs)):
                    gotc = (v >> sh) & mx
                    want = (src[c] * mx + 127) // 255
                    if abs(gotc - want) > (tol8 * mx + 254) // 255 + 1:
                        return "JPEG pixel (%d,%d) channel %d is %d, source %d (of %d)" % (px_, py, c, gotc, want, mx)
            elif fmt.mask_bytes(got) != fmt.mask_bytes(bytes(before[o:o + b])):
                return "pixel (%d,%d) outside the JPEG rectangle changed" % (px_, py)
    return None


def oracle(sessn, impl):
    ops = sessn["script"].splitlines()
    if len(impl) != len(ops):
        return "observation count %d != ops %d (last: %r)" % (len(impl), len(ops), impl[-1:] )
    for i, (op, ob, ex) in enumerate(zip(ops, impl, sessn["expect"])):
        if ex is None:
            if ob != "ok":
                return "op %d %r answered %r" % (i, op[:40], ob)
            continue
        if ex[0] == "re":
            if not re.match(ex[1], ob):
                return "op %d %r: observed %r, expected /%s/" % (i, op[:40], ob[:200], ex[1])
            continue
        if ex[0] == "jpegdump":
            e = check_jpeg(ob, *ex[1:])
            if e:
                return "op %d: %s" % (i, e)
            continue
        if ex[0] == "init":
            _, W, H, name = ex
            t = ob.split()
            if t[:2] != ["init", "T"]:
                return "valid handshake rejected: %r" % ob
            if (int(t[2]), int(t[3])) != (W, H) or "name=" + hexs(name.split(b"\0")[0]) != t[4]:
                return "ServerInit values not reported: %r, expected %dx%d %s" % (ob, W, H, hexs(name))
            d = parse_obs(ob)
            if d.get("left") != "0":
                return "handshake: %s bytes left unread" % d.get("left")
            f = E.FMT_BY_NAME.get(sessn.get("fmt") or "")
            if f is not None and d.get("out", "-") != "-" and ("00000000" + f.wire().hex()) not in d["out"]:
                return "SetPixelFormat does not announce the format the client decodes in (%s): out=%s" % (f.name, d["out"])
            continue
        _, crc, W, H, cbs = ex
        d = parse_obs(ob)
        if not d["ok"]:
            return "op %d: valid message rejected (%s)" % (i, ob[:200])
        if "CANARY-DAMAGED" in ob:
            return "op %d: write outside the framebuffer (canary band damaged)" % i
        if crc is not None and d.get("fb") != "%d:%d:%08x" % (W, H, crc):
            return "op %d: framebuffer %s, generator encoded %d:%d:%08x" % (i, d.get("fb"), W, H, crc)
        got = [] if d.get("cb") == "-" else d.get("cb", "").split(",")
        if got != cbs:
            return "op %d: callbacks %r, expected %r" % (i, got, cbs)
        if d.get("left") != "0":
            return "op %d: %s bytes of the message left unread" % (i, d.get("left"))
        # every FramebufferUpdate is answered by exactly one incremental request for the whole screen
        if "fin" in cbs:
            want = struct.pack(">BBHHHH", 3, 1, 0, 0, W, H).hex()
            outs = d.get("out", "")
            if not outs.endswith(want):
                return "op %d: update request %s, expected ...%s" % (i, outs, want)
    return None


def _assemble(fmt, sfmt, W, H, encs, segs, fbmode, msgs):
    """msgs: list of (z entries, message bytes, expected tuple)"""
    lines = ["client %s enc=%s cursor=1 fbmode=%d" % (" ".join(str(v) for v in fmt.tuple()), "+".join(encs), fbmode),
             "seg " + ",".join(str(v) for v in segs), "init " + hexs(E.handshake(sfmt, W, H, b"det"))]
    expect = [None, None, ("init", W, H, b"det")]
    for zs, m, ex in msgs:
        for (sid, z, plain) in zs:
            lines.append("z %d %s %s" % (sid, hexs(z), hexs(plain)))
            expect.append(None)
        lines.append("msg " + hexs(m))
        expect.append(ex)
    lines.append("end")
    expect.append(None)
    return "\n".join(lines) + "\n", expect


TILE_MODES = [("raw",), ("solid",), ("packed", 2), ("packed", 3), ("packed", 5), ("packed", 16), ("rle",), ("prle", 2), ("prle", 127)]
TRLE_MODES = [("packed", 4), ("reuse-packed",), ("raw",), ("reuse-prle",), ("prle", 17), ("reuse-prle",), ("rle",), ("prle", 3),
              ("reuse-packed",), ("solid",), ("packed", 16), ("packed", 2)]


def gen_deterministic(rng, lzo, jpeg, jpegrgb):
    """sessions that are part of EVERY run: every tile sub-encoding in every pixel-format
    instantiation of the template decoders, every Tight mode with stream resets carried by
    Fill (and JPEG) rectangles, empty cursor after non-empty cursor"""
    out = []
    sf = E.FMT_BY_NAME["rgb888le"]
    for fmt in E.FORMATS:
        for segs in ([0], [1]):
            # ---- ZRLE + TRLE tiles, all modes
            W, H = 150, 140
            sess = E.Session(rng, fmt, W, H, lzo=lzo)
            msgs = []
            sess.z = []
            sess.force_tile = list(TILE_MODES)
            r1 = sess.enc_rect("zrle", 0, 0, W, H)
            msgs.append((list(sess.z), E.fbu([r1]), ("msg", crc_fb(sess), W, H, ["upd:0:0:%d:%d" % (W, H), "fin"])))
            sess.z = []
            sess.force_tile = list(TRLE_MODES)
            r2 = sess.enc_rect("trle", 3, 5, 64, 48)
            msgs.append(([], E.fbu([r2]), ("msg", crc_fb(sess), W, H, ["upd:3:5:64:48", "fin"])))
            sc, ex = _assemble(fmt, sf, W, H, ["zrle", "trle"], segs, 1, msgs)
            out.append({"script": sc, "expect": ex, "tags": list(sess.tags) + ["det:tiles"], "fmt": fmt.name, "sfmt": sf.name,
                        "encs": ["zrle", "trle"], "size": (W, H), "seg": segs})
            if segs == [1]:
                continue
            # ---- Tight: modes x stream ids x reset bits (also carried by Fill rectangles)
            W, H = 40, 30
            sess = E.Session(rng, fmt, W, H, lzo=lzo)
            plan = [("copy", 0, 0), ("fill", 0, 1), ("copy", 0, 0), ("pal2", 1, 0), ("paln", 1, 0), ("fill", 2, 0b1110),
                    ("paln", 2, 0), ("copy-x", 3, 0), ("pal2", 0, 1), ("fill", 0, 0b1111), ("copy", 3, 0), ("copy", 1, 2), ("copy", 1, 0)]
            if fmt.bpp != 8:
                plan += [("grad", 3, 0), ("grad", 3, 8), ("grad", 2, 0)]
            msgs = []
            for k, (mode, sid, resets) in enumerate(plan):
                sess.z = []
                sess.force_sid, sess.force_resets = sid, resets
                sess.force_k = [3, 256][k % 2]
                x, y, w, h = [(0, 0, W, H), (1, 2, 37, 21), (5, 0, 9, 30)][k % 3]
                r = sess.enc_rect("tight", x, y, w, h, force=mode)
                msgs.append((list(sess.z), E.fbu([r]), ("msg", crc_fb(sess), W, H, ["upd:%d:%d:%d:%d" % (x, y, w, h), "fin"])))
            sc, ex = _assemble(fmt, sf, W, H, ["tight"], [0], 1, msgs)
            out.append({"script": sc, "expect": ex, "tags": list(sess.tags) + ["det:tight"], "fmt": fmt.name, "sfmt": sf.name,
                        "encs": ["tight"], "size": (W, H), "seg": [0]})
            # ---- cursor: non-empty, empty, non-empty, empty (free/NULL discipline)
            sess = E.Session(rng, fmt, 8, 8, lzo=lzo)
            msgs = []
            for rich, size in [(True, (8, 8)), (True, (0, 0)), (False, (9, 2)), (False, (0, 5)), (True, (16, 16)), (True, (3, 0)), (False, (1, 1))]:
                rect, obs = gen_cursor(rng, sess, rich, size)
                msgs.append(([], E.fbu([rect]), ("msg", crc_fb(sess), 8, 8, ([obs] if obs else []) + ["fin"])))
            sc, ex = _assemble(fmt, sf, 8, 8, ["raw"], [0], 0, msgs)
            out.append({"script": sc, "expect": ex, "tags": ["det:cursor-empty-after-nonempty"], "fmt": fmt.name, "sfmt": sf.name,
                        "encs": ["raw"], "size": (8, 8), "seg": [0]})
    # ---- compressed payloads that need several read pieces: Zlib/ZRLE read RFB_BUFFER_SIZE (307200)
    #      bytes at a time, Tight ZLIB_BUFFER_SIZE (30000); output must continue where it stopped
    def big_session(fmt, W, H, rects, tagname):
        sess = E.Session(rng, fmt, W, H, lzo=lzo)
        msgs = []
        for (enc, x, y, w, h, kw) in rects:
            sess.z = []
            sess.force_content = kw.get("content", "noisefast")
            if kw.get("level0"):
                sess.zs[sess.Z_ZLIB].co = zlib.compressobj(0)
            sess.force_tile = [("raw",)] * 64 if enc == "zrle" and kw.get("rawtiles") else None
            sess.force_sid, sess.force_resets = kw.get("sid"), kw.get("resets")
            r = sess.enc_rect(enc, x, y, w, h, **({"force": kw["force"]} if "force" in kw else {}))
            clen = max([len(z) for (_i, z, _p) in sess.z] + [0])
            if "want" in kw:
                assert clen == kw["want"], (clen, kw["want"])
            sess.tag("%s:pieces=%d" % (enc, -(-clen // (30000 if enc == "tight" else 307200))))
            msgs.append((list(sess.z), E.fbu([r]), ("msg", crc_fb(sess), W, H, ["upd:%d:%d:%d:%d" % (x, y, w, h), "fin"])))
        sc, ex = _assemble(fmt, sf, W, H, sorted(set(r[0] for r in rects)), [0], 1, msgs)
        out.append({"script": sc, "expect": ex, "tags": list(sess.tags) + [tagname], "fmt": fmt.name, "sfmt": sf.name,
                    "encs": sorted(set(r[0] for r in rects)), "size": (W, H), "seg": [0]})
    f32, f16, f8 = E.FMT_BY_NAME["rgb888le"], E.FMT_BY_NAME["rgb565le"], E.FMT_BY_NAME["bgr233"]
    small = {"content": "few"}
    big_session(f32, 400, 300, [("zlib", 0, 0, 400, 300, {}), ("zlib", 3, 3, 20, 10, small), ("zlib", 0, 0, 400, 300, {})], "det:zlib-2-pieces")
    big_session(f32, 500, 340, [("zlib", 0, 0, 500, 340, {}), ("zlib", 1, 1, 9, 9, small)], "det:zlib-3-pieces")
    big_session(f16, 520, 330, [("zlib", 0, 0, 520, 330, {}), ("zlib", 0, 0, 5, 5, small)], "det:zlib-2-pieces-16bpp")
    for target in (307199, 307200, 307201, 614400, 614401):
        done = False
        for warm in (False, True):          # fresh stream (2 header bytes) or a stream already in use
            for cand in range(target - 80, target):
                co = zlib.compressobj(0)
                if warm:
                    co.compress(b"w" * 21); co.flush(zlib.Z_SYNC_FLUSH)
                if len(co.compress(bytes(cand)) + co.flush(zlib.Z_SYNC_FLUSH)) != target:
                    continue
                hh = next((d for d in range(100, 2500) if cand % d == 0 and cand // d <= 6000), None)
                if hh and not done:
                    done = True
                    pre = [("zlib", 0, 0, 7, 3, {"level0": True, "content": "few"})] if warm else []
                    big_session(f8, cand // hh, hh, pre + [("zlib", 0, 0, cand // hh, hh, {"level0": not warm, "want": target}),
                                                           ("zlib", 0, 0, 7, 3, small)], "det:zlib-boundary-%d" % target)
    big_session(f32, 400, 300, [("zrle", 0, 0, 400, 300, {"rawtiles": True}), ("zrle", 5, 5, 70, 70, small)], "det:zrle-2-pieces")
    big_session(f32, 200, 150, [("tight", 0, 0, 200, 150, {"force": "copy", "sid": 1, "resets": 0}),
                                ("tight", 0, 0, 200, 150, {"force": "paln", "sid": 1, "resets": 0}),
                                ("tight", 2, 2, 100, 120, {"force": "grad", "sid": 1, "resets": 0}),
                                ("tight", 0, 0, 12, 12, {"force": "copy", "sid": 1, "resets": 0, "content": "few"})], "det:tight-pieces")
    # ---- Tight JPEG rectangle carrying a stream reset (library only: JPEG is outside the model).
    # The rectangle lies in the bottom-right corner; after it the framebuffer is dumped: inside the
    # rectangle every channel within a JPEG tolerance of the source image, outside untouched.
    for name in ("rgb565le", "rgb565be", "rgb555le", "rgb888le", "bgr888le", "rgb888be"):
        fmt = E.FMT_BY_NAME[name]
        for (W, H, jw, jh) in ((48, 32, 32, 16), (40, 24, 40, 24), (33, 9, 1, 1)):
            sess = E.Session(rng, fmt, W, H, lzo=lzo)
            sess.force_sid, sess.force_resets = 0, 0
            sess.z = []
            r1 = sess.enc_rect("tight", 0, 0, W, H, force="copy")
            crc1, before = crc_fb(sess), bytes(sess.fb)
            rgb = jpeg_image(jw, jh)
            j = jpegrgb(jw, jh, 95, rgb)
            sess.zs[0].reset()
            jx, jy = W - jw, H - jh
            rj = struct.pack(">HHHHI", jx, jy, jw, jh, 7) + bytes([0x91]) + E.compact_len(len(j)) + j
            r3 = sess.enc_rect("tight", 0, 0, W, H, force="copy")
            lines = ["client %s enc=tight cursor=1 fbmode=1" % " ".join(str(v) for v in fmt.tuple()), "seg 0",
                     "init " + hexs(E.handshake(sf, W, H, b"det")),
                     "msg " + hexs(E.fbu([r1])), "msg " + hexs(E.fbu([rj])), "fbdump", "msg " + hexs(E.fbu([r3])), "end"]
            ex = [None, None, ("init", W, H, b"det"),
                  ("msg", crc1, W, H, ["upd:0:0:%d:%d" % (W, H), "fin"]),
                  ("msg", None, W, H, ["upd:%d:%d:%d:%d" % (jx, jy, jw, jh), "fin"]),
                  ("jpegdump", fmt, W, H, before, jx, jy, jw, jh, rgb),
                  ("msg", crc_fb(sess), W, H, ["upd:0:0:%d:%d" % (W, H), "fin"]), None]
            out.append({"script": "\n".join(lines) + "\n", "expect": ex, "tags": ["det:tight-jpeg-reset", "det:tight-jpeg-pixels"],
                        "fmt": fmt.name, "sfmt": sf.name, "encs": ["tight"], "size": (W, H), "seg": [0], "nomodel": True})
    # ---- VNC authentication (library only: DES is outside the model): challenge, response of the library's own
    # d3des with the harness password, SecurityResult OK; then ServerInit and pixels as usual
    for ver in (b"RFB 003.003\n", b"RFB 003.007\n", b"RFB 003.008\n"):
        fmt = E.FMT_BY_NAME["rgb565le"]
        W, H = 9, 5
        chal = bytes((i * 37 + 11) & 0xFF for i in range(16))
        sec = (bytes([1, 2]) if ver >= b"RFB 003.007\n" else struct.pack(">I", 2)) + chal + struct.pack(">I", 0)
        hsb = ver + sec + struct.pack(">HH", W, H) + sf.wire() + struct.pack(">I", 3) + b"det"
        sess = E.Session(rng, fmt, W, H, lzo=lzo)
        sess.z = []
        r1 = sess.enc_rect("raw", 0, 0, W, H)
        lines = ["client %s enc=raw cursor=1 fbmode=1" % " ".join(str(v) for v in fmt.tuple()), "seg 0", "init " + hexs(hsb),
                 "msg " + hexs(E.fbu([r1])), "end"]
        ex = [None, None, ("init", W, H, b"det"), ("msg", crc_fb(sess), W, H, ["upd:0:0:%d:%d" % (W, H), "fin"]), None]
        out.append({"script": "\n".join(lines) + "\n", "expect": ex, "tags": ["det:vncauth", "raw", "vncauth"], "fmt": fmt.name,
                    "sfmt": sf.name, "encs": ["raw"], "size": (W, H), "seg": [0], "nomodel": True})
    # ---- colour-mapped client (trueColour 0, 8 bpp): a conforming server sends SetColourMapEntries; the library keeps
    # no colour map, but the messages that follow must still be found (pixels are opaque 8-bit values)
    cm = E.Fmt(8, 8, 0, 0, 7, 7, 3, 0, 3, 6, "cmap8")
    for ncol in (0, 1, 3, 256):
        W, H = 12, 7
        sess = E.Session(rng, cm, W, H, lzo=lzo)
        msgs = []
        for k, enc in enumerate(("raw", "hextile", "rre")):
            sess.z = []
            r = sess.enc_rect(enc, 0, 0, W, H)
            msgs.append(([], E.fbu([r]), ("msg", crc_fb(sess), W, H, ["upd:0:0:%d:%d" % (W, H), "fin"])))
            scme = struct.pack(">BxHH", 1, k * 5, ncol) + bytes((i * 29 + k) & 0xFF for i in range(ncol * 6))
            msgs.append(([], scme, ("msg", crc_fb(sess), W, H, [])))
        sc, ex = _assemble(cm, sf, W, H, ["raw", "hextile", "rre"], [0], 1, msgs)
        out.append({"script": sc, "expect": ex, "tags": ["det:colourmap", "raw", "hextile", "rre"], "fmt": None, "sfmt": sf.name,
                    "encs": ["raw", "hextile", "rre"], "size": (W, H), "seg": [0]})
    # ---- WaitForMessage: a message that was read ahead together with its predecessor is waiting in the library's
    # buffer, not in the socket: WaitForMessage must report it
    for name in ("rgb888le",):
        fmt = E.FMT_BY_NAME[name]
        W, H = 5, 4
        z0 = zlib.crc32(fmt.mask_bytes(bytes(W * H * fmt.bytespp))) & 0xFFFFFFFF
        t = b"hello"
        two = b"\x02" + struct.pack(">BxxxI", 3, len(t)) + t
        lines = ["client %s enc=raw cursor=1 fbmode=1" % " ".join(str(v) for v in fmt.tuple()), "seg 0", "eos eagain",
                 "init " + hexs(E.handshake(sf, W, H, b"det")), "wait", "msg " + hexs(two), "wait", "msg -", "wait", "end"]
        ex = [None, None, None, ("init", W, H, b"det"), ("re", r"^wait 0$"),
              ("re", r"^msg T fb=%d:%d:%08x cb=bell out=- left=%d$" % (W, H, z0, len(two) - 1)), ("re", r"^wait 1$"),
              ("msg", z0, W, H, ["cut:5:%08x" % (zlib.crc32(t) & 0xFFFFFFFF)]), ("re", r"^wait 0$"), None]
        out.append({"script": "\n".join(lines) + "\n", "expect": ex, "tags": ["det:wait-buffered", "bell", "cuttext"], "fmt": fmt.name,
                    "sfmt": sf.name, "encs": ["raw"], "size": (W, H), "seg": [0]})
    # ---- pixel format changed in mid-session (32 bpp -> 16 bpp) between two Tight gradient rectangles, the first one wider
    for (n0, n1) in (("rgb888le", "rgb565le"), ("rgb888le", "rgb555be"), ("rgb565le", "rgb888le")):
        f0, f1 = E.FMT_BY_NAME[n0], E.FMT_BY_NAME[n1]
        W, H = 40, 3
        sess = E.Session(rng, f0, W, H, lzo=lzo)
        sess.force_sid, sess.force_resets, sess.force_content = 0, 0, "noisefast"
        sess.z = []
        r1 = sess.enc_rect("tight", 0, 0, W, H, force="grad")
        z1, c1 = list(sess.z), crc_fb(sess)
        sess.fmt = f1
        sess.resize(W, H)
        sess.z = []
        r2 = sess.enc_rect("tight", 0, 0, 20, H, force="grad")
        z2, c2 = list(sess.z), crc_fb(sess)
        lines = ["client %s enc=tight cursor=1 fbmode=1" % " ".join(str(v) for v in f0.tuple()), "seg 0",
                 "init " + hexs(E.handshake(sf, W, H, b"det"))]
        lines += ["z %d %s %s" % (sid, hexs(z), hexs(pl)) for (sid, z, pl) in z1] + ["msg " + hexs(E.fbu([r1]))]
        lines += ["setformat " + " ".join(str(v) for v in f1.tuple())]
        lines += ["z %d %s %s" % (sid, hexs(z), hexs(pl)) for (sid, z, pl) in z2] + ["msg " + hexs(E.fbu([r2])), "end"]
        zf = zlib.crc32(f1.mask_bytes(bytes(W * H * f1.bytespp))) & 0xFFFFFFFF
        ex = [None, None, ("init", W, H, b"det")] + [None] * len(z1) + [("msg", c1, W, H, ["upd:0:0:%d:%d" % (W, H), "fin"])]
        ex += [("re", r"^setformat T fb=%d:%d:%08x cb=malloc:%d:%d out=00000000%s02\w+ left=0$" % (W, H, zf, W, H, f1.wire().hex()))]
        ex += [None] * len(z2) + [("msg", c2, W, H, ["upd:0:0:20:%d" % H, "fin"]), None]
        out.append({"script": "\n".join(lines) + "\n", "expect": ex, "tags": ["det:setformat-midsession", "tight:grad", "tight"], "fmt": f0.name,
                    "sfmt": sf.name, "encs": ["tight"], "size": (W, H), "seg": [0]})
    # ---- format adopted in the MallocFrameBuffer callback (32 -> 16 bpp, 8 -> the server's 32 bpp, 16 -> 32 bpp big-endian, ...)
    for (n0, n1) in (("rgb888le", "rgb565le"), ("bgr233", "rgb888le"), ("rgb565le", "rgb888be"), ("rgb888le", "bgr233"), ("rgb555be", "bgr888le")):
        for encs in (["raw", "hextile"], ["zrle", "tight"]):
            out.append(gen_session(rng, lzo, {"fmt": E.FMT_BY_NAME[n1], "adopt": E.FMT_BY_NAME[n0], "encs": encs, "size": (23, 11), "nmsg": 2,
                                             "sfmt": sf, "version": b"RFB 003.008\n"}))
            out[-1]["tags"] = list(out[-1]["tags"]) + ["det:adopt-format"]
    # ---- zero-length reads (a transport must treat "read 0 bytes" as success): empty desktop name, empty cut text,
    # RRE / CoRRE without sub-rectangles, Hextile tiles without sub-rectangles (flat content)
    for name in ("bgr233", "rgb565le", "rgb888le"):
        fmt = E.FMT_BY_NAME[name]
        W, H = 21, 18
        sess = E.Session(rng, fmt, W, H, lzo=lzo)
        sess.z = []
        sess.force_content = "flat"
        rects = [sess.enc_rect(e, 0, 0, W, H) for e in ("rre", "corre", "hextile")]
        lines = ["client %s enc=rre+corre+hextile cursor=1 fbmode=1" % " ".join(str(v) for v in fmt.tuple()), "seg 0",
                 "init " + hexs(E.handshake(sf, W, H, b"")), "msg " + hexs(struct.pack(">BxxxI", 3, 0)), "msg " + hexs(E.fbu(rects)), "end"]
        ex = [None, None, ("init", W, H, b""), ("msg", 0, W, H, ["cut:0:00000000"]),
              ("msg", crc_fb(sess), W, H, ["upd:0:0:%d:%d" % (W, H)] * 3 + ["fin"]), None]
        ex[3] = ("msg", zlib.crc32(fmt.mask_bytes(bytes(W * H * fmt.bytespp))) & 0xFFFFFFFF, W, H, ["cut:0:00000000"])
        out.append({"script": "\n".join(lines) + "\n", "expect": ex, "tags": ["det:zero-length-reads", "rre", "corre", "hextile"], "fmt": fmt.name,
                    "sfmt": sf.name, "encs": ["rre", "corre", "hextile"], "size": (W, H), "seg": [0]})
    # ---- ExtendedDesktopSize: every screen count 1..4, new size and unchanged size, followed by pixels
    for name in ("bgr233", "rgb565le", "rgb888le"):
        fmt = E.FMT_BY_NAME[name]
        for nscr in (1, 2, 3, 4):
            for size in ((31, 17), (20, 10), (1, 1), (100, 3)):
                W, H = 20, 10
                sess = E.Session(rng, fmt, W, H, lzo=lzo)
                sess.z = []
                r1 = sess.enc_rect("raw", 0, 0, W, H)
                m1 = ([], E.fbu([r1]), ("msg", crc_fb(sess), W, H, ["upd:0:0:%d:%d" % (W, H), "fin"]))
                re_, cb = gen_extdesktop(rng, sess, size=size, nscreens=nscr)
                r2 = sess.enc_rect("raw", sess.W - 1, sess.H - 1, 1, 1)
                m2 = ([], E.fbu([re_, r2]), ("msg", crc_fb(sess), sess.W, sess.H, cb + ["upd:%d:%d:1:1" % (sess.W - 1, sess.H - 1), "fin"]))
                sc, ex = _assemble(fmt, sf, W, H, ["raw"], [0], 1, [m1, m2])
                out.append({"script": sc, "expect": ex, "tags": ["det:extdesktopsize", "extdesktopsize", "raw"], "fmt": fmt.name,
                            "sfmt": sf.name, "encs": ["raw"], "size": (W, H), "seg": [0]})
    return out


def gen_roundtrip(rng):
    """script for harness/c07rt.c: this repository's server encodes, the client library decodes"""
    W, H = rng.choice([(rng.randint(1, 120), rng.randint(1, 90)), (300, 200), (17, 130), (640, 35)])
    encs = rng.sample(["raw", "rre", "corre", "hextile", "zlib", "tight", "ultra", "zrle"], rng.randint(1, 3))
    if rng.random() < 0.6:
        encs.append("copyrect")
    lines = ["server %d %d %d" % (W, H, rng.randint(1, 10 ** 6)),
             "client enc=%s level=%d" % ("+".join(encs), rng.randint(0, 9)), "init"]
    for _ in range(rng.randint(1, 6)):
        for _k in range(rng.randint(1, 3)):
            w, h = rng.randint(1, W), rng.randint(1, H)
            x, y = rng.randint(0, W - w), rng.randint(0, H - h)
            if rng.random() < 0.25 and "copyrect" in encs:
                dx, dy = rng.randint(-8, 8), rng.randint(-8, 8)
                if 0 <= x - dx and x - dx + w <= W and 0 <= y - dy and y - dy + h <= H and (dx or dy):
                    lines.append("copy %d %d %d %d %d %d" % (x, y, w, h, dx, dy))
                    continue
            lines.append("draw %d %d %d %d %d %d" % (x, y, w, h, rng.randint(1, 10 ** 6), rng.randint(0, 3)))
        lines.append("update")
    return "\n".join(lines) + "\n", encs


def finding_of(s):
    """known-finding predicates (precise: configuration of the session, not the failure text)"""
    f = E.FMT_BY_NAME.get(s.get("fmt") or "")
    if f is None:
        return s.get("finding")
    tags = s.get("tags") or []
    tiles = any(t.startswith("tile:") for t in tags) or any(e in ("zrle", "trle") for e in s.get("encs", []))
    m = f.mask()
    fits3 = m < (1 << 24) or (m & 0xFF) == 0
    # cpixel-depth: 32bpp true colour, depth > 24, colour bits fit in the LS or MS three bytes,
    # and a CPIXEL context (ZRLE/TRLE tile data) occurs in the session
    if f.bpp == 32 and f.tc and f.depth > 24 and fits3 and tiles:
        return "cpixel-depth"
    return s.get("finding")


def run(ctx):
    h = build_harness(ctx)
    d = ctx.driver("drv_c07")
    lzo = Lzo(h)
    fails, samples, dist = [], [], {"tags": {}, "fmt": {}, "enc": {}, "seg": {}}
    sessions = []
    if ctx.replay and json.load(open(ctx.replay)).get("roundtrip"):
        rec = json.load(open(ctx.replay))
        hrt = ctx.harness("c07rt", libs=("server", "client"), extra=HARNESS_EXTRA)
        sc = "\n".join(rec["script"]) + "\n"
        rc, outl, err = ctx.run_lines(hrt, sc, timeout=120)
        bad = rc != 0 or any(op in ("init", "update") and not ob.startswith("eq") for op, ob in zip(sc.splitlines(), outl))
        return {"evaluations": 1, "distinct_nontrivial": 1, "rule": "replay of a round-trip script", "samples": [], "distribution": {},
                "failures": [{"kind": "oracle", "what": "C07 round trip", "detail": str(outl[-3:]) + err[-500:], "script": rec["script"],
                              "roundtrip": True}] if bad else [], "partial": [], "assumptions": []}
    if ctx.replay and json.load(open(ctx.replay)).get("play"):
        rec = json.load(open(ctx.replay))
        rc, pl, err = ctx.run_lines(h, "\n".join(rec["script"]) + "\n", timeout=120)
        bad = rc != 0 or any(l.split()[1] != "T" for l in pl if l.startswith(("init ", "msg ")))
        return {"evaluations": 1, "distinct_nontrivial": 1, "rule": "replay of a play-file session", "samples": [], "distribution": {},
                "failures": [{"kind": "oracle", "what": "C07: play-file transport rejects a stream that decodes over the socket",
                              "detail": str(pl[-3:]) + err[-300:], "script": rec["script"], "play": True}] if bad else [], "partial": [], "assumptions": []}
    if ctx.replay:
        rec = json.load(open(ctx.replay))
        sessions = [{"script": "\n".join((rec.get("script") or (rec.get("first_disagreement") or {}).get("script") or [])) + "\n", "expect": None, "tags": []}]
    else:
        cdir = os.path.join(common.VERIF, "corpus", "C07")
        for f in sorted(os.listdir(cdir)) if os.path.isdir(cdir) else []:
            if f.endswith(".json"):
                rec = json.load(open(os.path.join(cdir, f)))
                ex = rec.get("expect")
                if ex:
                    ex = [None if e is None else ((e[0], e[1], e[2], bytes.fromhex(e[3])) if e[0] == "init" else tuple(e)) for e in ex]
                sessions.append({"script": "\n".join(rec["script"]) + "\n", "expect": ex, "tags": ["corpus:" + f],
                                 "finding": rec.get("finding"), "fmt": rec.get("fmt"), "sfmt": rec.get("sfmt"),
                                 "encs": rec.get("encs", [])})
        def jpeg(w, hh, seed):
            rc, o, err = ctx.run_lines(h, "jpeg %d %d %d\n" % (w, hh, seed), env={"ASAN_OPTIONS": "detect_leaks=0"})
            return bytes.fromhex(o[0])
        def jpegrgb(w, hh, q, rgb):
            rc, o, err = ctx.run_lines(h, "jpegrgb %d %d %d %s\n" % (w, hh, q, rgb.hex()), env={"ASAN_OPTIONS": "detect_leaks=0"})
            return bytes.fromhex(o[0])
        sessions += gen_deterministic(ctx.rng, lzo, jpeg, jpegrgb)
        for target in (126, 127, 128, 129, 16382, 16383, 16384, 16385):
            b = gen_tight_boundary(ctx.rng, target)
            if b:
                sessions.append(b)
        n = 1500 if ctx.tier == "quick" else 20000
        for _ in range(n):
            sessions.append(gen_session(ctx.rng, lzo))
    lzo.close()
    def one1(s, env, limit=120):
        if s.get("nomodel"):
            rc, impl, err = ctx.run_lines(h, s["script"], timeout=limit, env=env)
            f = None
            if rc != 0:
                f = {"kind": "crash", "what": "client.session: harness exit %d" % rc, "script": s["script"].splitlines()[:400],
                     "impl": impl[-20:], "detail": err}
            return impl, [], f
        return common.compare_streams(ctx, s["script"], h, d, "client.session", timeout=limit, env=env)

    def play_check(s, impl):
        """transport independence: what decodes over the socket decodes identically from a play file"""
        ps = play_variant(s["script"])
        if ps is None or not impl:
            return None
        sock = [strip_out(l) for l in impl if l.startswith(("init ", "msg "))]
        if not sock or not all(l.split()[1] == "T" for l in sock):
            return None
        rc, pl, err = ctx.run_lines(h, ps, timeout=120)
        got = [strip_out(l) for l in pl if l.startswith(("init ", "msg "))]
        if rc != 0 or got != sock:
            d = next((i for i, (a, b) in enumerate(zip(got, sock)) if a != b), min(len(got), len(sock)))
            return {"kind": "oracle" if rc in (0, 1, 23) else "crash", "what": "C07: the stream decodes over the socket but not identically from a play file (vncrec transport)",
                    "detail": "harness exit %d; message %d: play %r, socket %r; %s" % (rc, d, got[d:d + 1], sock[d:d + 1], err[-300:]),
                    "script": ps.splitlines()[:40], "impl": pl[-6:], "play": True}
        return None

    def one(s):
        r = one0(s)
        if r[2] is None and not ctx.replay:
            f = play_check(s, r[0])
            if f:
                return r[0], r[1], f
        return r

    def one0(s):
        r = one1(s, None)
        if realtime_hang(r[0]):
            # the harness's real-time backstop fired (its hang detection proper is virtual): only a
            # repetition alone, with ten times the limit, counts
            with build.Lock("confirm-hang"):
                r = one1(s, {"VH_ALARM": "600"}, 900)
        return r
    res = common.pmap(one, sessions)
    evals, nontriv = 0, set()
    for s, (impl, model, f) in zip(sessions, res):
        evals += 1
        if f:
            f["finding"] = finding_of(s)
            fails.append(f)
        if s.get("expect") and not (f and f["kind"] == "crash"):
            o = oracle(s, impl)
            if o:
                fails.append({"kind": "oracle", "what": "C07 framebuffer/callback oracle", "detail": o, "finding": finding_of(s),
                              "script": s["script"].splitlines()[:400], "impl": impl[-6:],
                              "meta": {k: s.get(k) for k in ("fmt", "sfmt", "encs", "size", "seg")}})
        for t in s["tags"]:
            dist["tags"][t] = dist["tags"].get(t, 0) + 1
        if s.get("fmt"):
            dist["fmt"][s["fmt"]] = dist["fmt"].get(s["fmt"], 0) + 1
            for e in s["encs"]:
                dist["enc"][e] = dist["enc"].get(e, 0) + 1
        if len(set(s["tags"])) >= 3:
            nontriv.add(s["script"])
        if len(samples) < 3:
            samples.append({"script": [l[:300] for l in s["script"].splitlines()[:12]], "impl": [l[:300] for l in impl[:12]]})
        if len([x for x in fails if not x.get("finding")]) >= 6:
            break
    # one representative per known finding is enough in the report
    seenf, kept = set(), []
    for x in fails:
        if x.get("finding"):
            if x["finding"] in seenf:
                continue
            seenf.add(x["finding"])
        kept.append(x)
    fails = kept
    # round trip: streams produced by this repository's server (harness/c07rt.c, no model involved)
    if not ctx.replay:
        hrt = ctx.harness("c07rt", libs=("server", "client"), extra=HARNESS_EXTRA)
        rts = [gen_roundtrip(ctx.rng) for _ in range(60 if ctx.tier == "quick" else 1500)]
        rres = common.pmap(lambda sc: ctx.run_lines(hrt, sc[0], timeout=120), rts)
        dist["roundtrip"] = {"sessions": len(rts), "updates": 0, "enc": {}}
        for (sc, encs), (rc, outl, err) in zip(rts, rres):
            evals += 1
            for e in encs:
                dist["roundtrip"]["enc"][e] = dist["roundtrip"]["enc"].get(e, 0) + 1
            bad = None
            if rc != 0:
                bad = {"kind": "crash", "what": "C07 round trip: harness exit %d" % rc, "detail": err[-2000:]}
            else:
                ops = sc.splitlines()
                for op, ob in zip(ops, outl):
                    if op in ("init", "update"):
                        dist["roundtrip"]["updates"] += 1
                        if not ob.startswith("eq"):
                            bad = {"kind": "oracle", "what": "C07 round trip: client framebuffer differs from the server's",
                                   "detail": "%s -> %s" % (op, ob)}
                            break
                    elif ob != "ok":
                        bad = {"kind": "oracle", "what": "C07 round trip: op refused", "detail": "%s -> %s" % (op, ob)}
                        break
                if not bad and len(outl) != len(ops):
                    bad = {"kind": "oracle", "what": "C07 round trip: observation count", "detail": str(outl[-3:])}
            if bad:
                bad["script"] = sc.splitlines()
                bad["roundtrip"] = True
                fails.append(bad)
    return {
        "evaluations": evals, "distinct_nontrivial": len(nontriv),
        "rule": "sessions (handshake + 1..6 server messages) produced by the reference encoder; non-trivial = distinct script exercising >= 3 distinct sub-encoding tags",
        "samples": samples, "distribution": dist, "failures": fails,
        "partial": [],
        "assumptions": ["zlib / LZO1X / JPEG are trusted codecs (inflate results are supplied to the model by the generator)",
                        "little-endian host"],
    }


META = {
    "technique": "Lean 4 refinement theorems (client decoder models = specification decoders on well-formed input) + correspondence run of real LibVNCClient against the model and an independent reference encoder",
    "level_text": "Proof of decoder refinement / copy semantics / read buffering in Lean; tie by exact differential run on generated server streams plus framebuffer oracle.",
    "level_note": "Trusted: Lean kernel, zlib/LZO/JPEG codecs, harness/generator (testing).",
    "design_ref": "DESIGN.md section 7, C07",
}
