"""C14 — shared / non-shared session policy.

Proof: lean/VncModel/Props/C14.lean (exact characterisation of ClientInit's effect in the three
cases + invariant `never_shared_at_most_one` over all histories; `processArgs_segments`: functional
specification of the rfbProcessArguments loop for every well-formed command line and every set of
extensions, option table regenerated from cargs.c (T0); `origin_of_flag` /
`never_shared_at_most_one_inbound`: the reverse flag is a function of the arrival history, failed
reverse connections leave no trace).
Tie: correspondence run harness/c14.c (real rfbProcessClientInitMessage over socketpairs) vs
Driver/C14.lean on generated event scripts, exact comparison of every client's open/closed/state
after every event, plus a direct oracle (below) that only uses the property's words.
"""
import json
from .. import common

PROPS_MOD = "VncModel.Props.C14"
EXTRA_TARGETS = ["drv_c14"]
MAXID = 7


FLAGS = ("-alwaysshared", "-nevershared", "-dontdisconnect")
# options of the library that take a value, harmless for the sessions of this harness
VALUE_OPTS = ("-rfbwait", "-deferupdate", "-deferptrupdate", "-desktop", "-progressive", "-rfbport",
              "-httpport", "-httpdir", "-sslkeyfile", "-sslcertfile")
HELP_OPTS = ("-help", "-h", "--help")


def gen_args(rng, cfg):
    """a command line as an application would pass it on: the sharing switches wanted by `cfg` in
    random positions among library options with values, the harness extension's options
    (-chan N, -xflag, -tri A B), tokens nobody knows; sometimes a switch stands where it is NOT an
    option (as the value of another option, as a parameter of an extension option), sometimes the
    line ends in an option that lacks its value, rarely it contains -help"""
    segs = [[f] for f, on in zip(FLAGS, cfg) if on]
    for _ in range(rng.randint(0, 4)):
        r = rng.random()
        if r < 0.30:
            o = rng.choice(VALUE_OPTS)
            v = rng.choice(FLAGS) if rng.random() < 0.3 else rng.choice(["0", "5", "20000", "name", "/nonexistent"])
            if o in ("-rfbwait",):
                v = "20000"          # keep the harness's blocking reads patient
            segs.append([o, v])
        elif r < 0.45:
            segs.append(["-chan", rng.choice(["7", "x"] + list(FLAGS))])
        elif r < 0.55:
            segs.append(["-xflag"])
        elif r < 0.65:
            segs.append(["-tri", rng.choice(["a"] + list(FLAGS)), rng.choice(["b"] + list(FLAGS))])
        elif r < 0.80:
            segs.append([rng.choice(["foo", "-unknown", "-chanx", "-", "--", "-Nevershared", "-permitfiletransfer", "-enablehttpproxy"])])
        elif r < 0.88:
            segs.append([rng.choice(FLAGS)])      # repeated / extra switches
        elif r < 0.93:
            segs.append([rng.choice(HELP_OPTS)])
    rng.shuffle(segs)
    toks = [t for s in segs for t in s]
    r = rng.random()
    if r < 0.08:
        toks.append(rng.choice(VALUE_OPTS))       # value missing: the library stops there
    elif r < 0.14:
        toks.append(rng.choice(["-chan", "-tri", "-tri x"]))   # extension option without its parameters
    return toks[:15]


def py_args(cfg, toks):
    """independent reading of rfbProcessArguments' documented behaviour -> (cfg, left, ok)"""
    cfg = list(cfg)
    left, i = [], 0
    known_value = set(VALUE_OPTS) | {"-rfbportv6", "-rfbauth", "-rfbversion", "-passwd", "-httpportv6", "-listen", "-listenv6"}
    while i < len(toks):
        t = toks[i]
        if t in HELP_OPTS:
            return tuple(cfg), left + toks[i:], False
        if t in known_value:
            if i + 1 >= len(toks):
                return tuple(cfg), left + toks[i:], False
            i += 2
        elif t in FLAGS:
            cfg[FLAGS.index(t)] = 1
            i += 1
        elif t in ("-permitfiletransfer", "-enablehttpproxy"):
            i += 1
        elif t == "-chan" and i + 1 < len(toks):
            i += 2
        elif t == "-xflag":
            i += 1
        elif t == "-tri" and i + 2 < len(toks):
            i += 3
        else:
            left.append(t)
            i += 1
    return tuple(cfg), left, True


def gen_script(rng, nops):
    """structured, mostly-valid event histories; ~8% deliberately invalid ops (bad-op stream)"""
    cfg = (rng.randint(0, 1), rng.randint(0, 1), rng.randint(0, 1))
    if rng.random() < 0.5:
        # configuration through the command-line path (rfbProcessArguments)
        lines = [("args " + " ".join(gen_args(rng, cfg))).strip()]
        if rng.random() < 0.2:
            lines.append(("args " + " ".join(gen_args(rng, (0, 0, 0)))).strip())
    else:
        lines = ["cfg %d %d %d" % cfg]
    nxt, pre, ready, normal, pre889 = 0, [], [], [], []     # generator's own bookkeeping (not an oracle)
    for _ in range(nops):
        r = rng.random()
        if r < 0.08:
            lines.append(rng.choice(["init %d %d" % (rng.randint(0, MAXID), rng.randint(0, 1)),
                                     "hs %d" % rng.randint(0, MAXID),
                                     "close %d" % rng.randint(0, MAXID)]))
        elif r < 0.30 and nxt <= MAXID:
            q = rng.random()
            if q > 0.88:
                # a peer whose connection attempt fails inside rfbNewClient (wrong first bytes / hang-up)
                lines.append("badconn %d %d" % (nxt, rng.randint(0, 1)))
                nxt += 1
            elif q < 0.22:
                # the application calls rfbReverseConnection: it fails (refused / hook refuses) or succeeds
                mode = rng.choice([0, 2, 1, 1])
                lines.append("rconn %d %d" % (nxt, mode))
                if mode == 1:
                    pre.append(nxt)
                    nxt += 1
            else:
                rev = 1 if q < 0.30 else 0
                mac = rng.random() < 0.15
                lines.append("%s %d %d" % ("conn889" if mac else "conn", nxt, rev))
                (pre889 if mac else pre).append(nxt)
                nxt += 1
        elif r < 0.36 and pre889:
            i = pre889.pop(rng.randrange(len(pre889)))
            lines.append("hs %d" % i)      # implicit ClientInit (shared) happens here
            normal.append(i)
        elif r < 0.50 and pre:
            i = pre.pop(rng.randrange(len(pre)))
            lines.append("hs %d" % i)
            ready.append(i)
        elif r < 0.80 and ready:
            i = ready.pop(rng.randrange(len(ready)))
            lines.append("init %d %d" % (i, rng.randint(0, 1)))
            normal.append(i)
        elif r < 0.87 and (normal or ready or pre):
            pool = rng.choice([p for p in (normal, ready, pre) if p])
            lines.append("close %d" % pool.pop(rng.randrange(len(pool))))
        elif r < 0.95:
            lines.append("reap")
        else:
            continue
        lines.append("state")
    lines.append("reap")
    lines.append("state")
    return "\n".join(lines) + "\n", cfg


def core_scripts():
    """deterministic histories run first at every seed: established clients, then connection attempts
    that fail inside rfbNewClient (wrong first bytes, hang-up) and failed reverse connections, then a
    newcomer with either shared flag — for all eight flag combinations"""
    out = []
    for a in (0, 1):
        for nv in (0, 1):
            for d in (0, 1):
                for sh in (0, 1):
                    L = ["cfg %d %d %d" % (a, nv, d),
                         "conn 0 0", "hs 0", "init 0 1", "state",
                         "conn 1 0", "hs 1", "init 1 1", "state",
                         "rconn 2 1", "hs 2", "init 2 1", "state",
                         "badconn 3 0", "state", "badconn 4 1", "state", "rconn 5 0", "rconn 5 2", "state",
                         "conn 6 0", "hs 6", "init 6 %d" % sh, "state",
                         "reap", "state"]
                    out.append(("\n".join(L) + "\n", (a, nv, d)))
    return out


def parse_state(line):
    """-> ({id: (open|closed, hs|normal)} or {id: ('gone',)}, {id: 'r'|'i'})"""
    d, fl = {}, {}
    for t in line.split():
        p = t.split(":")
        d[int(p[0])] = tuple(p[1:3])
        if len(p) > 3:
            fl[int(p[0])] = p[3]
    return d, fl


def oracle(script, impl):
    """direct property oracle on the implementation's observations (no model involved)"""
    ops = [l for l in script.splitlines() if l]
    if len(ops) != len(impl):
        return "observation count %d != ops %d" % (len(impl), len(ops))
    cfg, rev, prev, mac = (0, 0, 0), {}, {}, set()
    last_init = None
    for op, ob in zip(ops, impl):
        t = op.split()
        if t[0] == "cfg":
            cfg = tuple(int(x) for x in t[1:4])
        elif t[0] == "args":
            cfg, left, okk = py_args(cfg, t[1:])
            want = " ".join(["ok" if okk else "fail"] + left)
            if ob != want:
                return "rfbProcessArguments %r: returned/left %r, expected %r" % (t[1:], ob, want)
        elif t[0] == "badconn":
            if ob != "refused":
                return "connection attempt %r was not refused: %r" % (op, ob)
        elif t[0] == "rconn":
            if ob == "ok":
                rev[int(t[1])] = 1
            elif (ob == "rc-failed") != (t[2] in ("0", "2")):
                return "reverse connection %r: %r" % (op, ob)
        elif t[0] in ("conn", "conn889") and ob == "ok":
            rev[int(t[1])] = int(t[2])
            if t[0] == "conn889":
                mac.add(int(t[1]))
        elif t[0] == "hs" and ob == "ok" and int(t[1]) in mac:
            last_init = (int(t[1]), 1)
        elif t[0] == "init":
            last_init = (int(t[1]), int(t[2])) if ob == "ok" else None
        elif t[0] == "state":
            cur, flags = parse_state(ob)
            for i, fch in flags.items():
                if (fch == "r") != bool(rev.get(i)):
                    return "client %d is flagged %r but it %s" % (
                        i, "reverse" if fch == "r" else "inbound",
                        "came in through a reverse connection" if rev.get(i) else "is an inbound connection")
            served = [i for i, v in cur.items() if v == ("open", "normal") and not rev.get(i)]
            if cfg[1] and len(served) > 1:
                return "never-shared screen serves %r simultaneously" % served
            if last_init:
                i, sh = last_init
                excl = (not rev.get(i)) and (cfg[1] or (not cfg[0] and not sh))
                others_before = [j for j, v in prev.items() if j != i and v == ("open", "normal")]
                for j, v in prev.items():
                    if j == i:
                        continue
                    was_served = v == ("open", "normal")
                    if not excl or cfg[2] or not was_served:
                        if cur.get(j) != v:
                            return "client %d changed %r -> %r although newcomer %d must not disturb it" % (j, v, cur.get(j), i)
                    elif cur.get(j) != ("closed", "normal"):
                        return "client %d still %r after exclusive newcomer %d" % (j, cur.get(j), i)
                want = ("closed", "normal") if (excl and cfg[2] and others_before) else ("open", "normal")
                if cur.get(i) != want:
                    return "newcomer %d is %r, expected %r" % (i, cur.get(i), want)
                last_init = None
            prev = cur
        else:
            pass
    return None


def run(ctx):
    h = ctx.harness("c14")
    d = ctx.driver("drv_c14")
    fails, samples, dist = [], [], {"ops": {}, "cfg": {}, "bad_ops": 0, "inits_exclusive": 0}
    seen = set()
    scripts = []
    if ctx.replay:
        rec = json.load(open(ctx.replay))
        scripts = [("\n".join(rec.get("script", [])) + "\n", None)]
    else:
        n = 400 if ctx.tier == "quick" else 3000
        scripts += core_scripts()
        for k in range(n):
            scripts.append(gen_script(ctx.rng, ctx.rng.choice([6, 12, 25, 40])))
    evals = 0
    results = common.pmap(lambda sc: common.compare_streams(ctx, sc[0], h, d, "policy.clientInit"), scripts)
    for (script, cfg), (impl, model, f) in zip(scripts, results):
        evals += 1
        if f:
            fails.append(f)
        o = oracle(script, impl) if not (f and f["kind"] == "crash") else None
        if o:
            fails.append({"kind": "oracle", "what": "C14 policy oracle", "detail": o,
                          "script": script.splitlines(), "impl": impl})
        for l in script.splitlines():
            k = l.split()[0]
            dist["ops"][k] = dist["ops"].get(k, 0) + 1
        dist["bad_ops"] += sum(1 for x in impl if x == "bad-op")
        if cfg is not None:
            dist["cfg"][str(cfg)] = dist["cfg"].get(str(cfg), 0) + 1
        if sum(1 for l, ob in zip(script.splitlines(), impl) if l.startswith("init") and ob == "ok") >= 2:
            seen.add(script)
        if len(samples) < 3:
            samples.append({"script": script.splitlines(), "impl": impl})
        if len(fails) >= 5:
            break
    return {
        "evaluations": evals, "distinct_nontrivial": len(seen),
        "rule": "random event histories (connect/handshake/ClientInit/close/reap) over <=8 clients, all 8 flag combinations; non-trivial = distinct script with >=2 accepted ClientInit messages",
        "samples": samples, "distribution": dist, "failures": fails,
        "partial": [],
        "assumptions": ["`conn id 1` marks a record the way rfbReverseConnection does (flag set after rfbNewClient); `rconn` calls the real rfbReverseConnection (loopback TCP viewer, refused connection, refusing newClientHook)",
                        "registered extensions claim at most as many arguments as remain (processArgument contract)",
                        "-listen / -passwd / -rfbauth / -rfbversion are in the model's option table (regenerated from cargs.c) but not generated: they change the handshake or need name resolution",
                        "single-threaded application-driven event loop"],
    }

META = {
    "technique": "Lean 4 theorems (exact characterisation of ClientInit's policy effect; inductive invariant over all event histories) + correspondence run of the model against the real rfbProcessClientInitMessage",
    "level_text": "Proof: the policy decision is modelled in Lean (VncModel/Policy/Model.lean); Props/C14.lean proves the three cases of the property for every client list/configuration and `never_shared_at_most_one` by induction over all histories. The model is tied to the code on every run by an exact differential run (real server over socketpairs vs compiled Lean driver) plus a model-independent oracle.",
    "level_note": "Trusted: Lean kernel (axioms propext/Classical.choice/Quot.sound only), the harness/driver/generator (testing, distribution in evidence), tools/consts/c14.py (option-table extractor; fails closed). Modelled: client list, sock open/closed, state==RFB_NORMAL, reverseConnection (as history: inbound / successful / failed reverse connection), the three screen flags, the whole argument loop of rfbProcessArguments (token consumption of every option, extension fallback, purge). Not modelled: threads (C13), how sockets are actually closed (C12).",
    "design_ref": "DESIGN.md section 7, C14",
}
