"""C18 — clipboard text is transferred intact in both directions.

Proof: lean/VncModel/Props/C18.lean about the model lean/VncModel/Clip/Model.lean (server handler,
server senders, LibVNCClient handler and senders; zlib is a parameter with assumed laws).
Tie: harness/c18.c (REAL server and REAL client library over socketpairs, reference peers on either
side) vs Driver/C18.lean on generated scripts, exact comparison of every canonical observation
(callback lengths + FNV-64 of the bytes, decoded wire messages with INFLATED provide payloads,
closed set, per-connection clipboard state), plus the direct oracle `Spec` below which re-states
the property without the Lean model (bytes delivered == bytes sent, only the offender closed).
"""
import json, os, struct, zlib, glob
from .. import common

PROPS_MOD = "VncModel.Props.C18"
EXTRA_TARGETS = ["drv_c18"]
LIMIT = 1 << 20                      # "1 MiB" of the property text
TEXT, CAPS, REQUEST, PEEK, NOTIFY, PROVIDE = 1, 1 << 24, 1 << 25, 1 << 26, 1 << 27, 1 << 28
ACTIONS = (CAPS, REQUEST, PEEK, NOTIFY, PROVIDE)
ENC_EXT = 0xC0A1E5CE
SLACK = 2048                         # compressed size of incompressible text may exceed the text by < SLACK


# --------------------------------------------------------------------------- helpers
def fnv(b):
    h = 1469598103934665603
    for x in b:
        h = ((h ^ x) * 1099511628211) & 0xFFFFFFFFFFFFFFFF
    return "%016x" % h


_fnv_cache = {}


def fnvc(b):
    if len(b) < 4096:
        return fnv(b)
    k = (len(b), hash(b))
    if k not in _fnv_cache:
        _fnv_cache[k] = fnv(b)
    return _fnv_cache[k]


def be32(n):
    return struct.pack(">I", n & 0xFFFFFFFF)


def rec(d):
    return be32(len(d)) + d


def cct(t):
    return bytes([6, 0, 0, 0]) + be32(len(t)) + t


def cext(flags, payload=b""):
    return bytes([6, 0, 0, 0]) + be32(-(4 + len(payload))) + be32(flags) + payload


def sct(t):
    return bytes([3, 0, 0, 0]) + be32(len(t)) + t


def sext(flags, payload=b""):
    return bytes([3, 0, 0, 0]) + be32(-(4 + len(payload))) + be32(flags) + payload


def setenc(encs):
    return bytes([2, 0]) + struct.pack(">H", len(encs)) + b"".join(be32(e) for e in encs)


def zsync(x):
    co = zlib.compressobj()
    return co.compress(x) + co.flush(zlib.Z_SYNC_FLUSH)


def stored_stream(chunks, tail=b"", final=True, adler_ok=True, plain=None):
    """hand-made zlib stream of stored blocks (behaviour independent of the deflate implementation)"""
    out = bytearray(b"\x78\x01")
    for i, c in enumerate(chunks):
        last = final and i == len(chunks) - 1
        out += bytes([1 if last else 0]) + struct.pack("<HH", len(c), len(c) ^ 0xFFFF) + c
    if final:
        a = zlib.adler32(b"".join(chunks) if plain is None else plain)
        out += struct.pack(">I", a if adler_ok else a ^ 0x5A5A5A5A)
    return bytes(out) + tail


def zinfo(z):
    """what a fresh inflate stream makes of z: (plain, 'end'|'more'|'err') or None if not known
    exactly (error somewhere inside: the amount of output before the error is zlib-internal)"""
    d = zlib.decompressobj()
    try:
        out = d.decompress(z)
        return out, ("end" if d.eof else "more")
    except zlib.error:
        return None


# --------------------------------------------------------------------------- script builder
class SB:
    def __init__(self):
        self.lines, self.names, self.n = [], {}, 0
        self.zknown = set()
        self.exact = True          # False: some zlib stream in it has no exact abstract description

    def blob(self, b):
        b = bytes(b)
        if b in self.names:
            return self.names[b]
        name = "b%d" % self.n
        self.n += 1
        self.names[b] = name
        self.lines.append("def %s hex %s" % (name, b.hex() if b else "-"))
        return name

    def cat(self, parts):
        """blob made of parts (bytes), defined by concatenation so that big texts are written once"""
        full = b"".join(parts)
        if full in self.names:
            return self.names[full]
        names = [self.blob(p) for p in parts]
        name = "b%d" % self.n
        self.n += 1
        self.names[full] = name
        self.lines.append("def %s cat %s" % (name, " ".join(names)))
        return name

    def z(self, payload, info="auto"):
        """register the inflate description of a compressed payload for the model"""
        if payload in self.zknown:
            return
        self.zknown.add(payload)
        if info == "auto":
            info = zinfo(payload)
        if info is None:
            self.exact = False
            return
        plain, fin = info
        self.lines.append("zdef %s %s %s" % (self.blob(payload), fin, self.blob(plain)))

    def op(self, s):
        self.lines.append(s)

    def text(self):
        return "\n".join(self.lines) + "\n"


# --------------------------------------------------------------------------- content generators
def gen_text(rng, n, kind=None):
    kind = kind or rng.choice(["rand", "rand", "ascii", "nul", "rep", "all", "badutf"])
    if n == 0:
        return b""
    if kind == "rand":
        return rng.randbytes(n)
    if kind == "ascii":
        unit = bytes(rng.choice(b"abcdefghij klmnopqrstuvwxyz\n") for _ in range(min(n, 512)))
        return (unit * (n // len(unit) + 1))[:n]
    if kind == "nul":
        b = bytearray(rng.randbytes(n))
        for _ in range(1 + n // 7):
            b[rng.randrange(n)] = 0
        b[-1] = 0 if rng.random() < 0.5 else b[-1]
        return bytes(b)
    if kind == "rep":
        return bytes([rng.randrange(256)]) * n
    if kind == "all":
        return (bytes(range(256)) * (n // 256 + 1))[:n]
    if kind == "badutf":
        pool = [b"\xc3\x28", b"\xa0\xa1", b"\xe2\x28\xa1", b"\xf0\x28\x8c\xbc", b"\xff\xfe", b"ok", b"\xed\xa0\x80", b"\x80"]
        s = b"".join(rng.choice(pool) for _ in range(n))
        return s[:n]
    return rng.randbytes(n)


SMALL_SIZES = [0, 1, 2, 3, 4, 5, 7, 8, 255, 256, 257, 1000, 4095, 4096, 8191, 8192, 8193]
MID_SIZES = [65535, 65536, 65537]


def pick_size(rng, big_ok=False):
    r = rng.random()
    if r < 0.55:
        return rng.choice(SMALL_SIZES)
    if r < 0.85:
        return rng.randrange(0, 600)
    if r < 0.97 or not big_ok:
        return rng.choice(MID_SIZES + [rng.randrange(8000, 70000)])
    return rng.choice([LIMIT - 4097, 300000])


# --------------------------------------------------------------------------- random scripts
def caps_msg(rng, sb, legal=None):
    """client Caps message with 0..16 size entries; mostly consistent, sometimes not"""
    legal = rng.random() < 0.75 if legal is None else legal
    nf = rng.choice([0, 1, 1, 1, 2, 3, 5, 16, rng.randrange(0, 17)])
    bits = rng.sample(range(16), nf)
    if legal and nf and 0 not in bits and rng.random() < 0.8:
        bits[0] = 0
    flags = CAPS
    for b in set(bits):
        flags |= 1 << b
    acts = rng.choice([REQUEST | NOTIFY | PROVIDE, REQUEST | PEEK | NOTIFY | PROVIDE, PROVIDE, NOTIFY, 0,
                       REQUEST | NOTIFY, rng.randrange(0, 32) << 24])
    flags |= acts & ~0 | CAPS
    if rng.random() < 0.15:
        flags |= rng.randrange(0, 256) << 16 & 0x00FF0000     # unknown bits 16..23
    nfb = bin(flags & 0xFFFF).count("1")
    nsz = nfb if legal else rng.choice([max(0, nfb - 1), nfb + 1, 0, nfb, 17])
    sizes = [rng.choice([0, 1, 5, 10, 100, 65536, LIMIT, LIMIT * 20, 0xFFFFFFFF, rng.randrange(0, 2000)]) for _ in range(nsz)]
    return cext(flags, b"".join(be32(x) for x in sizes))


def provide_msg(rng, sb, t=None, style=None):
    """client Provide message; style selects well-formed variants and the malformed families"""
    style = style or rng.choice(["fin", "sync", "fin", "sync", "short", "trunc", "size0", "nonul", "garbage",
                                 "badadler", "badblock", "multi", "notext", "extra", "toolong_rec", "empty", "flip"])
    if t is None:
        t = gen_text(rng, pick_size(rng))
    d = t + b"\0"
    flags = PROVIDE | TEXT
    if style == "fin":
        z = zlib.compress(rec(d))
    elif style == "sync":
        z = zsync(rec(d))
    elif style == "nonul":              # text without the NUL the convention asks for: still a record
        d = t if t else b"x"
        z = zlib.compress(rec(d))
    elif style == "short":              # declared size larger than the data present
        have = d[:max(1, len(d) // 2)]
        z = rng.choice([zlib.compress, zsync])(be32(len(have) + rng.choice([1, 2, 90, 5000])) + have)
    elif style == "trunc":              # valid stream cut anywhere
        full = zlib.compress(rec(d))
        z = full[:rng.randrange(0, len(full))]
    elif style == "size0":
        z = rng.choice([zlib.compress, zsync])(be32(0) + rng.choice([b"", b"tail"]))
    elif style == "garbage":
        z = rng.randbytes(rng.choice([1, 2, 3, 9, 40]))
    elif style == "badadler":
        z = stored_stream([rec(d)[:60000]], adler_ok=False)
        sb.z(z, (rec(d)[:60000], "err"))
    elif style == "badblock":
        k = rng.randrange(0, min(len(rec(d)), 300) + 1)
        z = stored_stream([rec(d)[:k]], final=False) + b"\x06"
        sb.z(z, (rec(d)[:k], "err"))
    elif style == "multi":              # several formats, one record each
        extra = rng.sample(range(1, 16), rng.choice([1, 2]))
        body = rec(d)
        for b in sorted(extra):
            flags |= 1 << b
            body += rec(gen_text(rng, rng.choice([0, 1, 9, 300])))
        if rng.random() < 0.3:
            body = body[:len(body) - rng.randrange(1, 6)]     # last record short
        z = rng.choice([zlib.compress, zsync])(body)
    elif style == "notext":             # provide of a non-text format only
        flags = PROVIDE | (1 << rng.randrange(1, 16))
        z = zlib.compress(rec(d))
    elif style == "extra":              # trailing data after the record / after the stream
        z = zlib.compress(rec(d) + b"trailing") if rng.random() < 0.5 else zlib.compress(rec(d)) + b"\x00\x01\x02"
    elif style == "toolong_rec":        # record size over the limit, data absent
        z = zlib.compress(be32(rng.choice([LIMIT + 1, 0x7FFFFFFF, 0xFFFFFFFF, 0x80000000])) + b"abc")
    elif style == "empty":
        z = b""
    else:                               # flip: random corruption of a valid stream
        full = bytearray(zlib.compress(rec(d)))
        i = rng.randrange(len(full))
        full[i] ^= 1 << rng.randrange(8)
        z = bytes(full)
    if rng.random() < 0.1:
        flags |= rng.choice([NOTIFY, PEEK, REQUEST, 1 << 20, 1 << 30])    # illegal combinations
    sb.z(z)
    return cext(flags, z)


def bad_len_msg(rng):
    """length field games: negative lengths too short for flags, huge lengths"""
    k = rng.choice(["neg1", "neg2", "neg3", "intmin", "huge", "big1", "negbig"])
    if k in ("neg1", "neg2", "neg3"):
        n = int(k[3])
        return bytes([6, 0, 0, 0]) + be32(-n) + bytes(n)
    if k == "intmin":
        return bytes([6, 0, 0, 0]) + be32(0x80000000)
    if k == "huge":
        return bytes([6, 0, 0, 0]) + be32(rng.choice([0x7FFFFFFF, 0x40000000, LIMIT * 2])) + b"xx"
    if k == "big1":
        return bytes([6, 0, 0, 0]) + be32(LIMIT + 1) + b"yy"
    return bytes([6, 0, 0, 0]) + be32(-(LIMIT + rng.choice([1, 5, 70000]))) + b"zz"


def gen_script(rng, family=None):
    sb = SB()
    family = family or rng.choice(["raw", "raw", "pop", "pop", "lib", "fsrv", "mixed"])
    cb8 = rng.random() < 0.85
    if not cb8:
        sb.op("cb8 0")
    conns = {}                                  # id -> kind (generator bookkeeping only)
    nid = 0

    wsmode = {}

    def add(kind, arg=None):
        nonlocal nid
        if nid >= 8:
            return None
        i = nid
        nid += 1
        conns[i] = kind
        if kind == "raw" and rng.random() < 0.2:          # same peer, WebSocket transport
            wsmode[i] = rng.randint(0, 1)
            sb.op("rawws %d %d" % (i, wsmode[i]))
            return i
        sb.op("%s %d%s" % (kind, i, "" if arg is None else " %d" % arg))
        return i

    if family in ("raw",):
        for _ in range(rng.choice([1, 2, 3])):
            add("raw")
    elif family == "pop":
        for _ in range(rng.choice([2, 3, 4, 5])):
            k = rng.choice(["raw", "raw", "raw", "rawpre", "lib"])
            add(k, rng.randint(0, 1) if k == "lib" else None)
    elif family == "lib":
        for _ in range(rng.choice([1, 2])):
            add("lib", 1 if rng.random() < 0.7 else 0)
        if rng.random() < 0.5:
            add("raw")
    elif family == "fsrv":
        for _ in range(rng.choice([1, 2])):
            add("fsrv", rng.choice([1, 1, 1, 1, 0, 3, 2]))
    else:
        add("raw"); add("lib", 1); add("fsrv", 1)
        if rng.random() < 0.5:
            add("rawpre")
    raws = [i for i, k in conns.items() if k == "raw"]
    for i in raws:                               # most reference peers enable the extension early
        if rng.random() < 0.6:
            sb.op("send %d %s" % (i, sb.blob(setenc([0] + [ENC_EXT] * rng.choice([1, 1, 1, 2, 3]) + [1]))))
            if rng.random() < 0.5:
                sb.op("send %d %s" % (i, sb.blob(caps_msg(rng, sb, legal=True))))
    nops = rng.choice([4, 8, 14])
    null_used = False
    for _ in range(nops):
        r = rng.random()
        ids = list(conns)
        i = rng.choice(ids)
        k = conns[i]
        if r < 0.06:
            sb.op("viewonly %d %d" % (i, rng.randint(0, 1)))
        elif r < 0.09:
            sb.op("cb8 %d" % rng.randint(0, 1))
        elif r < 0.12 and k in ("raw", "rawpre"):
            sb.op("%s %d" % (rng.choice(["close", "kill"]), i))
        elif r < 0.30:
            t = gen_text(rng, pick_size(rng))
            sb.op("pub %s" % sb.blob(t))
        elif r < 0.50:
            t = gen_text(rng, pick_size(rng))
            if rng.random() < 0.12 and not null_used:
                null_used = True
                sb.op("pub8 %s null" % sb.blob(t))
            else:
                sb.op("pub8 %s %s" % (sb.blob(t), sb.blob(gen_text(rng, rng.choice([0, 1, 5, 300]), "ascii"))))
        elif k == "raw":
            msgs = []
            for _ in range(rng.choice([1, 1, 1, 2, 3])):
                q = rng.random()
                if q < 0.25:
                    msgs.append(cct(gen_text(rng, pick_size(rng))))
                elif q < 0.55:
                    msgs.append(provide_msg(rng, sb))
                elif q < 0.67:
                    msgs.append(caps_msg(rng, sb))
                elif q < 0.77:
                    msgs.append(cext(rng.choice([REQUEST, REQUEST | TEXT, PEEK, PEEK | TEXT, NOTIFY | TEXT, NOTIFY,
                                                 REQUEST | PEEK, 0, TEXT, 1 << 29, REQUEST | (1 << 5)]),
                                     rng.choice([b"", b"", b"junk"])))
                elif q < 0.85:
                    msgs.append(setenc([rng.choice([0, 1, 2, 5, 16, ENC_EXT, ENC_EXT, 0xFFFFFF21]) for _ in range(rng.randrange(0, 5))]))
                elif q < 0.93:
                    msgs.append(bad_len_msg(rng))
                else:                         # message cut short at the end of the data: read time-out
                    m = rng.choice([cct(b"abcdefgh"), provide_msg(rng, sb, b"hello", "fin"), setenc([0, ENC_EXT])])
                    msgs.append(m[:rng.randrange(1, len(m))])
                    break
            data = b"".join(msgs)
            if len(data) > 2 and rng.random() < 0.35:
                cuts = sorted(set(rng.randrange(1, len(data)) for _ in range(rng.choice([1, 1, 2]))))
                sb.op("cuts %d s %s" % (i, ",".join(map(str, cuts))))
            if i in wsmode and len(data) > 6 and rng.random() < 0.6:
                fr = sorted(set(rng.randrange(1, len(data)) for _ in range(rng.choice([1, 2, 3]))))
                if wsmode[i]:
                    fr = sorted(set(max(3, f - f % 3) for f in fr))
                sb.op("wsfr %d %s" % (i, ",".join(map(str, fr))))
            sb.op("%s %d %s" % ("senddie" if rng.random() < 0.08 else "send", i, sb.cat(msgs) if len(msgs) > 1 else sb.blob(data)))
        elif k == "lib" and rng.random() < 0.15:
            sb.op("fbu %d" % i)
        elif k == "lib":
            t = gen_text(rng, pick_size(rng))
            if rng.random() < 0.3:
                sb.op("cuts %d s %d" % (i, rng.randrange(1, 12 + len(t) // 2 + 1)))
            sb.op("%s %d %s" % (rng.choice(["csend", "csend8", "csend8"]), i, sb.blob(t)))
        elif k == "fsrv":
            q = rng.random()
            if q < 0.25:
                t = gen_text(rng, pick_size(rng))
                sb.op("%s %d %s" % (rng.choice(["csend", "csend8"]), i, sb.blob(t)))
            else:
                msgs, eof = [], False
                for _ in range(rng.choice([1, 1, 2, 3])):
                    q = rng.random()
                    if q < 0.2:
                        msgs.append(sext(rng.choice([0x17000001, CAPS | PROVIDE | TEXT, CAPS | TEXT, CAPS | PROVIDE, CAPS | PROVIDE | TEXT | REQUEST]),
                                         rng.choice([be32(LIMIT), b"", be32(5) + be32(6)])))
                    elif q < 0.4:
                        msgs.append(sct(gen_text(rng, pick_size(rng))))
                    elif q < 0.75:
                        m = provide_msg(rng, sb)
                        msgs.append(bytes([3]) + m[1:])
                    elif q < 0.8:
                        msgs.append(bytes([2]))
                    elif q < 0.88:
                        msgs.append(sext(rng.choice([NOTIFY | TEXT, REQUEST | TEXT, PEEK, 0, TEXT, PROVIDE]), rng.choice([b"", b"jk"])))
                    elif q < 0.94:
                        b = bad_len_msg(rng)
                        if b[4:8] == be32(0x80000000) and rng.random() < 0.7:
                            b = bytes([6, 0, 0, 0]) + be32(-2) + b"ab"      # INT_MIN only sometimes (known finding)
                        msgs.append(bytes([3]) + b[1:])
                    else:
                        m = rng.choice([sct(b"abcdefgh"), sext(PROVIDE | TEXT, zlib.compress(rec(b"hello\0")))])
                        msgs.append(m[:rng.randrange(1, len(m))])
                        eof = True
                        break
                data = b"".join(msgs)
                if len(data) > 2 and rng.random() < 0.35:
                    sb.op("cuts %d c %d" % (i, rng.randrange(1, len(data))))
                for m in msgs:
                    if m[:1] == b"\x03" and len(m) >= 12 and m[4] & 0x80:
                        sb.z(m[12:])
                sb.op("fsend %d %s%s" % (i, sb.cat(msgs) if len(msgs) > 1 else sb.blob(data), " eof" if eof else ""))
        else:
            t = gen_text(rng, pick_size(rng))
            sb.op("pub %s" % sb.blob(t))
    # end with a publish so that the survivors show they still work
    t = gen_text(rng, rng.choice([0, 3, 40]))
    sb.op("pub %s" % sb.blob(t))
    return sb


# --------------------------------------------------------------------------- directed boundary scripts
def directed(tier):
    """exact limits (limit-1, limit, limit+1) of message length, record size, unsolicited size"""
    out = []
    A = lambda n: b"a" * n

    def s_raw_classic():
        sb = SB()
        sb.op("raw 0"); sb.op("raw 1")
        for n in (LIMIT - 1, LIMIT):
            sb.op("send 0 %s" % sb.cat([bytes([6, 0, 0, 0]) + be32(n), A(n - 1) + b"z"]))
        sb.op("send 0 %s" % sb.cat([bytes([6, 0, 0, 0]) + be32(LIMIT + 1), A(LIMIT) + b"z"]))
        sb.op("send 1 %s" % sb.blob(cct(b"still here")))
        return sb

    def s_raw_extlen():
        sb = SB()
        sb.op("raw 0"); sb.op("raw 1")
        for i in (0, 1):
            sb.op("send %d %s" % (i, sb.blob(setenc([ENC_EXT]))))
        z0 = zlib.compress(rec(b"edge\0"))
        for i, n in ((0, LIMIT), (1, LIMIT + 1)):       # n = 4 + payload
            z = z0 + bytes(n - 4 - len(z0))             # padding after the end of the zlib stream
            sb.z(z)
            sb.op("send %d %s" % (i, sb.blob(cext(PROVIDE | TEXT, z))))
        sb.op("pub %s" % sb.blob(b"after"))
        return sb

    def s_raw_recsize():
        sb = SB()
        sb.op("raw 0"); sb.op("raw 1"); sb.op("raw 2")
        for i in (0, 1, 2):
            sb.op("send %d %s" % (i, sb.blob(setenc([ENC_EXT]))))
        for i, n in ((0, LIMIT - 1), (0, LIMIT), (1, LIMIT + 1)):
            d = A(n - 1) + b"\0"
            z = zlib.compress(rec(d)) if i == 0 else zsync(rec(d))
            sb.z(z)
            sb.op("send %d %s" % (i, sb.blob(cext(PROVIDE | TEXT, z))))
        rnd = bytes((i * 2654435761 >> 7) & 255 for i in range(200000))
        z = zsync(rec(rnd + b"\0"))
        sb.z(z)
        sb.op("cuts 2 s 9,4000")
        sb.op("send 2 %s" % sb.blob(cext(PROVIDE | TEXT, z)))
        sb.op("pub %s" % sb.blob(b"after"))
        return sb

    def s_unsolicited():
        sb = SB()
        sb.op("raw 0"); sb.op("raw 1"); sb.op("raw 2"); sb.op("rawpre 3")
        for i in (0, 1):
            sb.op("send %d %s" % (i, sb.blob(setenc([ENC_EXT]))))
        sb.op("send 0 %s" % sb.blob(cext(CAPS | TEXT | REQUEST | NOTIFY | PROVIDE, be32(10))))
        sb.op("send 1 %s" % sb.blob(cext(CAPS | TEXT | REQUEST | PROVIDE, be32(10))))      # no notify
        for n in (9, 10, 11):
            sb.op("pub8 %s %s" % (sb.blob(A(n)), sb.blob(b"fb%d" % n)))
            sb.op("send 0 %s" % sb.blob(cext(REQUEST | TEXT)))
            sb.op("send 1 %s" % sb.blob(cext(PEEK | TEXT) + cext(REQUEST | TEXT)))
        sb.op("send 0 %s" % sb.blob(cext(CAPS | TEXT | NOTIFY, be32(0xFFFFFFFF))))          # no provide cap
        sb.op("pub8 %s %s" % (sb.blob(b"xyz"), sb.blob(b"fb")))
        sb.op("send 0 %s" % sb.blob(cext(REQUEST | TEXT)))
        sb.op("send 0 %s" % sb.blob(cext(CAPS | TEXT | PROVIDE, be32(0))))
        sb.op("pub8 %s %s" % (sb.blob(b""), sb.blob(b"")))
        sb.op("pub8 %s %s" % (sb.blob(b"q"), sb.blob(b"Q")))
        return sb

    def s_pub_big():
        sb = SB()
        sb.op("raw 0"); sb.op("raw 1"); sb.op("lib 2 1"); sb.op("lib 3 0")
        sb.op("send 0 %s" % sb.blob(setenc([ENC_EXT])))
        for n in (LIMIT - SLACK, LIMIT + 64):
            t = (bytes(range(256)) * (n // 256 + 1))[:n]
            sb.op("pub %s" % sb.blob(t))
            sb.op("pub8 %s %s" % (sb.blob(t), sb.blob(t[:n // 2])))
        return sb

    def s_fsrv_limits():
        sb = SB()
        for i in range(6):
            sb.op("fsrv %d 1" % i)
        sb.op("fsend 0 %s" % sb.cat([bytes([3, 0, 0, 0]) + be32(LIMIT), A(LIMIT)]))
        sb.op("fsend 0 %s" % sb.cat([bytes([3, 0, 0, 0]) + be32(LIMIT + 1), A(LIMIT + 1)]))
        z0 = zlib.compress(rec(b"edge\0"))
        for i, n in ((1, LIMIT), (2, LIMIT + 1)):
            z = z0 + bytes(n - 4 - len(z0))
            sb.z(z)
            sb.op("fsend %d %s" % (i, sb.blob(sext(PROVIDE | TEXT, z))))
        for i, n in ((3, LIMIT), (4, LIMIT + 1)):
            z = zlib.compress(rec(A(n - 1) + b"\0"))
            sb.z(z)
            sb.op("fsend %d %s" % (i, sb.blob(sext(PROVIDE | TEXT, z))))
        sb.op("fsend 5 %s" % sb.blob(sext(0x17000001, be32(LIMIT))))
        sb.op("cuts 5 c 13")
        sb.op("csend8 5 %s" % sb.blob(A(LIMIT - 1)))
        sb.op("csend 5 %s" % sb.blob(A(LIMIT)))
        sb.op("fsend 5 %s" % sb.blob(bytes([3, 0, 0, 0]) + be32(0x80000001) + b"xx"))
        return sb

    def s_lib_limits():
        sb = SB()
        for i in range(4):
            sb.op("lib %d 1" % i)
        sb.op("raw 4")
        sb.op("csend 0 %s" % sb.blob(A(LIMIT)))
        sb.op("csend 0 %s" % sb.blob(A(LIMIT + 1)))
        sb.op("csend8 1 %s" % sb.blob(A(LIMIT - SLACK)))
        sb.op("csend8 1 %s" % sb.blob(A(LIMIT)))
        sb.op("pub8 %s %s" % (sb.blob(A(LIMIT)), sb.blob(b"fb")))      # record LIMIT+1: clients 2,3 give up
        sb.op("pub %s" % sb.blob(b"end"))
        return sb

    def s_lib_near(kind):
        """inside (LIMIT-SLACK, LIMIT): the compressed size decides; oracle only (not model-compared)"""
        sb = SB()
        sb.exact = False
        sb.op("lib 0 1"); sb.op("lib 1 1"); sb.op("raw 2")
        t = A(LIMIT - 1) if kind == "rep" else gen_text(__import__("random").Random(7), LIMIT - 1, "rand")
        sb.op("csend8 0 %s" % sb.blob(t))
        sb.op("pub8 %s %s" % (sb.blob(t[:LIMIT - 2]), sb.blob(b"fb")))
        sb.op("pub %s" % sb.blob(b"end"))
        return sb

    def s_caps_lengths(cases):
        """Caps messages whose size array is shorter / exact / longer than the number of format bits"""
        sb = SB()
        for i in range(len(cases)):
            sb.op("raw %d" % i)
            sb.op("send %d %s" % (i, sb.blob(setenc([ENC_EXT]))))
        for i, (nf, delta, acts) in enumerate(cases):
            flags = CAPS | acts
            for b in range(nf):
                flags |= 1 << b
            sizes = [100 + j for j in range(max(0, nf + delta))]
            sb.op("send %d %s" % (i, sb.blob(cext(flags, b"".join(be32(x) for x in sizes)))))
            sb.op("pub8 %s %s" % (sb.blob(b"t%d" % i), sb.blob(b"f")))
        return sb

    def s_seg_server():
        """every 1-cut segmentation of a stream of five messages (server side reads)"""
        sb = SB()
        sb.op("raw 0"); sb.op("raw 1")
        sb.op("send 0 %s" % sb.blob(setenc([ENC_EXT])))
        sb.op("pub8 %s %s" % (sb.blob(b"cached \xc3\xa9"), sb.blob(b"cached ?")))
        z = zsync(rec(b"h\xc3\xa9llo\0w\xff\0"))
        sb.z(z)
        msgs = [setenc([0, ENC_EXT]), cext(CAPS | TEXT | REQUEST | NOTIFY | PROVIDE, be32(100)), cct(b"hel\0lo"),
                cext(PROVIDE | TEXT, z), cext(REQUEST | TEXT), cext(PEEK | TEXT)]
        name = sb.cat(msgs)
        total = sum(len(m) for m in msgs)
        for c in range(1, total):
            sb.op("cuts 0 s %d" % c)
            sb.op("send 0 %s" % name)
        return sb

    def s_seg_client():
        """every 1-cut segmentation of a stream of five messages (client library reads)"""
        sb = SB()
        sb.op("fsrv 0 1")
        z = zlib.compress(rec(b"h\xc3\xa9llo\0w\xff\0"))
        sb.z(z)
        msgs = [sext(0x17000001, be32(LIMIT)), sct(b"hel\0lo"), sext(PROVIDE | TEXT, z), bytes([2]),
                sext(NOTIFY | TEXT), sct(b"")]
        name = sb.cat(msgs)
        total = sum(len(m) for m in msgs)
        for c in range(1, total):
            sb.op("cuts 0 c %d" % c)
            sb.op("fsend 0 %s" % name)
        return sb

    def s_request_reply(texts, name_seed):
        """publish -> every extended client asks (Request, Peek): the replies carry the cached text
        byte-exact; before any publish and with capabilities that forbid it nothing is sent"""
        sb = SB()
        sb.op("raw 0"); sb.op("raw 1"); sb.op("raw 2"); sb.op("raw 3")
        for i in (0, 1, 2):
            sb.op("send %d %s" % (i, sb.blob(setenc([ENC_EXT]))))
        req, peek = cext(REQUEST | TEXT), cext(PEEK | TEXT)
        for i in (0, 1, 2):                                    # empty clipboard: silently ignored
            sb.op("send %d %s" % (i, sb.blob(req + peek)))
        sb.op("send 1 %s" % sb.blob(cext(CAPS | TEXT | REQUEST | PROVIDE, be32(5))))      # provide yes, notify no, max 5
        sb.op("send 2 %s" % sb.blob(cext(CAPS | TEXT | REQUEST | NOTIFY, be32(0xFFFFFFFF))))  # notify yes, provide no
        for t in texts:
            sb.op("pub8 %s %s" % (sb.blob(t), sb.blob(b"fb")))
            for i in (0, 1, 2):
                sb.op("send %d %s" % (i, sb.blob(req)))
                sb.op("send %d %s" % (i, sb.blob(peek)))
            sb.op("send 0 %s" % sb.blob(req + req + peek))       # asked twice in one read
        sb.op("send 3 %s" % sb.blob(cct(b"classic still served")))
        return sb

    rnd64k = bytes((i * 2654435761 >> 11) & 255 for i in range(65536))

    def s_broadcast_dead():
        """one of several clients dead in the middle of a broadcast (write fails): the others get
        their message, the dead one is closed; all four write paths (classic publish, fallback,
        provide, notify) + a client to which nothing is written + one still in the handshake"""
        sb = SB()
        for i in range(12):
            sb.op("raw %d" % i)
        sb.op("rawpre 12"); sb.op("raw 13")
        for i in (6, 7, 8, 9, 10, 11, 13):
            sb.op("send %d %s" % (i, sb.blob(setenc([ENC_EXT]))))
        for i in (9, 10, 11):
            sb.op("send %d %s" % (i, sb.blob(cext(CAPS | TEXT | NOTIFY | PROVIDE, be32(2)))))   # small limit: notify
        sb.op("send 13 %s" % sb.blob(cext(CAPS | TEXT | REQUEST, be32(100))))                    # neither: nothing written
        sb.op("kill 1"); sb.op("pub %s" % sb.blob(b"classic broadcast"))
        sb.op("kill 4"); sb.op("pub8 %s %s" % (sb.blob(b"utf8 text"), sb.blob(b"latin1 text")))
        sb.op("kill 7"); sb.op("pub8 %s %s" % (sb.blob(b"ab"), sb.blob(b"AB")))                  # 6,7,8 provide; 9..11 provide (len 2 <= 2)
        sb.op("kill 10"); sb.op("kill 13"); sb.op("kill 12")
        sb.op("pub8 %s %s" % (sb.blob(b"longer than two"), sb.blob(b"fallback")))               # 9,11 notify; 10 fails; 13 silent; 12 skipped
        sb.op("pub %s" % sb.blob(b"survivors"))
        sb.op("send 11 %s" % sb.blob(cext(REQUEST | TEXT)))
        return sb

    def s_senddie():
        """the sender vanishes right after writing: replies of the input handler cannot be written"""
        sb = SB()
        for i in range(7):
            sb.op("raw %d" % i)
        for i in range(5):
            sb.op("send %d %s" % (i, sb.blob(setenc([ENC_EXT]))))
        sb.op("pub8 %s %s" % (sb.blob(b"cached text"), sb.blob(b"fb")))
        z = zsync(rec(b"from the dying\0"))
        sb.z(z)
        sb.op("senddie 0 %s" % sb.blob(cext(REQUEST | TEXT)))
        sb.op("senddie 1 %s" % sb.blob(cext(PEEK | TEXT)))
        sb.op("senddie 2 %s" % sb.blob(cct(b"first") + cext(REQUEST | TEXT) + cct(b"never seen")))
        sb.op("senddie 3 %s" % sb.blob(cext(PROVIDE | TEXT, z) + cct(b"second")))       # no reply due: both delivered
        sb.op("senddie 5 %s" % sb.blob(setenc([0, ENC_EXT, ENC_EXT])))                   # capability message cannot be written
        sb.op("senddie 6 %s" % sb.blob(cct(b"bye")))
        sb.op("pub8 %s %s" % (sb.blob(b"after"), sb.blob(b"AFTER")))
        sb.op("send 4 %s" % sb.blob(cext(REQUEST | TEXT)))
        return sb

    def s_provide_variants():
        """record loop: several formats, text absent, two provides in one read, callback not
        installed, zero-size records in both stream styles, missing NUL, trailing data"""
        sb = SB()
        for i in range(10):
            sb.op("raw %d" % i)
            sb.op("send %d %s" % (i, sb.blob(setenc([ENC_EXT]))))

        def P(flags, plain, comp=zlib.compress):
            z = comp(plain)
            sb.z(z)
            return cext(flags, z)
        T = rec(b"text\0")
        sb.op("send 0 %s" % sb.blob(P(PROVIDE | TEXT | 2 | 4, T + rec(b"{\\rtf}") + rec(b"<b>html</b>"))))
        sb.op("send 0 %s" % sb.blob(P(PROVIDE | TEXT | 2 | 4, T + rec(b"{\\rtf}") + rec(b"<b>html</b>"), zsync)))
        sb.op("send 0 %s" % sb.blob(P(PROVIDE | 2, rec(b"rtf only"))))
        sb.op("send 0 %s" % sb.blob(P(PROVIDE | TEXT, rec(b"one\0")) + P(PROVIDE | TEXT, rec(b"two\0"), zsync)))
        sb.op("send 0 %s" % sb.blob(P(PROVIDE | TEXT, rec(b"no nul"))))
        sb.op("send 0 %s" % sb.blob(P(PROVIDE | TEXT, T + b"trailing")))
        sb.op("send 0 %s" % sb.blob(P(PROVIDE | TEXT | (1 << 15), T + rec(b"x" * 300))))
        sb.op("viewonly 0 1")
        sb.op("send 0 %s" % sb.blob(P(PROVIDE | TEXT, T)))
        sb.op("cb8 0")
        sb.op("send 1 %s" % sb.blob(P(PROVIDE | TEXT, T)))              # hook not installed: accepted, not delivered
        sb.op("cb8 1")
        sb.op("send 1 %s" % sb.blob(P(PROVIDE | TEXT, T)))
        sb.op("send 2 %s" % sb.blob(P(PROVIDE | TEXT, be32(0))))                     # compress()-style, size 0
        sb.op("send 3 %s" % sb.blob(P(PROVIDE | TEXT, be32(0), zsync)))              # sync-flushed, size 0
        sb.op("send 4 %s" % sb.blob(P(PROVIDE | TEXT, be32(0) + b"tail")))
        sb.op("send 5 %s" % sb.blob(P(PROVIDE | TEXT | 2, T + rec(b"short")[:-2])))  # text delivered, second record short
        sb.op("send 6 %s" % sb.blob(P(PROVIDE | TEXT | 2, T + be32(LIMIT + 1) + b"x")))
        sb.op("raw 10"); sb.op("raw 11")
        for i in (10, 11):
            sb.op("send %d %s" % (i, sb.blob(setenc([ENC_EXT]))))
        sb.op("send 10 %s" % sb.blob(P(PROVIDE | TEXT | 2, T)))              # second format announced, stream ends after the text
        sb.op("send 11 %s" % sb.blob(P(PROVIDE | TEXT | 2, T, zsync)))
        sb.op("send 7 %s" % sb.blob(P(PROVIDE | TEXT, be32(1) + b"\0")))            # smallest legal record
        sb.op("send 8 %s" % sb.blob(cext(PROVIDE)))                                   # no format bit, no payload
        sb.op("send 9 %s" % sb.blob(cext(PROVIDE | TEXT)))                            # text bit, empty payload
        sb.op("pub %s" % sb.blob(b"end"))
        return sb

    def s_fsrv_variants():
        """client library: first-inflate failures, callbacks not installed"""
        sb = SB()
        for i, a in enumerate([1, 1, 1, 1, 1, 3, 2, 0]):
            sb.op("fsrv %d %d" % (i, a))

        def P(flags, z):
            sb.z(z)
            return sext(flags, z)
        sb.op("fsend 0 %s" % sb.blob(P(PROVIDE | TEXT, zlib.compress(be32(0)))))            # size 0, stream ends
        sb.op("fsend 1 %s" % sb.blob(P(PROVIDE | TEXT, b"\x00\x01garbage")))
        sb.op("fsend 2 %s" % sb.blob(sext(PROVIDE | TEXT)))                                  # empty payload
        sb.op("fsend 3 %s" % sb.blob(P(PROVIDE | TEXT, zlib.compress(b"\x00\x00"))))       # two bytes only
        sb.op("fsend 4 %s" % sb.blob(P(PROVIDE | TEXT, zsync(be32(0)))))
        sb.op("fsend 5 %s" % sb.blob(sct(b"nobody listens") + P(PROVIDE | TEXT, zlib.compress(rec(b"utf8 ok\0")))))
        sb.op("fsend 6 %s" % sb.blob(sct(b"nobody listens") + sct(b"")))
        sb.op("fsend 7 %s" % sb.blob(sct(b"classic only")))
        sb.op("csend 6 %s" % sb.blob(b"out"))
        return sb

    def s_stalled():
        """a client that stopped reading behind a full pipe: a large message is written in part, the
        write times out -> that client is closed (classic body write, provide, fallback body write),
        everybody else is served"""
        sb = SB()
        for i in range(5):
            sb.op("raw %d" % i)
        for i in (2, 3):
            sb.op("send %d %s" % (i, sb.blob(setenc([ENC_EXT]))))
        rr = __import__("random").Random(18)
        big1, big2 = rr.randbytes(200000), rr.randbytes(150000)      # incompressible: the provide is large too
        sb.op("stall 1"); sb.op("pub %s" % sb.blob(big1))
        sb.op("stall 2"); sb.op("pub8 %s %s" % (sb.blob(big1), sb.blob(big2)))
        sb.op("stall 0"); sb.op("pub8 %s %s" % (sb.blob(big2), sb.blob(big1)))
        sb.op("pub %s" % sb.blob(b"the rest is fine"))
        sb.op("send 3 %s" % sb.blob(cext(REQUEST | TEXT)))
        return sb

    def s_ws_limits():
        """classic and extended cut text at the exact limit through the WebSocket transport: the whole
        RFB message (8 + text) in ONE frame, split over frames, binary and base64 sub-protocol"""
        sb = SB()
        sb.op("rawws 0 0"); sb.op("rawws 1 0"); sb.op("rawws 2 1"); sb.op("rawws 3 1"); sb.op("rawws 4 0"); sb.op("raw 5")
        base = A(LIMIT - 8)

        def classic(n):
            return sb.cat([bytes([6, 0, 0, 0]) + be32(n), base, A(n - (LIMIT - 8))])
        for n in (LIMIT - 8, LIMIT - 7, LIMIT):                    # one frame each: payload LIMIT, LIMIT+1, LIMIT+8
            sb.op("send 0 %s" % classic(n))
        sb.op("wsfr 1 5,700000")
        sb.op("send 1 %s" % classic(LIMIT))
        sb.op("wsfr 1 8")
        sb.op("send 1 %s" % classic(LIMIT - 3))
        n64 = (LIMIT * 3) // 4 - 8                                 # base64 payload reaches 1 MiB here
        for n in (n64 - 3, n64 + 1, LIMIT):
            sb.op("send 2 %s" % sb.cat([bytes([6, 0, 0, 0]) + be32(n), A(n)]))
        sb.op("wsfr 3 3,300000,900000")
        sb.op("send 3 %s" % classic(LIMIT))
        sb.op("send 4 %s" % sb.blob(setenc([ENC_EXT])))
        z0 = zlib.compress(rec(b"edge\0"))
        z = z0 + bytes(LIMIT - 4 - len(z0))
        sb.z(z)
        sb.op("send 4 %s" % sb.blob(cext(PROVIDE | TEXT, z)))      # extended message of exactly LIMIT bytes, one frame
        sb.op("send 0 %s" % sb.cat([bytes([6, 0, 0, 0]) + be32(LIMIT + 1), base, A(9)]))   # over the limit: closed
        sb.op("pub %s" % sb.blob(b"to everybody"))
        sb.op("pub8 %s %s" % (sb.blob(bytes(range(256)) * 300), sb.blob(b"fb")))
        sb.op("send 4 %s" % sb.blob(cext(REQUEST | TEXT)))
        return sb

    def s_viewer_granted():
        """a LibVNCClient viewer that is view-only when its first framebuffer update (with the
        SupportedMessages pseudo-rectangle) goes out and is granted input later must still deliver
        its clipboard; the advertised list does not depend on the momentary permission"""
        sb = SB()
        sb.op("lib 0 1"); sb.op("fbu 0")
        sb.op("csend 0 %s" % sb.blob(b"from the start"))
        sb.op("lib 1 1"); sb.op("viewonly 1 1"); sb.op("fbu 1")
        sb.op("csend 1 %s" % sb.blob(b"not yet allowed"))
        sb.op("viewonly 1 0")
        sb.op("csend 1 %s" % sb.blob(b"granted now \xe9\x00!"))
        sb.op("csend8 1 %s" % sb.blob(b"granted utf8 \xc3\xa9"))
        sb.op("lib 2 0"); sb.op("viewonly 2 1"); sb.op("fbu 2"); sb.op("fbu 2"); sb.op("viewonly 2 0")
        sb.op("csend 2 %s" % sb.blob(bytes(range(256))))
        sb.op("pub %s" % sb.blob(b"and back"))
        return sb

    out += [("stalled-client", s_stalled()), ("ws-limits", s_ws_limits()), ("viewer-granted-later", s_viewer_granted())]
    out += [("request-reply", s_request_reply([b"", b"x", b"hello", b"12345", b"123456", bytes(range(256)), rnd64k], 1)),
            ("request-reply-limits", s_request_reply([A(LIMIT - 2), A(LIMIT - 1), A(LIMIT)], 2)),
            ("broadcast-dead-client", s_broadcast_dead()), ("sender-vanishes", s_senddie()),
            ("provide-variants", s_provide_variants()), ("fsrv-variants", s_fsrv_variants())]
    out += [("seg-all-1cut-server", s_seg_server()), ("seg-all-1cut-client", s_seg_client())]
    out += [("caps-lengths-a", s_caps_lengths([(1, 0, PROVIDE | NOTIFY), (1, 1, PROVIDE), (1, -1, PROVIDE), (2, 1, NOTIFY),
                                               (2, -1, NOTIFY), (16, 0, REQUEST | PROVIDE), (16, 1, PROVIDE), (16, -1, PROVIDE)])),
            ("caps-lengths-b", s_caps_lengths([(0, 0, PROVIDE), (0, 2, PROVIDE), (3, 0, 0), (5, 3, PROVIDE), (5, -5, PROVIDE),
                                               (7, 0, PEEK | NOTIFY | PROVIDE | REQUEST), (1, 16, PROVIDE), (4, 0, NOTIFY)]))]
    out += [("raw-classic-limit", s_raw_classic()), ("raw-ext-msglen-limit", s_raw_extlen()),
            ("raw-record-limit", s_raw_recsize()), ("unsolicited-limit", s_unsolicited()),
            ("fsrv-limits", s_fsrv_limits()), ("lib-limits", s_lib_limits())]
    if tier == "thorough":
        out += [("pub-big", s_pub_big()), ("lib-near-rep", s_lib_near("rep")), ("lib-near-rand", s_lib_near("rand"))]
    else:
        out += [("lib-near-rep", s_lib_near("rep"))]
    return out


# --------------------------------------------------------------------------- the direct oracle
class Spec:
    """Direct property oracle: walks a script and the IMPLEMENTATION's observations and checks what
    the property's words demand — bytes delivered == bytes sent (length + FNV-64), the right
    clients get the right form, oversized/malformed input closes the offender and nobody else.
    It does not use the Lean model.  Where the protocol leaves the outcome open (several action
    bits in one flag word, zero-size records, texts over 1 MiB, streams whose error position is
    zlib-internal) it accepts either outcome and re-synchronises from the reported state."""

    def __init__(self):
        self.blobs = {}
        self.kind = {}
        self.utf8 = {}
        self.cb8 = True
        self.view = {}
        self.open = set()          # ids whose connection is (still) expected open
        self.dying = set()         # peers that closed without the server having had a chance to notice
        self.stalled = set()       # peers that stopped reading behind a tiny pipe (large writes fail half-way)
        self.nol1 = {}
        self.state = {}            # id -> (ext, usercap, maxunsol, dsz, dfnv) as last reported
        self.ccaps = {}            # client-library capability word as last reported
        self.null_with_classic = False

    # ---- observation parsing
    @staticmethod
    def parse(obs):
        parts = [q.strip() for q in obs.split("|")]
        if len(parts) < 2:
            return None
        evs = [] if parts[0] == "-" else parts[0].split(" ")
        x = parts[1][2:] if parts[1].startswith("x:") else ""
        closed = set() if x.strip() in ("-", "") else set(int(v) for v in x.strip().split(","))
        st, cc = {}, {}
        for tok in (parts[2].split() if len(parts) > 2 else []):
            k, v = tok.split("=")
            if k[0] == "s":
                f = v.split(",")
                st[int(k[1:])] = (int(f[0]), int(f[1], 16), int(f[2]), int(f[3]), f[4])
            else:
                cc[int(k[1:])] = int(v, 16)
        return evs, closed, st, cc

    def fail(self, msg):
        return msg

    # ---- expected server treatment of client bytes (reference peer or library client)
    def srv_expect(self, i, data, pre):
        """-> (list of expected cb events or None where open, expected tx message list or None,
               must_close: True/False/None(unknown), strict post-state or None)"""
        ext, ucap, maxu, dsz, dfnv = pre
        cache_known = None      # bytes of the cache if we know them (set by pub8 in this script)
        cbs, tx, strict = [], [], True
        must_close = False
        off = 0
        view = self.view.get(i, 0)
        while off < len(data):
            t = data[off]
            if t == 2:
                if len(data) - off < 4:
                    must_close = True; break
                n = struct.unpack(">H", data[off + 2:off + 4])[0]
                if len(data) - off < 4 + 4 * n:
                    must_close = True; break
                k = sum(1 for j in range(n) if data[off + 4 + 4 * j:off + 8 + 4 * j] == be32(ENC_EXT))
                if self.cb8 and k:
                    ext = 1
                    tx += ["caps"] * k
                off += 4 + 4 * n
                continue
            if t != 6:
                return None
            if len(data) - off < 8:
                must_close = True; break
            lf = struct.unpack(">I", data[off + 4:off + 8])[0]
            if ext and lf & 0x80000000:
                n = (-lf) & 0xFFFFFFFF
                if n > LIMIT:
                    must_close = True; break
                if len(data) - off - 8 < n:
                    must_close = True; break
                body = data[off + 8:off + 8 + n]
                off += 8 + n
                if n < 4:
                    must_close = True; break
                flags = struct.unpack(">I", body[:4])[0]
                nact = sum(1 for a in ACTIONS if flags & a)
                if nact > 1 and not (flags & CAPS):
                    strict = False; cbs.append(None); tx.append(None); must_close = None
                    break
                if flags & CAPS:
                    ucap = flags
                    nf = bin(flags & 0xFFFF).count("1")
                    if nf == 0:
                        ext = 0
                    elif n != 4 + 4 * nf:
                        must_close = True; break
                    elif flags & TEXT:
                        maxu = struct.unpack(">I", body[4:8])[0]
                    else:
                        ext = 0
                elif flags & REQUEST:
                    if (ucap & PROVIDE) and dsz > 0:
                        tx.append(("prv-cache", dsz, dfnv))
                elif flags & PEEK:
                    if (ucap & NOTIFY) and dsz > 0:
                        tx.append("notify")
                elif flags & PROVIDE:
                    z = body[4:]
                    info = zinfo(z)
                    bits = [b for b in range(16) if flags >> b & 1]
                    if info is None:
                        strict = False; cbs.append(None); must_close = None
                        break
                    plain, fin = info
                    if not bits:
                        continue
                    pos, ok_all, delivered = 0, True, False
                    for b in bits:
                        if len(plain) - pos < 4:
                            ok_all = False; break
                        sz = struct.unpack(">I", plain[pos:pos + 4])[0]
                        if sz > LIMIT or len(plain) - pos - 4 < sz:
                            ok_all = False; break
                        if sz == 0:
                            ok_all = None; break
                        if b == 0:
                            if self.cb8 and not view:
                                cbs.append("cb%d:u8:%d:%s" % (i, sz, fnvc(plain[pos + 4:pos + 4 + sz])))
                            delivered = True
                        pos += 4 + sz
                    if ok_all is None:
                        strict = False; must_close = None; cbs.append(None)
                        break
                    if not ok_all:
                        must_close = True; break
                # Notify / no action: ignored
                continue
            # classic
            if lf > LIMIT:
                must_close = True; break
            if len(data) - off - 8 < lf:
                must_close = True; break
            body = data[off + 8:off + 8 + lf]
            off += 8 + lf
            if not view:
                cbs.append("cb%d:l1:%d:%s" % (i, lf, fnvc(body)))
        post = (ext, ucap, maxu) if strict and must_close is False else None
        return cbs, tx, must_close, post

    # ---- expected LibVNCClient treatment of server bytes
    def cli_expect(self, i, data, caps, eof):
        utf8 = self.utf8[i]
        evs, drop, strict = [], False, True
        off = 0
        while off < len(data):
            t = data[off]
            if t == 2:
                off += 1; continue
            if t != 3:
                return None
            if len(data) - off < 8:
                drop = True; break
            lf = struct.unpack(">I", data[off + 4:off + 8])[0]
            neg = bool(lf & 0x80000000)
            n = ((-lf) & 0xFFFFFFFF) if neg else lf
            if n > LIMIT:
                drop = True; break
            if len(data) - off - 8 < n:
                drop = True; break
            body = data[off + 8:off + 8 + n]
            off += 8 + n
            if neg and not utf8:
                strict = False; evs.append(None); break      # not negotiated: outcome open
            if not neg:
                if not self.nol1.get(i):
                    evs.append("ccb%d:l1:%d:%s" % (i, n, fnvc(body)))
                continue
            if n < 4:
                drop = True; break
            flags = struct.unpack(">I", body[:4])[0]
            if not flags & TEXT or not flags & PROVIDE:
                continue
            if flags & CAPS:
                caps |= TEXT
                continue
            info = zinfo(body[4:])
            if info is None:
                strict = False; evs.append(None); break
            plain, fin = info
            if len(plain) < 4:
                drop = True; break
            sz = struct.unpack(">I", plain[:4])[0]
            if sz > LIMIT or len(plain) - 4 < sz:
                drop = True; break
            if sz == 0 or len(plain) == 4 + sz and fin == "end" and sz + 4 <= 4:
                strict = False; evs.append(None); break
            evs.append("ccb%d:u8:%d:%s" % (i, sz, fnvc(plain[4:4 + sz])))
        if eof:
            drop = True
        return evs, drop, caps, strict

    # ---- one op
    def step(self, line, obs):
        t = line.split()
        if not t or t[0].startswith("#"):
            return None
        if t[0] == "def":
            if t[2] == "hex":
                self.blobs[t[1]] = b"" if t[3] == "-" else bytes.fromhex(t[3])
            else:
                self.blobs[t[1]] = b"".join(self.blobs[x] for x in t[3:])
            return None if obs == "ok" else "def answered %r" % obs
        if t[0] in ("zdef", "cuts", "wsfr"):
            return None if obs == "ok" else "%s answered %r" % (t[0], obs)
        if obs == "HANG":
            return "HANG: the call did not return (op %r)" % line
        if obs in ("bad-op", "setup-failed"):
            return None if obs == "bad-op" else "setup failed: " + line
        p = self.parse(obs)
        if p is None:
            return "unparsable observation %r" % obs
        evs, closed, st, cc = p
        prev_state, prev_open = dict(self.state), set(self.open)
        err = None
        if t[0] != "kill" and self.dying:
            # the op ended with a round of the server's event loop: a vanished peer must be closed
            # by now (failed write or read of 0 bytes) - and that is all that may happen to it
            for j in sorted(self.dying):
                if j not in closed:
                    err = "peer of connection %d is gone but the server still keeps the connection" % j
            prev_open -= self.dying
            self.dying = set()
        err = err or self._check(t, evs, closed, st, cc, prev_state, prev_open)
        # re-synchronise with what the implementation reports
        self.state = st
        self.ccaps = dict(self.ccaps)
        self.ccaps.update(cc)
        self.open = set(i for i in self.kind if i not in closed)
        return err

    def _check(self, t, evs, closed, st, cc, prev_state, prev_open):
        op = t[0]
        tx = {}
        for e in evs:
            if e.startswith("tx") or e.startswith("ctx"):
                k, v = e.split(":", 1)
                tx[k] = v[1:-1].split(",") if v != "[]" else []
        plain = [e for e in evs if not (e.startswith("tx") or e.startswith("ctx"))]
        newly_closed = set(i for i in closed if i in prev_open)

        def others_untouched(i):
            for j in prev_open:
                if j == i:
                    continue
                if j in closed:
                    return "connection %d closed although only %d was involved" % (j, i)
                if j in prev_state and st.get(j) != prev_state[j]:
                    return "clipboard state of connection %d changed (%r -> %r) by traffic of %d" % (j, prev_state[j], st.get(j), i)
            for e in plain:
                if e.startswith("cb") and not e.startswith("cb%d:" % i):
                    return "callback attributed to another client: %s" % e
            return None

        if op in ("raw", "rawpre", "lib", "fsrv", "rawws"):
            i = int(t[1])
            if op == "rawws":          # the transport is transparent: same expectations as a plain reference peer
                op = "raw"
                t = [op, t[1]]
            self.kind[i] = op
            self.utf8[i] = (int(t[2]) & 1) if len(t) > 2 else 0
            self.nol1[i] = (int(t[2]) & 2) if len(t) > 2 else 0
            self.view[i] = 0
            if [e for e in plain if not e.startswith("cdrop")] or newly_closed:
                return "connection setup produced %r / closed %r" % (evs, newly_closed)
            if op in ("raw", "rawpre", "lib"):
                if i not in st:
                    return "new connection %d not open" % i
                want_ext = 1 if (op == "lib" and self.utf8[i] and self.cb8) else 0
                if st[i][0] != want_ext:
                    return "extension enabled=%d for new connection %d, expected %d (only after the client announced the pseudo-encoding and the application installed setXCutTextUTF8)" % (st[i][0], i, want_ext)
                if op == "lib" and (cc.get(i, 0) & TEXT != 0) != bool(want_ext):
                    return "library client %d capability word %08x, server extension %d" % (i, cc.get(i, 0), want_ext)
            return others_untouched(i)
        if op == "cb8":
            self.cb8 = t[1] != "0"
            return None if not evs and not newly_closed else "cb8 had effects"
        if op == "viewonly":
            self.view[int(t[1])] = int(t[2])
            return None if not evs and not newly_closed else "viewonly had effects"
        if op == "fbu":
            i = int(t[1])
            sup = [e for e in plain if e.startswith("sup%d:" % i)]
            if newly_closed or ("cdrop%d" % i) in plain:
                return "framebuffer update closed connection %d" % i
            if len(sup) != 1:
                return "no SupportedMessages state reported for %d" % i
            f = sup[0].split(":")
            if f[1] != "11":
                return "after the SupportedMessages pseudo-rectangle LibVNCClient believes ClientCutText/ServerCutText supported = %s (must be 11 whatever the client's momentary permissions, view-only=%s)" % (f[1], self.view.get(i, 0))
            if f[2] != "same":
                return "the SupportedMessages list sent to client %d differs from the one another client of the same server got (it depends on transient per-client state, view-only=%s)" % (i, self.view.get(i, 0))
            return others_untouched(i)
        if op == "stall":
            i = int(t[1])
            if [e for e in plain] or newly_closed:
                return "stalling the peer of %d had effects: %r %r" % (i, evs, newly_closed)
            self.stalled.add(i)
            return others_untouched(i)
        if op == "kill":
            i = int(t[1])
            if evs or newly_closed:
                return "closing the peer of %d without running the server had effects: %r %r" % (i, evs, newly_closed)
            if any(prev_state.get(j) != st.get(j) for j in prev_open):
                return "state changed by kill"
            self.dying.add(i)
            return None
        if op == "senddie":
            i = int(t[1])
            if i not in prev_open or i not in prev_state:
                return None
            r = self.srv_expect(i, self.blobs[t[2]], prev_state[i])
            if i not in closed:
                return "connection %d stays open although its peer closed right after sending" % i
            if r is not None:
                cbs, etx, must_close, post = r
                got_cb = [e for e in plain if e.startswith("cb")]
                known = cbs[:cbs.index(None)] if None in cbs else cbs
                nk = min(len(got_cb), len(known))
                if got_cb[:nk] != known[:nk] or (None not in cbs and len(got_cb) > len(cbs)):
                    return "callbacks %r are not a prefix of the texts the client sent %r" % (got_cb, known)
                if not etx and None not in cbs and got_cb != cbs:
                    return "callbacks %r, the client's texts (no reply was due) require %r" % (got_cb, cbs)
            if tx.get("tx%d" % i):
                return "reply read from a closed peer?"
            return others_untouched(i)
        if op == "close":
            i = int(t[1])
            if i not in closed:
                return "peer closed connection %d but the server keeps it" % i
            return others_untouched(i)

        if op in ("send", "csend", "csend8") and self.kind.get(int(t[1])) in ("raw", "lib"):
            i = int(t[1])
            if i not in prev_open or i not in prev_state:
                return None
            data = self.blobs[t[2]]
            k = self.kind[i]
            pre = prev_state[i]
            if k == "lib":
                if not plain or plain[0] not in ("ret0", "ret1"):
                    return "no return value reported"
                ret = plain.pop(0)
                if op == "csend":
                    if ret != "ret1":
                        return "SendClientCutText failed"
                    wire = cct(data)
                    undecided = False
                else:
                    caps = self.ccaps.get(i, 0)
                    if (ret == "ret1") != (caps != 0):
                        return "SendClientCutTextUTF8 returned %s with capability word %08x" % (ret, caps)
                    if ret == "ret0":
                        if plain or newly_closed:
                            return "failed SendClientCutTextUTF8 had effects %r" % evs
                        return others_untouched(i)
                    # the message the library must have produced, as the spec sees it
                    undecided = LIMIT - SLACK < len(data) < LIMIT
                    wire = cext(NOTIFY | TEXT) + cext(PROVIDE | TEXT, zsync(rec(data + b"\0")))
                    if len(data) + 1 > LIMIT:
                        # record over the limit: the server must refuse it, however it compresses
                        if i not in closed:
                            return "text of %d bytes (+NUL) exceeds the record limit but connection %d stays open" % (len(data), i)
                        if any(e.startswith("cb") for e in plain):
                            return "callback for an over-limit record: %r" % plain
                        return others_untouched(i)
                if undecided:
                    return others_untouched(i)
                r = self.srv_expect(i, wire, pre)
            else:
                r = self.srv_expect(i, data, pre)
            if r is None:
                return others_untouched(i)
            cbs, etx, must_close, post = r
            got_cb = [e for e in plain if e.startswith("cb")]
            # callbacks: exact prefix up to the first undetermined message
            for idx, e in enumerate(cbs):
                if e is None:
                    break
                if idx >= len(got_cb) or got_cb[idx] != e:
                    return "callback %d: expected %s (bytes the client sent), implementation reported %s" % (
                        idx, e, got_cb[idx] if idx < len(got_cb) else "none")
            if None not in cbs and len(got_cb) != len(cbs):
                return "callbacks %r, the client's well-formed texts require exactly %r" % (got_cb, cbs)
            if must_close is True and i not in closed:
                return "oversized/malformed message did not close connection %d (events %r)" % (i, evs)
            if must_close is False and i in closed:
                return "well-formed traffic closed connection %d" % i
            if k == "raw" and None not in etx:
                got = tx.get("tx%d" % i, [])
                want = []
                for m in etx:
                    if m == "caps":
                        want.append(("ext", CAPS))
                    elif m == "notify":
                        want.append("ext:%08x:-" % (NOTIFY | TEXT))
                    else:
                        want.append("prv:%08x:%d:%s:end" % (PROVIDE | TEXT, m[1] + 4, None))
                if len(got) != len(want) and must_close is False:
                    return "server replies %r, expected %d message(s) %r" % (got, len(want), etx)
                for g, w, m in zip(got, want, etx):
                    if isinstance(w, tuple):
                        if not g.startswith("ext:") or not int(g.split(":")[1], 16) & CAPS:
                            return "expected a capability message, got %s" % g
                    elif m == "notify":
                        if g != w:
                            return "expected notify %s, got %s" % (w, g)
                    else:
                        f = g.split(":")
                        if f[0] != "prv" or int(f[1], 16) & (PROVIDE | TEXT) != (PROVIDE | TEXT) or int(f[2]) != m[1] + 4:
                            return "expected provide of the %d cached bytes, got %s" % (m[1], g)
                        cached = self._cache_bytes.get(i) if hasattr(self, "_cache_bytes") else None
                        if cached is not None and f[3] != fnvc(rec(cached)):
                            return "provide after request carries other bytes than the published text"
            if post is not None and i in st:
                if (st[i][0], st[i][1], st[i][2]) != post:
                    return "capability state of %d is %r, the messages sent imply %r" % (i, st[i][:3], post)
            return others_untouched(i)

        if op in ("csend", "csend8") and self.kind.get(int(t[1])) == "fsrv":
            i = int(t[1])
            data = self.blobs[t[2]]
            if not plain or plain[0] not in ("ret0", "ret1"):
                return "no return value reported"
            ret = plain[0]
            got = tx.get("ctx%d" % i, [])
            if op == "csend":
                want = ["txt:%d:%s" % (len(data), fnvc(data))]
                return None if (ret == "ret1" and got == want) else "SendClientCutText wrote %r, expected %r" % (got, want)
            caps = self.ccaps.get(i, 0)
            if caps == 0:
                return None if (ret == "ret0" and not got) else "SendClientCutTextUTF8 without server capabilities: %s %r" % (ret, got)
            r = rec(data + b"\0")
            if ret != "ret1" or len(got) != 2 or got[0] != "ext:%08x:-" % (NOTIFY | TEXT):
                return "SendClientCutTextUTF8 wrote %r" % got
            f = got[1].split(":")
            if f[0] != "prv" or int(f[1], 16) != (PROVIDE | TEXT) or int(f[2]) != len(r) or f[3] != fnvc(r) or f[4] == "err":
                return "SendClientCutTextUTF8: provide decodes to %s, expected record of %d bytes %s" % (got[1], len(r), fnvc(r))
            return None

        if op == "fsend":
            i = int(t[1])
            if i in closed and i not in prev_open:
                return None
            data = self.blobs[t[2]]
            r = self.cli_expect(i, data, self.ccaps.get(i, 0), len(t) > 3)
            if r is None:
                return None
            want, drop, caps, strict = r
            got = [e for e in plain if e.startswith("ccb")]
            for idx, e in enumerate(want):
                if e is None:
                    break
                if idx >= len(got) or got[idx] != e:
                    return "client callback %d: expected %s, got %s" % (idx, e, got[idx] if idx < len(got) else "none")
            if strict:
                if len(got) != len(want):
                    return "client callbacks %r, expected %r" % (got, want)
                if drop != (i in closed):
                    return "client %s the connection, expected %s" % ("dropped" if i in closed else "kept", "drop" if drop else "keep")
                if not drop and cc.get(i) != caps:
                    return "client capability word %08x, expected %08x" % (cc.get(i, 0), caps)
            return None

        if op in ("pub", "pub8"):
            text = self.blobs[t[1]]
            fb = None if (op == "pub8" and t[2] == "null") else (self.blobs[t[2]] if op == "pub8" else None)
            if not hasattr(self, "_cache_bytes"):
                self._cache_bytes = {}
            for i in sorted(prev_open):
                k = self.kind[i]
                if k == "fsrv" or i not in prev_state:
                    continue
                ext, ucap, maxu, dsz, dfnv = prev_state[i]
                got_tx = tx.get("tx%d" % i, [])
                got_c = [e for e in plain if e.startswith("ccb%d:" % i)]
                dropped = ("cdrop%d" % i) in plain
                if i in self.stalled:
                    # the pipe takes a few KiB: a message of >= 64 KiB can only be written in part and
                    # the write fails; the client must then be closed, not left with a truncated
                    # message in its stream (what it received is not observed)
                    if op == "pub":
                        due = len(text)
                    elif not ext:
                        due = len(fb) if fb is not None else 0
                    elif (ucap & PROVIDE) and len(text) <= maxu:
                        due = len(zlib.compress(rec(text + b"\0")))
                    else:
                        due = 0
                    if due >= 65536 and i not in closed:
                        return "client %d cannot take the %d-byte message (stalled, pipe full) but is left open with a truncated message in its stream" % (i, due)
                    continue
                if k == "rawpre":
                    # still in the handshake: a ServerCutText would corrupt it; nothing may be sent,
                    # nothing cached, the connection stays as it is
                    if got_tx:
                        return "client %d is still in the handshake but received %r" % (i, got_tx)
                    if i in closed:
                        return "publish closed handshake client %d" % i
                    if st.get(i) != prev_state[i]:
                        return "publish changed the record of handshake client %d: %r -> %r" % (i, prev_state[i], st.get(i))
                    continue
                if op == "pub" or not ext:
                    payload = text if op == "pub" else fb
                    if payload is None:
                        if got_tx or got_c:
                            return "classic client %d got %r without a fallback text" % (i, got_tx or got_c)
                        if i in closed:
                            return "connection %d closed by a publish without fallback" % i
                        continue
                    if k in ("raw", "rawpre"):
                        want = ["txt:%d:%s" % (len(payload), fnvc(payload))]
                        if got_tx != want:
                            return "client %d received %r, the application published %r" % (i, got_tx, want)
                        if i in closed:
                            return "publish closed reference peer %d" % i
                    else:
                        want = [] if self.nol1.get(i) else ["ccb%d:l1:%d:%s" % (i, len(payload), fnvc(payload))]
                        if len(payload) <= LIMIT:
                            if got_c != want or dropped:
                                return "library client %d got %r (dropped=%s), published %r" % (i, got_c, dropped, want)
                        elif got_c and got_c != want:
                            return "library client %d got %r for an over-limit text" % (i, got_c)
                    continue
                # extended client
                d = text + b"\0"
                self._cache_bytes[i] = d
                if i in st and (st[i][3], st[i][4]) != (len(d), fnvc(d)):
                    return "cached clipboard of %d is (%d,%s), published text+NUL is (%d,%s)" % (i, st[i][3], st[i][4], len(d), fnvc(d))
                if (ucap & PROVIDE) and len(text) <= maxu:
                    r = rec(d)
                    if k in ("raw", "rawpre"):
                        want = ["prv:%08x:%d:%s:end" % (PROVIDE | TEXT, len(r), fnvc(r))]
                        if got_tx != want:
                            return "extended client %d received %r, expected provide %r" % (i, got_tx, want)
                    else:
                        want = ["ccb%d:u8:%d:%s" % (i, len(d), fnvc(d))]
                        if len(d) <= LIMIT - SLACK:
                            if got_c != want or dropped:
                                return "library client %d got %r (dropped=%s), expected %r" % (i, got_c, dropped, want)
                        elif len(d) > LIMIT:
                            if got_c:
                                return "library client %d accepted an over-limit record" % i
                        elif got_c and got_c != want:
                            return "library client %d got %r, expected %r or a refusal" % (i, got_c, want)
                elif ucap & NOTIFY:
                    if k in ("raw", "rawpre"):
                        want = ["ext:%08x:-" % (NOTIFY | TEXT)]
                        if got_tx != want:
                            return "extended client %d received %r, expected notify" % (i, got_tx)
                    elif got_c:
                        return "library client %d got %r for a notify" % (i, got_c)
                else:
                    if got_tx or got_c:
                        return "client %d got %r although its capabilities allow neither provide nor notify" % (i, got_tx or got_c)
            for i in newly_closed:
                if self.kind[i] != "lib" and i not in self.stalled:
                    return "publish closed connection %d" % i
            if op == "pub8" and fb is None and any(self.kind[i] in ("raw", "lib") and i in prev_state and not prev_state[i][0] for i in prev_open):
                self.null_with_classic = True
            return None
        return None


def oracle(script, impl):
    ops = [l for l in script.splitlines() if l.strip() and not l.startswith("#")]
    sp = Spec()
    for n, op in enumerate(ops):
        if n >= len(impl):
            return "observation missing for op %d %r" % (n, op), sp, n
        e = sp.step(op, impl[n])
        if e:
            return "op %d `%s`: %s" % (n, op[:120], e), sp, n
    return None, sp, None


# --------------------------------------------------------------------------- known findings (precise predicates)
def classify_finding(script, impl, stderr, detail, sp, n):
    ops = [l for l in script.splitlines() if l.strip() and not l.startswith("#")]
    op = ops[n].split() if n is not None and n < len(ops) else []
    # any later LOCK(cl->sendMutex) of that client blocks for ever: the next publish, or
    # rfbClientConnectionGone when the client is reaped
    if impl and impl[-1] == "HANG" and sp is not None and sp.null_with_classic:
        return "c18-sendmutex-left-locked"
    if stderr and "negation of -2147483648 cannot be represented" in stderr and "rfbclient.c" in stderr:
        last = ops[len(impl)].split() if len(impl) < len(ops) else []
        if last and last[0] == "fsend":
            return "c18-client-cuttext-ub"
    if op and op[0] == "send" and detail and ("expected none" in detail or "did not close" in detail or "require exactly" in detail):
        # a provide whose text record declares more bytes than the stream holds, delivered at the declared size
        data = sp.blobs.get(op[2], b"")
        if _has_short_text_record(data) and n < len(impl):
            return "c18-provide-size-overread"
    return None


def _has_short_text_record(data):
    off = 0
    while off + 12 <= len(data):
        if data[off] == 2:
            n = struct.unpack(">H", data[off + 2:off + 4])[0]
            off += 4 + 4 * n
            continue
        if data[off] != 6:
            return False
        lf = struct.unpack(">I", data[off + 4:off + 8])[0]
        if not lf & 0x80000000:
            off += 8 + lf
            continue
        n = (-lf) & 0xFFFFFFFF
        body = data[off + 8:off + 8 + n]
        off += 8 + n
        if len(body) < 4:
            return False
        flags = struct.unpack(">I", body[:4])[0]
        if flags & PROVIDE and not flags & (CAPS | REQUEST | PEEK):
            info = zinfo(body[4:])
            if info:
                plain, fin = info
                pos = 0
                for b in range(16):
                    if not flags >> b & 1:
                        continue
                    if len(plain) - pos < 4:
                        break
                    sz = struct.unpack(">I", plain[pos:pos + 4])[0]
                    if sz <= LIMIT and 0 < len(plain) - pos - 4 < sz:
                        return True
                    pos += 4 + sz
    return False


# --------------------------------------------------------------------------- run
def run_one(ctx, h, d, name, script, exact):
    """-> (impl, failures)"""
    fails = []
    if exact:
        impl, model, f = common.compare_streams(ctx, script, h, d, "clip:" + name, timeout=300)
        stderr = f.get("detail", "") if f and f["kind"] == "crash" else ""
    else:
        rc, impl, stderr = ctx.run_lines(h, script, timeout=300)
        model = []
        f = None
        if rc != 0:
            f = {"kind": "crash", "what": "clip:%s: harness exit %d" % (name, rc), "script": script.splitlines()[:400],
                 "impl": impl[-20:], "detail": stderr}
    o, sp, n = oracle(script, impl) if not (f and f["kind"] == "crash" and not impl) else (None, None, None)
    if f and f["kind"] == "crash":
        fid = classify_finding(script, impl, stderr, None, sp, n)
        if fid:
            f["finding"] = fid
        fails.append(f)
        return impl, fails
    if o:
        fid = classify_finding(script, impl, "", o, sp, n)
        fails.append({"kind": "oracle", "what": "C18 clipboard oracle (%s)" % name, "detail": o,
                      "script": _short(script), "impl": impl[max(0, (n or 0) - 3):(n or 0) + 2], "finding": fid})
        if f and fid:
            f["finding"] = fid          # the model follows the fixed code: the same defect, seen by the diff
    if f:
        if not f.get("finding") and o is None:
            pass
        fails.append(f)
    return impl, fails


def _short(script):
    out = []
    for l in script.splitlines():
        out.append(l if len(l) < 300000 else l[:200] + "...(%d chars)" % len(l))   # keep replays replayable
    return out[:2000]


def run(ctx):
    h = ctx.harness("c18", libs=("server", "client"))
    d = ctx.driver("drv_c18")
    jobs = []          # (name, script text, exact?)
    cdir = os.path.join(common.VERIF, "corpus", "C18")
    if ctx.replay:
        rec_ = json.load(open(ctx.replay))
        sc = rec_.get("script") or (rec_.get("first_disagreement") or {}).get("script") or []
        jobs.append(("replay", "\n".join(sc) + "\n", True))
    else:
        for p in sorted(glob.glob(os.path.join(cdir, "*.ops"))):
            txt = open(p).read()
            jobs.append(("corpus/" + os.path.basename(p), txt, "# oracle-only" not in txt))
        for name, sb in directed(ctx.tier):
            jobs.append((name, sb.text(), sb.exact))
        n = 160 if ctx.tier == "quick" else 3000
        for k in range(n):
            sb = gen_script(ctx.rng)
            jobs.append(("gen%d" % k, sb.text(), sb.exact))
    results = common.pmap(lambda j: run_one(ctx, h, d, j[0], j[1], j[2]), jobs)
    fails, samples, seen = [], [], set()
    dist = {"ops": {}, "events": {}, "closed_offenders": 0, "exact_scripts": 0, "oracle_only_scripts": 0,
            "text_sizes": {}, "hang": 0}
    evals = 0
    for (name, script, exact), (impl, fl) in zip(jobs, results):
        evals += 1
        fails += fl
        dist["exact_scripts" if exact else "oracle_only_scripts"] += 1
        nontriv = 0
        nclosed = 0
        for l, ob in zip([x for x in script.splitlines() if x.strip() and not x.startswith("#")], impl):
            k = l.split()[0]
            dist["ops"][k] = dist["ops"].get(k, 0) + 1
            if k == "def" and " hex " in l:
                ln = (len(l.split()[3]) // 2) if l.split()[3] != "-" else 0
                b = "0" if ln == 0 else "<=8" if ln <= 8 else "<=256" if ln <= 256 else "<=65536" if ln <= 65536 else "<=1MiB" if ln <= LIMIT else ">1MiB"
                dist["text_sizes"][b] = dist["text_sizes"].get(b, 0) + 1
            if ob == "HANG":
                dist["hang"] += 1
            pr = Spec.parse(ob) if "|" in ob else None
            if pr and len(pr[1]) > nclosed:
                dist["closed_offenders"] += len(pr[1]) - nclosed
                nclosed = len(pr[1])
            for e in ob.split("|")[0].split():
                kind = "".join(c for c in e.split(":")[0] if not c.isdigit())
                if e.startswith("tx") or e.startswith("ctx"):
                    for m in e.split("[", 1)[1].rstrip("]").split(","):
                        dist["events"]["wire:" + m.split(":")[0]] = dist["events"].get("wire:" + m.split(":")[0], 0) + 1
                    nontriv += 1
                elif kind in ("cb", "ccb", "cdrop"):
                    dist["events"][kind + ":" + (e.split(":")[1] if ":" in e else "")] = dist["events"].get(kind + ":" + (e.split(":")[1] if ":" in e else ""), 0) + 1
                    nontriv += 1
        if nontriv >= 2:
            seen.add(script)
        if len(samples) < 3 and name.startswith("gen"):
            samples.append({"name": name, "script": _short(script)[:40], "impl": impl[:40]})
    return {
        "evaluations": evals, "distinct_nontrivial": len(seen),
        "rule": "scripts = corpus + directed limit scripts + random sessions (1-5 connections of kinds reference peer / not-yet-NORMAL peer / LibVNCClient on the real server / LibVNCClient on a reference server; 4-14 ops); non-trivial = distinct script in which at least two callbacks or decoded wire messages were observed",
        "samples": samples, "distribution": dist, "failures": fails[:12],
        "partial": PARTIAL,
        "assumptions": ASSUMPTIONS,
        "trusted_extra": ["zlib (real zlib in both libraries and in the harness canonicaliser; Python's zlib as the independent reference): modelled as a parameter with the laws ZLaw and the return-code derivation `zcall`"],
    }


PARTIAL = [
    "client_to_app_exact_partial / client_roundtrip_partial: 'every text of 0..1 MiB makes the extended round trip' is false of the code in two ways: the record limit counts the NUL (largest extended text 2^20-1 bytes; the classic message carries 2^20) and the compressed message is bounded by 1 MiB too (incompressible texts within a few hundred bytes of the limit). The exact set is the decidable predicate fitsServer/fitsClient; client_to_app_exact_iff / client_roundtrip_iff prove delivered-exactly <=> predicate, closed-without-callback otherwise. On LibVNCClient<->server links the window (1 MiB - 2 KiB, 1 MiB) is checked by the direct oracle only (real compressed sizes are zlib's)",
    "handshake states are not modelled beyond the flag `normal` (publish functions skip such clients; the handler model `feed` is for NORMAL connections only)",
    "write failures are modelled for a peer that is gone (every write fails: field peerGone, ops kill/senddie; op stall = a peer that stopped reading behind a tiny pipe, used only with large messages); arbitrary partial writes, allocation failures, compress()/inflateInit failures are not modelled (not reachable without fault injection)",
    "SetEncodings is modelled only in its effect on the clipboard state; other message types are outside the model ('unmodelled')",
    "transports: the WebSocket transport is treated as transparent (rawws peers share the model of plain peers; framing/base64 are exercised, not modelled - C09 owns the decoder)",
    "segmentation: the model consumes the concatenated stream; independence from segmentation is exercised (interposed read(): every 1-cut split of a six-message stream on either library, random 1-3 cuts elsewhere, each cut followed by one EAGAIN) but is a property of rfbReadExact/ReadFromRFBServer, not proved here",
]
ASSUMPTIONS = [
    "single-threaded application-driven event loop (helper thread only during the LibVNCClient handshake)",
    "zlib laws ZLaw (inflate . compress = id, sync-flushed stream yields the data and stays open) and the inflate return-code derivation zcall",
    "ASan fills fresh heap blocks with 0xbe (makes 'uninitialised bytes delivered' a deterministic observation)",
    "the model follows /repo including the three C18 fixes (30802b5, 747b2ec, ee998a0); their witnesses are in corpus/C18 and fail the check if a defect returns",
]

META = {
    "technique": "Lean 4 theorems about an executable model of the cut-text handlers/senders of both libraries (zlib as a parameter with stated laws) + correspondence run of the model against the real server and the real client library linked into one harness + model-independent direct oracle",
    "level_text": "Proof: Props/C18.lean proves, for every text/flag word/population/zlib satisfying ZLaw, exact delivery client->application (classic and extended incl. the NUL convention), exact per-client output of both publish functions for every population, capability negotiation, exact limits with only the offender closed and all other clients untouched, request-then-provide, and the two round-trip compositions through the client-library model. Tie: exact differential run on every check (corpus, directed limit scripts, random sessions) with provide payloads inflated before comparison, constants regenerated from /repo.",
    "level_note": "Trusted: Lean kernel; T0 extractor; harness/driver/generators/oracle (testing); zlib behaviour (parameter). Not modelled: threads (C13), TLS/WebSocket transports, write failures.",
    "design_ref": "DESIGN.md section 7, C18",
}
