/*
 * Probe (not a seed): unmodified HEAD, threaded event loop + WebSocket
 * transport.  A viewer sends ONE WebSocket frame that carries a wrong 16-byte
 * response followed by a KeyEvent.  Does the KeyEvent of this never
 * authenticated connection reach kbdAddEvent?
 * exit 0 = no, 1 = yes (defect), 2 = harness problem.
 */
#include <rfb/rfb.h>
#include <poll.h>
#include <signal.h>
#include <sys/socket.h>
#include <unistd.h>
#include <string.h>
#include <stdio.h>
#include <stdlib.h>

static volatile int keyEvents = 0;
static void onKey(rfbBool down, rfbKeySym k, rfbClientPtr cl) { (void)down; (void)k; (void)cl; keyEvents++; }

static int rd(int fd, void *buf, int n)
{
    int got = 0;
    while (got < n) {
        struct pollfd p = { fd, POLLIN, 0 };
        int r = poll(&p, 1, 4000);
        if (r <= 0) break;
        r = read(fd, (char *)buf + got, n - got);
        if (r <= 0) break;
        got += r;
    }
    return got;
}

/* send one masked binary frame */
static void ws_send(int fd, const void *data, int len)
{
    unsigned char f[256];
    int i;
    f[0] = 0x82; f[1] = 0x80 | (unsigned char)len;
    f[2] = 1; f[3] = 2; f[4] = 3; f[5] = 4;
    for (i = 0; i < len; i++) f[6 + i] = ((const unsigned char *)data)[i] ^ f[2 + (i & 3)];
    if (write(fd, f, 6 + len) != 6 + len) perror("write");
}

/* receive payload bytes (server frames are unmasked, short) */
static unsigned char pend[4096]; static int npend = 0;
static int ws_recv(int fd, void *out, int want)
{
    while (npend < want) {
        unsigned char h[2];
        int l;
        if (rd(fd, h, 2) != 2) return -1;
        l = h[1] & 0x7f;
        if (l == 126) { unsigned char e[2]; if (rd(fd, e, 2) != 2) return -1; l = e[0] << 8 | e[1]; }
        if ((h[0] & 0x0f) == 8) return -1;
        if (rd(fd, pend + npend, l) != l) return -1;
        npend += l;
    }
    memcpy(out, pend, want);
    memmove(pend, pend + want, npend - want);
    npend -= want;
    return want;
}

int main(void)
{
    static char *pw[] = { "s3cretPW", NULL };
    static const char req[] =
        "GET / HTTP/1.1\r\nHost: localhost\r\nOrigin: http://localhost\r\nUpgrade: websocket\r\nConnection: Upgrade\r\n"
        "Sec-WebSocket-Key: dGhlIHNhbXBsZSBub25jZQ==\r\nSec-WebSocket-Version: 13\r\n"
        "Sec-WebSocket-Protocol: binary\r\n\r\n";
    rfbScreenInfoPtr s;
    rfbClientPtr cl;
    int sv[2], n = 0;
    char resp[1024];
    unsigned char b[64], nt, msg[24];

    signal(SIGPIPE, SIG_IGN);
    if (!getenv("VERBOSE")) rfbLogEnable(0);
    s = rfbGetScreen(NULL, NULL, 64, 48, 8, 3, 4);
    s->frameBuffer = calloc(64 * 48, 4);
    s->port = 0; s->ipv6port = 0; s->autoPort = FALSE; s->httpPort = 0;
    s->maxClientWait = 1500;
    s->authPasswdData = pw; s->passwordCheck = rfbCheckPasswordByList;
    s->kbdAddEvent = onKey;
    rfbInitServer(s);
    rfbRunEventLoop(s, -1, TRUE);               /* threaded */

    socketpair(AF_UNIX, SOCK_STREAM, 0, sv);
    if (write(sv[1], req, sizeof(req) - 1) < 0) return 2;
    cl = rfbNewClient(s, sv[0]);
    if (!cl) { fprintf(stderr, "rfbNewClient failed\n"); return 2; }
    rfbStartOnHoldClient(cl);

    /* HTTP response up to the blank line */
    while (n < (int)sizeof(resp) - 1) {
        if (rd(sv[1], resp + n, 1) != 1) return 2;
        n++; resp[n] = 0;
        if (n >= 4 && !strcmp(resp + n - 4, "\r\n\r\n")) break;
    }
    if (!strstr(resp, "101")) { fprintf(stderr, "no 101: %s\n", resp); return 2; }

    if (ws_recv(sv[1], b, 12) != 12) { fprintf(stderr, "no version\n"); return 2; }
    ws_send(sv[1], "RFB 003.008\n", 12);
    if (ws_recv(sv[1], &nt, 1) != 1 || ws_recv(sv[1], b, nt) != nt) { fprintf(stderr, "no types\n"); return 2; }
    b[0] = 2; ws_send(sv[1], b, 1);
    if (ws_recv(sv[1], b, 16) != 16) { fprintf(stderr, "no challenge\n"); return 2; }

    memset(msg, 0x55, 16);                       /* wrong response */
    msg[16] = 4; msg[17] = 1; msg[18] = 0; msg[19] = 0; msg[20] = 0; msg[21] = 0; msg[22] = 0; msg[23] = 'a';
    ws_send(sv[1], msg, 24);                     /* response + KeyEvent in one frame */

    if (ws_recv(sv[1], b, 4) == 4)
        printf("SecurityResult word: %u\n", (unsigned)(b[0] << 24 | b[1] << 16 | b[2] << 8 | b[3]));
    usleep(800000);
    printf("key events delivered to the application for the unauthenticated connection: %d\n", keyEvents);
    return keyEvents ? 1 : 0;
}
