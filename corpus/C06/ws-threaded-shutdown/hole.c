#include <rfb/rfb.h>
#include <sys/socket.h>
#include <unistd.h>
#include <fcntl.h>
#include <string.h>
#include <stdio.h>
#include <stdlib.h>
#include <signal.h>
static volatile int nKeys; static volatile unsigned lastSym;
static void onKey(rfbBool d, rfbKeySym k, rfbClientPtr cl){ nKeys++; lastSym=k; }
static void wsFrame(int fd,int fin,int op,const unsigned char*p,int n){
  static const unsigned char mask[4]={0x5a,0xc3,0x17,0x88}; unsigned char f[140]; int i;
  f[0]=(fin?0x80:0)|op; f[1]=0x80|n; memcpy(f+2,mask,4); for(i=0;i<n;i++) f[6+i]=p[i]^mask[i%4];
  if(write(fd,f,6+n)<0) perror("write");
}
int main(int argc,char**argv){
  static const char request[] = "GET / HTTP/1.1\r\nHost: localhost\r\nUpgrade: websocket\r\nConnection: Upgrade\r\nSec-WebSocket-Key: dGhlIHNhbXBsZSBub25jZQ==\r\nOrigin: http://localhost\r\nSec-WebSocket-Protocol: binary\r\nSec-WebSocket-Version: 13\r\n\r\n";
  static const char *pw[]={"secret",NULL};
  int threaded = argc>1; int sv[2]; unsigned char m[24]; int i;
  signal(SIGPIPE,SIG_IGN);
  rfbScreenInfoPtr s=rfbGetScreen(NULL,NULL,64,64,8,3,4); s->frameBuffer=calloc(64*64,4);
  s->port=0;s->ipv6port=0;s->autoPort=FALSE;s->httpDir=NULL;s->kbdAddEvent=onKey;
  s->authPasswdData=(void*)pw; s->passwordCheck=rfbCheckPasswordByList;
  rfbInitServer(s);
  if(threaded) rfbRunEventLoop(s,-1,TRUE);
  socketpair(AF_UNIX,SOCK_STREAM,0,sv); fcntl(sv[1],F_SETFL,O_NONBLOCK);
  write(sv[1],request,sizeof(request)-1);
  rfbClientPtr cl=rfbNewClient(s,sv[0]); if(!cl||!cl->wsctx){printf("hs failed\n");return 2;}
  wsFrame(sv[1],1,2,(const unsigned char*)"RFB 003.008\n",12);
  wsFrame(sv[1],1,2,(const unsigned char*)"\x02",1);
  memset(m,0xAA,16); m[16]=4;m[17]=1;m[18]=m[19]=0;m[20]=0;m[21]=0;m[22]=0x12;m[23]=0x34;
  wsFrame(sv[1],1,2,m,24);
  if(threaded){ rfbStartOnHoldClient(cl); sleep(2);} else for(i=0;i<40;i++) rfbProcessEvents(s,5000);
  printf("%s: kbdAddEvent calls from a client whose password check failed: %d (last sym 0x%x)\n", threaded?"threaded":"single", nKeys, lastSym);
  fflush(stdout); _exit(nKeys?1:0);
}
