#include "harness.h"
#include "turbojpeg.h"

int main(int argc, char **argv) {
  script s = {0};
  int rw = argc > 1 ? atoi(argv[1]) : 0, rh = argc > 2 ? atoi(argv[2]) : 0;
  int jw = argc > 3 ? atoi(argv[3]) : 160, jh = argc > 4 ? atoi(argv[4]) : 160;
  unsigned char *img = malloc(jw * jh * 3), *jpg = malloc(tjBufSize(jw, jh, TJSAMP_420)); unsigned long jsz = 0;
  tjhandle tj = tjInitCompress();
  memset(img, 0x7f, jw * jh * 3);
  if (tjCompress2(tj, img, jw, 0, jh, TJPF_RGB, &jpg, &jsz, TJSAMP_420, 80, 0)) { fprintf(stderr, "tjCompress2 failed\n"); return 99; }
  fprintf(stderr, "jpeg %dx%d is %lu bytes\n", jw, jh, jsz);

  s_handshake(&s, 64, 64, "x");
  s_fbu(&s, 1);
  s_rect(&s, 64 - rw, 64 - rh, rw, rh, 7);
  s_u8(&s, 0x90);
  if (jsz < 128) s_u8(&s, jsz);
  else if (jsz < 16384) { s_u8(&s, (jsz & 0x7f) | 0x80); s_u8(&s, jsz >> 7); }
  else { s_u8(&s, (jsz & 0x7f) | 0x80); s_u8(&s, ((jsz >> 7) & 0x7f) | 0x80); s_u8(&s, jsz >> 14); }
  s_put(&s, jpg, jsz);

  rfbClient *c = startClient(&s, NULL, 20);
  if (!c) { fprintf(stderr, "init failed\n"); return 98; }
  rfbBool r = HandleRFBServerMessage(c);
  fprintf(stderr, "HandleRFBServerMessage -> %d, guard damage %zu\n", r, guardDamage());
  return guardDamage() ? 1 : 0;
}
