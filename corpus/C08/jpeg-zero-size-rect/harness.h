/* Tiny in-process "hostile server" harness for LibVNCClient.
 * The client end of an AF_UNIX socketpair is handed to a real rfbClient
 * (listenSpecified=TRUE so that rfbInitClient does not try to connect);
 * a writer thread plays a prepared byte script, a drain thread swallows
 * whatever the client sends.  The framebuffer is allocated by our own
 * MallocFrameBuffer hook between two guard bands filled with a pattern, so
 * out-of-bounds writes are detected without a sanitizer. */
#ifndef HARNESS_H
#define HARNESS_H
#include <rfb/rfbclient.h>
#include <pthread.h>
#include <signal.h>
#include <stdio.h>
#include <stdlib.h>
#include <string.h>
#include <sys/socket.h>
#include <unistd.h>

/* ---- byte script ------------------------------------------------------ */
typedef struct { unsigned char *p; size_t n, cap; } script;
static void s_put(script *s, const void *d, size_t n) {
  if (s->n + n > s->cap) { s->cap = (s->n + n) * 2 + 64; s->p = realloc(s->p, s->cap); }
  memcpy(s->p + s->n, d, n); s->n += n;
}
static void s_u8(script *s, unsigned v)  { unsigned char b = v; s_put(s, &b, 1); }
static void s_u16(script *s, unsigned v) { unsigned char b[2] = { v >> 8, v }; s_put(s, b, 2); }
static void s_u32(script *s, unsigned long v) { unsigned char b[4] = { v >> 24, v >> 16, v >> 8, v }; s_put(s, b, 4); }

/* RFB 3.8 handshake, no authentication, 32bpp little-endian true colour server format */
static void s_handshake(script *s, int w, int h, const char *name) {
  unsigned char pf[16] = { 32, 24, 0, 1, 0, 255, 0, 255, 0, 255, 16, 8, 0, 0, 0, 0 };
  s_put(s, "RFB 003.008\n", 12);
  s_u8(s, 1); s_u8(s, 1);          /* one security type: None */
  s_u32(s, 0);                     /* SecurityResult OK */
  s_u16(s, w); s_u16(s, h);
  s_put(s, pf, 16);
  s_u32(s, strlen(name)); s_put(s, name, strlen(name));
}
static void s_fbu(script *s, int nrects) { s_u8(s, 0); s_u8(s, 0); s_u16(s, nrects); }
static void s_rect(script *s, int x, int y, int w, int h, long enc) {
  s_u16(s, x); s_u16(s, y); s_u16(s, w); s_u16(s, h); s_u32(s, (unsigned long)enc);
}

/* ---- guarded framebuffer ---------------------------------------------- */
#define GUARD (1 << 20)
#define GUARD_BYTE 0xA5
static unsigned char *g_block; static size_t g_fbsize;
static rfbBool guardedMalloc(rfbClient *c) {
  uint64_t sz = (uint64_t)c->width * c->height * c->format.bitsPerPixel / 8;
  free(g_block); g_block = NULL; c->frameBuffer = NULL;
  if (sz > (1u << 28)) return FALSE;
  g_block = malloc(GUARD + sz + GUARD);
  if (!g_block) return FALSE;
  memset(g_block, GUARD_BYTE, GUARD + sz + GUARD);
  memset(g_block + GUARD, 0, sz);
  g_fbsize = sz;
  c->frameBuffer = g_block + GUARD;
  return TRUE;
}
/* returns number of clobbered guard bytes */
static size_t guardDamage(void) {
  size_t i, bad = 0;
  if (!g_block) return 0;
  for (i = 0; i < GUARD; i++) {
    if (g_block[i] != GUARD_BYTE) bad++;
    if (g_block[GUARD + g_fbsize + i] != GUARD_BYTE) bad++;
  }
  return bad;
}

/* ---- threads ----------------------------------------------------------- */
typedef struct { int fd; script *s; } wr_arg;
static void *writerThread(void *a) {
  wr_arg *w = a; size_t off = 0;
  while (off < w->s->n) {
    ssize_t r = write(w->fd, w->s->p + off, w->s->n - off);
    if (r <= 0) break;
    off += r;
  }
  shutdown(w->fd, SHUT_WR);        /* the stream is now exhausted */
  return NULL;
}
static void *drainThread(void *a) {
  int fd = *(int *)a; char b[4096];
  while (read(fd, b, sizeof b) > 0) ;
  return NULL;
}
static void onAlarm(int sig) {
  (void)sig;
  static const char m[] = "FAIL: the client library did not return (wedged)\n";
  if (write(2, m, sizeof m - 1)) {}
  _exit(3);
}

/* create a client wired to the script; returns NULL when rfbInitClient failed */
static rfbClient *startClient(script *s, void (*tweak)(rfbClient *), int timeoutSecs) {
  static int sv[2]; static wr_arg wa; pthread_t t1, t2;
  rfbClient *c;
  signal(SIGPIPE, SIG_IGN);
  signal(SIGALRM, onAlarm);
  alarm(timeoutSecs);
  if (socketpair(AF_UNIX, SOCK_STREAM, 0, sv)) { perror("socketpair"); exit(99); }
  wa.fd = sv[1]; wa.s = s;
  pthread_create(&t1, NULL, writerThread, &wa);
  pthread_create(&t2, NULL, drainThread, &sv[1]);
  c = rfbGetClient(8, 3, 4);
  c->MallocFrameBuffer = guardedMalloc;
  c->canHandleNewFBSize = TRUE;
  c->listenSpecified = TRUE;       /* do not connect: we already have a socket */
  c->sock = sv[0];
  if (tweak) tweak(c);
  if (!rfbInitClient(c, NULL, NULL)) return NULL;
  return c;
}
#endif
