/* C06 harness: input events on the REAL server code, with deterministic stream segmentation.
 *
 * The server side of every connection is a real socket (AF_UNIX socketpair) for OUTPUT, but its
 * INPUT is virtual: `read`, `recv`, `select`, `close` and `gettimeofday` are interposed at link
 * level.  Each connection has an input queue = bytes that have "arrived" + a list of chunks still
 * "in flight".  read() returns at most what has arrived (never more than asked); when nothing has
 * arrived it fails with EAGAIN; a select() with a non-zero timeout on such a descriptor lets the
 * next chunk arrive, or reports a timeout at once when nothing is in flight (virtual time: the
 * 100 ms of maxClientWait never really elapse).  So `send c <hex> cuts=i,j` delivers the bytes to
 * rfbReadExactTimeout in exactly that segmentation, and an incomplete message times out.
 *
 * ops (one observation block per op: callback lines, `closed cN` lines, then one `= ...` line):
 *   screen W H pw utf8 defer      create the screen (first op). pw=1: passwords {"full","view"},
 *                                 second one view-only. utf8=1: setXCutTextUTF8 hook installed.
 *                                 defer: deferPtrUpdateTime in ms (0 = library default)
 *   conn N [ws]                   rfbNewClient; `ws`: the connection is a WebSocket one (the upgrade
 *                                 request is the first input; afterwards every segment of a `send`
 *                                 travels as ONE masked binary frame, so `cuts=` are frame boundaries;
 *                                 `one=1` lets all frames of the op arrive in a single TCP segment;
 *                                 `frag=1`: the segments are the FRAGMENTS of one WebSocket message;
 *                                 `ctl=pingN|pongN`: a ping / pong frame with N payload bytes between
 *                                 every two fragments)
 *   send N HEX [cuts=a,b,..]      deliver bytes, run rfbProcessClientMessage while input remains
 *   sendgen N HEX n seed [cuts=]  same, bytes = HEX ++ n pseudo-random bytes (splitmix64(seed))
 *   auth N full|view|bad [cuts=] [extra=HEX]  deliver the DES response to the pending challenge (+ HEX)
 *   viewonly N 0|1                application sets cl->viewOnly
 *   hookvo 0|1                    from now on the application's newClientHook makes new clients view-only
 *   sendprov N FLAGS PLAIN [cuts=] extended-clipboard Provide: ClientCutText with length -(4+z), the 4
 *                                 flag bytes FLAGS (hex) and z = zlib compress(PLAIN) (PLAIN = hex of
 *                                 the stream of <be32 size><data> records, built by the generator)
 *   eof N                         peer closes; server notices on its next read
 *   pump                          rfbProcessEvents(screen, 0)  (deferred pointer delivery, reaping)
 *   tick MS                       advance the virtual clock
 *   scalex FW W X0 X1             FNV of ScaleX(from.width=FW, to.width=W, x) for x in [X0,X1)
 *   scaley FH H Y0 Y1             same for ScaleY
 * callback lines: `kbd cN <down byte> <keysym>`, `ptr cN <mask> <x> <y>`, `cut cN <len> <fnv>`,
 * `cutu8 cN <len> <fnv>`.
 */
#define _GNU_SOURCE
#include <dlfcn.h>
#include <sys/time.h>
#include <sys/select.h>
#include "sess.h"
#include <zlib.h>

/* ------------------------------------------------------------------ virtual input */
#define MAXC 16
#define MAXFD 1024
typedef struct chunk { unsigned char *p; size_t n; struct chunk *next; } chunk;
typedef struct {
  int used, id, srvfd, peer, eof, closed_reported, hooked_gone, ws;
  unsigned maskctr;
  rfbClientPtr cl;
  unsigned char *arr; size_t arr_n, arr_off;   /* arrived, unread */
  chunk *pend, *pend_tail;                     /* in flight */
} conn;
static conn conns[MAXC];
static conn *vfd[MAXFD];
static rfbScreenInfoPtr scr;
static long long vclock_us = 1000000000LL * 1000;   /* virtual wall clock */

static ssize_t (*real_read)(int, void *, size_t);
static ssize_t (*real_recv)(int, void *, size_t, int);
static int (*real_select)(int, fd_set *, fd_set *, fd_set *, struct timeval *);
static int (*real_close)(int);
static void init_real(void) {
  if (real_read) return;
  real_read = (ssize_t (*)(int, void *, size_t))dlsym(RTLD_NEXT, "read");
  real_recv = (ssize_t (*)(int, void *, size_t, int))dlsym(RTLD_NEXT, "recv");
  real_select = (int (*)(int, fd_set *, fd_set *, fd_set *, struct timeval *))dlsym(RTLD_NEXT, "select");
  real_close = (int (*)(int))dlsym(RTLD_NEXT, "close");
}
static size_t avail(conn *c) { return c->arr_n - c->arr_off; }
static int arrive(conn *c) {           /* next chunk in flight arrives; 0 if none */
  chunk *k = c->pend;
  if (!k) return 0;
  c->pend = k->next; if (!c->pend) c->pend_tail = NULL;
  if (avail(c) == 0) { free(c->arr); c->arr = k->p; c->arr_n = k->n; c->arr_off = 0; }
  else { c->arr = (unsigned char *)realloc(c->arr, c->arr_n + k->n); memcpy(c->arr + c->arr_n, k->p, k->n); c->arr_n += k->n; free(k->p); }
  free(k);
  return 1;
}
static void drop_input(conn *c) {
  while (c->pend) { chunk *k = c->pend; c->pend = k->next; free(k->p); free(k); }
  c->pend_tail = NULL; free(c->arr); c->arr = NULL; c->arr_n = c->arr_off = 0;
}
/* ---- watchdog: a server that spins or blocks on input is reported as a hang, in bounded time ----
 * (1) virtual: more than IO_LIMIT interposed read/recv/select calls on virtual descriptors within one
 *     script op (the largest legitimate op, 1 MiB over WebSocket, needs a few thousand);
 * (2) no progress: rfbProcessClientMessage returned STUCK_LIMIT times in a row without consuming a
 *     byte, changing the connection state or invoking a callback although input is pending (the real
 *     event loop would call it again and again: busy loop);
 * (3) real time: alarm() per op as a last resort (generous: the machine may be heavily loaded). */
#include <signal.h>
#define IO_LIMIT 2000000L
#define STUCK_LIMIT 4
#define OP_SECONDS 300
static long io_calls, progress_ctr;
static const char *cur_op = "";
static void die_hang(const char *why) {
  char msg[256];
  int k = snprintf(msg, sizeof msg, "hang: %s during op `%.100s`\n", why, cur_op);
  fflush(stdout);
  if (write(1, msg, (size_t)k) < 0 || write(2, msg, (size_t)k) < 0) { }
  _exit(3);
}
static void on_alarm(int sig) { (void)sig; die_hang("no result within the real-time limit (server blocked or spinning)"); }
static void io_tick(void) { if (++io_calls > IO_LIMIT) die_hang("server spins on the connection (millions of read/select calls)"); }

static ssize_t vread(conn *c, void *buf, size_t len, int peek) {
  size_t n = avail(c);
  io_tick();
  if (n == 0) { if (c->eof) return 0; errno = EAGAIN; return -1; }
  if (n > len) n = len;
  memcpy(buf, c->arr + c->arr_off, n);
  if (!peek) { c->arr_off += n; progress_ctr++; }
  return (ssize_t)n;
}
ssize_t read(int fd, void *buf, size_t len) {
  init_real();
  if (fd >= 0 && fd < MAXFD && vfd[fd]) return vread(vfd[fd], buf, len, 0);
  return real_read(fd, buf, len);
}
ssize_t recv(int fd, void *buf, size_t len, int flags) {
  init_real();
  if (fd >= 0 && fd < MAXFD && vfd[fd]) return vread(vfd[fd], buf, len, (flags & MSG_PEEK) != 0);
  return real_recv(fd, buf, len, flags);
}
int select(int nfds, fd_set *r, fd_set *w, fd_set *e, struct timeval *tv) {
  int fd, virt = 0, cnt = 0;
  init_real();
  if (r) for (fd = 0; fd < nfds && fd < MAXFD; fd++) if (FD_ISSET(fd, r) && vfd[fd]) virt = 1;
  if (!virt) return real_select(nfds, r, w, e, tv);
  io_tick();
  for (fd = 0; fd < nfds && fd < MAXFD; fd++) {
    conn *c;
    if (!FD_ISSET(fd, r)) continue;
    if (!(c = vfd[fd])) { FD_CLR(fd, r); continue; }
    if (avail(c) > 0 || c->eof) { cnt++; continue; }
    /* nothing arrived: a blocking wait lets the next segment in flight arrive (it may carry 0
       bytes = spurious wake-up: the following read fails with EAGAIN again); else time-out */
    if ((!tv || tv->tv_sec || tv->tv_usec) && c->pend) { arrive(c); cnt++; continue; }
    FD_CLR(fd, r);
  }
  if (e) FD_ZERO(e);
  if (w) FD_ZERO(w);
  return cnt;
}
int close(int fd) {
  init_real();
  if (fd >= 0 && fd < MAXFD && vfd[fd]) { vfd[fd]->srvfd = -1; vfd[fd] = NULL; }
  return real_close(fd);
}
int gettimeofday(struct timeval *tv, void *tz) {
  (void)tz;
  if (tv) { tv->tv_sec = vclock_us / 1000000; tv->tv_usec = vclock_us % 1000000; }
  return 0;
}

/* ------------------------------------------------------------------ callbacks = observations */
static int idof(rfbClientPtr cl) { conn *c = (conn *)cl->clientData; return c ? c->id : -1; }
static void cb_kbd(rfbBool down, rfbKeySym key, rfbClientPtr cl) {
  progress_ctr++;
  printf("kbd c%d %u %lu\n", idof(cl), (unsigned)(unsigned char)down, (unsigned long)key);
}
static void cb_ptr(int mask, int x, int y, rfbClientPtr cl) {
  progress_ctr++;
  printf("ptr c%d %d %d %d\n", idof(cl), mask, x, y);
  rfbDefaultPtrAddEvent(mask, x, y, cl);      /* the library's own cursor bookkeeping runs too */
}
static void cb_cut(char *text, int len, rfbClientPtr cl) {
  printf("cut c%d %d %016llx\n", idof(cl), len, (unsigned long long)vh_fnv((unsigned char *)text, len > 0 ? (size_t)len : 0));
}
static void cb_cutu8(char *text, int len, rfbClientPtr cl) {
  printf("cutu8 c%d %d %016llx\n", idof(cl), len, (unsigned long long)vh_fnv((unsigned char *)text, len > 0 ? (size_t)len : 0));
}
static int hook_vo;
static enum rfbNewClientAction new_client_hook(rfbClientPtr cl) {
  if (hook_vo) cl->viewOnly = TRUE;
  return RFB_CLIENT_ACCEPT;
}
static void gone_hook(rfbClientPtr cl) {
  conn *c = (conn *)cl->clientData;
  if (c) c->cl = NULL;
}

/* ------------------------------------------------------------------ helpers */
static void drain(conn *c) {
  unsigned char tmp[65536];
  if (c->peer < 0) return;
  for (;;) { ssize_t n = real_read(c->peer, tmp, sizeof tmp); if (n <= 0) break; }
}
static void drain_all(void) { int i; for (i = 0; i < MAXC; i++) if (conns[i].used) drain(&conns[i]); }
static int is_open(conn *c) { return c->cl && c->cl->sock != RFB_INVALID_SOCKET; }

static const char *stname(rfbClientPtr cl) {
  switch (cl->state) {
    case RFB_PROTOCOL_VERSION: return "pv";
    case RFB_SECURITY_TYPE: return "sec";
    case RFB_AUTHENTICATION: return "auth";
    case RFB_INITIALISATION: case RFB_INITIALISATION_SHARED: return "init";
    case RFB_NORMAL: return "normal";
    default: return "other";
  }
}
static void report(void) {
  int i;
  for (i = 0; i < MAXC; i++) {
    conn *c = &conns[i];
    if (c->used && !is_open(c) && !c->closed_reported) { c->closed_reported = 1; printf("closed c%d\n", i); }
  }
  putchar('=');
  for (i = 0; i < MAXC; i++) {
    conn *c = &conns[i];
    if (!c->used) continue;
    if (!c->cl) printf(" c%d:gone", i);
    else printf(" c%d:%s:%s:%s", i, stname(c->cl), is_open(c) ? "open" : "closed", c->cl->viewOnly ? "vo" : "rw");
  }
  putchar('\n');
  fflush(stdout);
}
static void bad(void) { puts("bad-op"); fflush(stdout); }

extern rfbBool webSocketsHasDataInBuffer(rfbClientPtr cl);

static void queue_chunk(conn *c, unsigned char *p, size_t n) {   /* takes ownership of p */
  chunk *k = (chunk *)calloc(1, sizeof *k);
  k->n = n; k->p = p;
  if (c->pend_tail) c->pend_tail->next = k; else c->pend = k;
  c->pend_tail = k;
}
/* one masked binary WebSocket frame (client -> server) carrying n payload bytes */
static unsigned char *ws_frame_op(conn *c, int b0, const unsigned char *p, size_t n, size_t *outn);
static unsigned char *ws_frame(conn *c, const unsigned char *p, size_t n, size_t *outn) { return ws_frame_op(c, 0x82, p, n, outn); }
static unsigned char *ws_frame_op(conn *c, int b0, const unsigned char *p, size_t n, size_t *outn) {
  unsigned char *f = (unsigned char *)malloc(n + 14), m[4]; size_t h = 0, i;
  unsigned v = ++c->maskctr * 2654435761u;
  m[0] = (unsigned char)(v >> 24); m[1] = (unsigned char)(v >> 16); m[2] = (unsigned char)(v >> 8); m[3] = (unsigned char)v;
  f[h++] = (unsigned char)b0;
  if (n < 126) f[h++] = (unsigned char)(0x80 | n);
  else if (n < 65536) { f[h++] = 0x80 | 126; f[h++] = (unsigned char)(n >> 8); f[h++] = (unsigned char)n; }
  else { f[h++] = 0x80 | 127; for (i = 0; i < 8; i++) f[h++] = (unsigned char)((uint64_t)n >> (8 * (7 - i))); }
  memcpy(f + h, m, 4); h += 4;
  for (i = 0; i < n; i++) f[h + i] = p[i] ^ m[i & 3];
  *outn = h + n;
  return f;
}
/* queue `n` bytes for connection c in the given segmentation, then let the server consume them */
/* WebSocket only: frag=1 makes the segments of this op the FRAGMENTS of one message (first frame
   opcode 2 without FIN, continuation frames opcode 0, FIN on the last); ctl=ping|pong puts a control
   frame (FIN, opcode 9 / 10, ctlpay bytes of payload) between every two fragments */
static int opt_frag, opt_ctl, opt_ctlpay;
static void deliver(conn *c, const unsigned char *p, size_t n, const char *cuts, int one) {
  size_t prev = 0; int stuck = 0;
  if (c->ws && opt_frag) {
    size_t pos[64], np = 0, k; const char *s2 = cuts; vh_buf all2 = {0};
    pos[np++] = 0;
    while (s2 && *s2 && np < 62) { size_t cut = (size_t)strtoul(s2, (char **)&s2, 10); if (*s2 == ',') s2++; if (cut > n) cut = n; if (cut > pos[np - 1]) pos[np++] = cut; }
    if (pos[np - 1] < n || np == 1) pos[np++] = n;
    for (k = 0; k + 1 < np; k++) {
      size_t fn; int first = k == 0, last = k + 2 == np;
      unsigned char *f = ws_frame_op(c, (last ? 0x80 : 0) | (first ? 2 : 0), p + pos[k], pos[k + 1] - pos[k], &fn);
      if (one) { vh_buf_add(&all2, f, fn); free(f); } else queue_chunk(c, f, fn);
      if (!last && opt_ctl) {
        static const unsigned char cp[8] = { 'p', 'i', 'n', 'g', 1, 2, 3, 4 };
        f = ws_frame_op(c, 0x80 | (opt_ctl == 1 ? 9 : 10), cp, (size_t)opt_ctlpay, &fn);
        if (one) { vh_buf_add(&all2, f, fn); free(f); } else queue_chunk(c, f, fn);
      }
    }
    if (one && all2.n) { queue_chunk(c, all2.p, all2.n); all2.p = NULL; }
    free(all2.p);
    goto run;
  }
  const char *s = cuts;
  vh_buf all = {0};
  for (;;) {
    size_t cut = n, len;
    if (s && *s) { cut = (size_t)strtoul(s, (char **)&s, 10); if (*s == ',') s++; if (cut > n) cut = n; if (cut < prev) cut = prev; }
    len = cut - prev;
    if (!c->ws) {
      unsigned char *q = (unsigned char *)malloc(len ? len : 1);
      memcpy(q, p + prev, len);
      queue_chunk(c, q, len);
    } else if (len) {                       /* an empty segment carries no frame */
      size_t fn; unsigned char *f = ws_frame(c, p + prev, len, &fn);
      if (one) { vh_buf_add(&all, f, fn); free(f); } else queue_chunk(c, f, fn);
    }
    prev = cut;
    if (cut >= n && !(s && *s)) break;
  }
  if (c->ws && one && all.n) { queue_chunk(c, all.p, all.n); all.p = NULL; }
  free(all.p);
run:
  while (is_open(c)) {
    while (avail(c) == 0 && c->pend) arrive(c);      /* the event loop sleeps until a segment with data arrives */
    if (avail(c) == 0 && !(c->cl->wsctx && webSocketsHasDataInBuffer(c->cl))) break;
    {
      long before = progress_ctr; int st = c->cl->state; rfbClientPtr cl0 = c->cl;
      rfbProcessClientMessage(c->cl);
      if (is_open(c) && c->cl == cl0 && !c->cl->wsctx && progress_ctr == before && c->cl->state == st) {
        if (++stuck >= STUCK_LIMIT) die_hang("rfbProcessClientMessage does not consume the pending input (busy loop)");
      } else stuck = 0;
    }
    drain(c);
  }
  if (!is_open(c)) drop_input(c);
}

static uint64_t sm_state;
static uint64_t sm_next(void) {
  uint64_t z = (sm_state += 0x9E3779B97F4A7C15ull);
  z = (z ^ (z >> 30)) * 0xBF58476D1CE4E5B9ull;
  z = (z ^ (z >> 27)) * 0x94D049BB133111EBull;
  return z ^ (z >> 31);
}

static int one_of(char **tok, int n, int from) {
  int i;
  for (i = from; i < n; i++) if (!strcmp(tok[i], "one=1")) return 1;
  return 0;
}
static const char *cuts_of(char **tok, int n, int from) {
  int i;
  for (i = from; i < n; i++) if (!strncmp(tok[i], "cuts=", 5)) return tok[i] + 5;
  return NULL;
}
static conn *getconn(const char *t) {
  int id = atoi(t);
  if (id < 0 || id >= MAXC || !conns[id].used) return NULL;
  return &conns[id];
}

static char *pws[] = { (char *)"full", (char *)"view", NULL };

int main(void) {
  char *line, *tok[16];
  init_real();
  signal(SIGALRM, on_alarm);
  while ((line = vh_readline())) {
    static char opcopy[128];
    int n;
    strncpy(opcopy, line, sizeof opcopy - 1); cur_op = opcopy;
    io_calls = 0; alarm(OP_SECONDS);
    n = vh_split(line, tok, 16);
    if (n == 0 || tok[0][0] == '#') continue;
    { int i3; opt_frag = opt_ctl = 0; opt_ctlpay = 0;
      for (i3 = 1; i3 < n; i3++) {
        if (!strcmp(tok[i3], "frag=1")) opt_frag = 1;
        else if (!strncmp(tok[i3], "ctl=ping", 8)) { opt_ctl = 1; opt_ctlpay = atoi(tok[i3] + 8); }
        else if (!strncmp(tok[i3], "ctl=pong", 8)) { opt_ctl = 2; opt_ctlpay = atoi(tok[i3] + 8); }
      }
      if (opt_ctlpay < 0 || opt_ctlpay > 8) opt_ctlpay = 0; }
    if (!strcmp(tok[0], "screen") && n == 6 && !scr) {
      int w = atoi(tok[1]), h = atoi(tok[2]);
      if (w < 1 || h < 1 || w > 4096 || h > 4096) { bad(); continue; }
      scr = vh_screen(w, h, 4);
      if (!scr) { fprintf(stderr, "no screen\n"); return 2; }
      scr->alwaysShared = TRUE;
      scr->kbdAddEvent = cb_kbd; scr->ptrAddEvent = cb_ptr; scr->setXCutText = cb_cut;
      scr->newClientHook = new_client_hook;
      if (atoi(tok[4])) scr->setXCutTextUTF8 = cb_cutu8;
      if (atoi(tok[3])) { scr->authPasswdData = pws; scr->authPasswdFirstViewOnly = 1; scr->passwordCheck = rfbCheckPasswordByList; }
      scr->deferPtrUpdateTime = atoi(tok[5]);
      puts("ok"); fflush(stdout);
    } else if (!scr) { bad();
    } else if (!strcmp(tok[0], "conn") && (n == 2 || (n == 3 && !strcmp(tok[2], "ws")))) {
      int id = atoi(tok[1]), sv[2]; conn *c;
      if (id < 0 || id >= MAXC || conns[id].used) { bad(); continue; }
      if (socketpair(AF_UNIX, SOCK_STREAM, 0, sv) < 0 || sv[0] >= MAXFD) { fprintf(stderr, "socketpair\n"); return 2; }
      fcntl(sv[1], F_SETFL, fcntl(sv[1], F_GETFL) | O_NONBLOCK);
      { int sz = 4 << 20; setsockopt(sv[0], SOL_SOCKET, SO_SNDBUF, &sz, sizeof sz); setsockopt(sv[1], SOL_SOCKET, SO_RCVBUF, &sz, sizeof sz); }
      c = &conns[id]; memset(c, 0, sizeof *c);
      c->used = 1; c->id = id; c->srvfd = sv[0]; c->peer = sv[1]; c->ws = n == 3;
      vfd[sv[0]] = c;
      if (c->ws) {     /* the upgrade request has arrived when the server accepts the connection */
        static const char *req = "GET / HTTP/1.1\r\nHost: h\r\nOrigin: o\r\nSec-WebSocket-Key: dGhlIHNhbXBsZSBub25jZQ==\r\nSec-WebSocket-Version: 13\r\nSec-WebSocket-Protocol: binary\r\n\r\n";
        c->arr_n = strlen(req); c->arr = (unsigned char *)malloc(c->arr_n); memcpy(c->arr, req, c->arr_n); c->arr_off = 0;
      }
      c->cl = rfbNewClient(scr, sv[0]);
      if (c->cl) { c->cl->clientData = c; c->cl->clientGoneHook = gone_hook; }
      drain(c);
      report();
    } else if ((!strcmp(tok[0], "send") && n >= 3) || (!strcmp(tok[0], "sendgen") && n >= 5)) {
      conn *c = getconn(tok[1]); int gen = tok[0][4] == 'g';
      size_t hl = strlen(tok[2]) / 2 + 1, extra = gen ? (size_t)strtoul(tok[3], NULL, 10) : 0, i;
      unsigned char *b; long m;
      if (!c || !is_open(c) || extra > (64u << 20)) { bad(); continue; }
      b = (unsigned char *)malloc(hl + extra + 1);
      m = vh_unhex(tok[2], b, hl);
      if (m < 0) { free(b); bad(); continue; }
      if (gen) { sm_state = strtoull(tok[4], NULL, 10); for (i = 0; i < extra; i++) b[m + i] = (unsigned char)(sm_next() & 0xff); }
      deliver(c, b, (size_t)m + extra, cuts_of(tok, n, gen ? 5 : 3), one_of(tok, n, gen ? 5 : 3));
      free(b);
      report();
    } else if (!strcmp(tok[0], "auth") && n >= 3) {
      conn *c = getconn(tok[1]); unsigned char resp[CHALLENGESIZE];
      if (!c || !is_open(c) || c->cl->state != RFB_AUTHENTICATION) { bad(); continue; }
      memcpy(resp, c->cl->authChallenge, CHALLENGESIZE);
      if (!strcmp(tok[2], "full")) rfbEncryptBytes(resp, pws[0]);
      else if (!strcmp(tok[2], "view")) rfbEncryptBytes(resp, pws[1]);
      else if (!strcmp(tok[2], "bad")) { rfbEncryptBytes(resp, pws[0]); resp[5] ^= 0x10; }
      else { bad(); continue; }
      { /* extra=HEX: bytes that follow the response in the same stream (same frame for a WebSocket client) */
        static unsigned char rb[CHALLENGESIZE + 4096]; long ek = 0; int i2;
        memcpy(rb, resp, CHALLENGESIZE);
        for (i2 = 3; i2 < n; i2++) if (!strncmp(tok[i2], "extra=", 6)) ek = vh_unhex(tok[i2] + 6, rb + CHALLENGESIZE, 4096);
        if (ek < 0) { bad(); continue; }
        if (ek > 0) { deliver(c, rb, CHALLENGESIZE + (size_t)ek, cuts_of(tok, n, 3), one_of(tok, n, 3)); report(); continue; }
      }
      deliver(c, resp, CHALLENGESIZE, cuts_of(tok, n, 3), one_of(tok, n, 3));
      report();
    } else if (!strcmp(tok[0], "sendprov") && n >= 4) {
      conn *c = getconn(tok[1]); unsigned char fl[8], *pl, *msg; long fn, pn; uLongf zn; uint32_t l32;
      size_t cap = strlen(tok[3]) / 2 + 1;
      if (!c || !is_open(c)) { bad(); continue; }
      fn = vh_unhex(tok[2], fl, sizeof fl);
      pl = (unsigned char *)malloc(cap);
      pn = vh_unhex(tok[3], pl, cap);
      if (fn != 4 || pn < 0) { free(pl); bad(); continue; }
      zn = compressBound((uLong)pn);
      msg = (unsigned char *)malloc(12 + zn);
      if (compress(msg + 12, &zn, pl, (uLong)pn) != Z_OK) { fprintf(stderr, "compress\n"); return 2; }
      l32 = (uint32_t)(0u - (uint32_t)(4 + zn));
      msg[0] = 6; msg[1] = msg[2] = msg[3] = 0;
      msg[4] = (unsigned char)(l32 >> 24); msg[5] = (unsigned char)(l32 >> 16); msg[6] = (unsigned char)(l32 >> 8); msg[7] = (unsigned char)l32;
      memcpy(msg + 8, fl, 4);
      deliver(c, msg, 12 + zn, cuts_of(tok, n, 4), one_of(tok, n, 4));
      free(pl); free(msg);
      report();
    } else if (!strcmp(tok[0], "hookvo") && n == 2) {
      hook_vo = atoi(tok[1]) != 0;
      report();
    } else if (!strcmp(tok[0], "viewonly") && n == 3) {
      conn *c = getconn(tok[1]);
      if (!c || !c->cl) { bad(); continue; }
      c->cl->viewOnly = atoi(tok[2]) ? TRUE : FALSE;
      report();
    } else if (!strcmp(tok[0], "eof") && n == 2) {
      conn *c = getconn(tok[1]);
      if (!c || !is_open(c)) { bad(); continue; }
      c->eof = 1;
      rfbProcessClientMessage(c->cl);
      if (!is_open(c)) drop_input(c);
      report();
    } else if (!strcmp(tok[0], "pump") && n == 1) {
      rfbProcessEvents(scr, 0);
      drain_all();
      report();
    } else if (!strcmp(tok[0], "tick") && n == 2) {
      vclock_us += 1000LL * atoll(tok[1]);
      report();
    } else if ((!strcmp(tok[0], "scalex") || !strcmp(tok[0], "scaley")) && n == 5) {
      static rfbScreenInfo from, to;
      int f = atoi(tok[1]), t = atoi(tok[2]), x0 = atoi(tok[3]), x1 = atoi(tok[4]), x, isx = tok[0][5] == 'x';
      uint64_t h = 1469598103934665603ull;
      if (f < 1 || t < 1 || x0 < 0 || x1 > 65536) { bad(); continue; }
      from.width = from.height = f; to.width = to.height = t;
      for (x = x0; x < x1; x++) {
        unsigned v = (unsigned)(isx ? ScaleX(&from, &to, x) : ScaleY(&from, &to, x)); int k;
        for (k = 0; k < 4; k++) { h ^= (v >> (8 * k)) & 0xff; h *= 1099511628211ull; }
      }
      printf("%016llx\n", (unsigned long long)h); fflush(stdout);
    } else bad();
  }
  return 0;
}
