/* C16, threaded variant: the REAL background event loop (rfbRunEventLoop(...,TRUE): clientInput /
 * clientOutput threads) with a framebuffer replacement placed INSIDE the deferUpdateTime interval of
 * the output thread — between the moment it has noticed a pending modification and the moment it
 * sends it.  Deterministic without real time: `usleep` is interposed at link level; the deferral
 * sleep of the armed scenario becomes a rendezvous (the output thread reports "sleeping" and waits
 * until the application thread has replaced and FREED the framebuffer), every other deferral-length
 * sleep is cut to 1 ms.
 *
 * one scenario per input line:  thr W H B caps W2 H2 B2 mx my
 *   W H B     initial screen (B bytes per pixel), caps: 0 none, 1 NewFBSize, 2 ExtendedDesktopSize
 *   W2 H2 B2  the framebuffer installed during the deferral
 *   mx my     top-left corner of the 2x2 modification that wakes the output thread
 * output: one line `thr msgs=[...] cur=W2,H2`, preceded by `!` oracle lines:
 *   !rect  FAIL  a pixel rectangle outside the current size
 *   !order FAIL  pixel data before the size message (caps != 0)
 *   !thr   FAIL  the scenario was not reached / the stream ended early
 * ASan: the old buffer is freed during the deferral. */
#define _GNU_SOURCE
#include "sess.h"
#include <rfb/rfbregion.h>
#include <dlfcn.h>
#include <pthread.h>
#include <semaphore.h>
#include <time.h>
#include <signal.h>

#define DEFER_MS 777
static int (*real_usleep)(useconds_t);
static volatile int armed;
static sem_t sem_sleeping, sem_go;
static pthread_t main_thread;

int usleep(useconds_t us) {
  if (!real_usleep) real_usleep = (int (*)(useconds_t))dlsym(RTLD_NEXT, "usleep");
  if (us == DEFER_MS * 1000u && !pthread_equal(pthread_self(), main_thread)) {
    if (__sync_bool_compare_and_swap(&armed, 1, 2)) {      /* the deferral of the armed scenario */
      sem_post(&sem_sleeping);
      sem_wait(&sem_go);
      return 0;
    }
    return real_usleep(1000);                               /* virtual time for all other deferrals */
  }
  return real_usleep(us);
}

static int sem_wait_ms(sem_t *s, int ms) {
  struct timespec ts; clock_gettime(CLOCK_REALTIME, &ts);
  ts.tv_sec += ms / 1000; ts.tv_nsec += (long)(ms % 1000) * 1000000L;
  if (ts.tv_nsec >= 1000000000L) { ts.tv_sec++; ts.tv_nsec -= 1000000000L; }
  return sem_timedwait(s, &ts);
}

/* blocking read of exactly n bytes from the viewer's end, with a generous limit */
static int rd(int fd, unsigned char *p, size_t n, int ms) {
  size_t off = 0; int waited = 0;
  while (off < n) {
    ssize_t k = read(fd, p + off, n - off);
    if (k > 0) { off += (size_t)k; continue; }
    if (k == 0) return -1;
    if (errno == EAGAIN || errno == EINTR) {
      struct pollfd pf = { fd, POLLIN, 0 };
      if (waited >= ms) return -2;
      poll(&pf, 1, 50); waited += 50; continue;
    }
    return -1;
  }
  return 0;
}
static void wr(int fd, const unsigned char *p, size_t n) {
  size_t off = 0;
  while (off < n) { ssize_t k = write(fd, p + off, n - off); if (k > 0) off += (size_t)k; else if (errno != EAGAIN && errno != EINTR) return; else { struct pollfd pf = { fd, POLLOUT, 0 }; poll(&pf, 1, 50); } }
}
static uint16_t be16(const unsigned char *p) { return (uint16_t)((p[0] << 8) | p[1]); }
static uint32_t be32(const unsigned char *p) { return ((uint32_t)p[0] << 24) | (p[1] << 16) | (p[2] << 8) | p[3]; }

static void fill(char *fb, int w, int h, int b, unsigned seed) {
  size_t i, n = (size_t)w * h * b; uint64_t z = seed * 0x9E3779B97F4A7C15ull + 1;
  for (i = 0; i < n; i++) { z = z * 6364136223846793005ull + 1442695040888963407ull; fb[i] = (char)(z >> 33); }
}

#define LIM 30000      /* ms: every wait of the viewer side; far beyond anything a healthy run needs, also at load 100 */

/* read one FramebufferUpdate; append its summary to `out`; check it against the current size */
static int read_fbu(int fd, int cb, int curw, int curh, int caps, int *told, char *out, size_t outsz) {
  unsigned char h[16]; unsigned k, n; int rc;
  if ((rc = rd(fd, h, 4, LIM)) != 0) return rc;
  if (h[0] != 0) { printf("!thr FAIL unexpected message type %d\n", h[0]); return -1; }
  n = be16(h + 2);
  for (k = 0; k < n; k++) {
    int x, y, w, hh; int32_t enc; char t[96];
    if ((rc = rd(fd, h, 12, LIM)) != 0) return rc;
    x = be16(h); y = be16(h + 2); w = be16(h + 4); hh = be16(h + 6); enc = (int32_t)be32(h + 8);
    if (enc == 0) {
      size_t len = (size_t)w * hh * cb; unsigned char *buf = (unsigned char *)malloc(len + 1);
      rc = rd(fd, buf, len, LIM); free(buf);
      if (rc != 0) { printf("!thr FAIL stream ends inside a %dx%d rectangle\n", w, hh); return rc; }
      if (w == 0 || hh == 0 || x + w > curw || y + hh > curh)
        printf("!rect FAIL raw %d,%d,%d,%d outside the current %dx%d framebuffer\n", x, y, w, hh, curw, curh);
      if (caps && !*told) printf("!order FAIL pixel rectangle %d,%d,%d,%d before the size message\n", x, y, w, hh);
      snprintf(t, sizeof t, "raw(%d,%d,%d,%d)", x, y, w, hh);
    } else if (enc == (int32_t)0xFFFFFF21) {
      *told = 1;
      if (w != curw || hh != curh) printf("!rect FAIL NewFBSize %dx%d, framebuffer is %dx%d\n", w, hh, curw, curh);
      snprintf(t, sizeof t, "size(%d,%d)", w, hh);
    } else if (enc == (int32_t)0xFFFFFECC) {
      unsigned char e[4]; unsigned ns, s;
      if ((rc = rd(fd, e, 4, LIM)) != 0) return rc;
      ns = e[0];
      for (s = 0; s < ns; s++) { unsigned char sc[16]; if ((rc = rd(fd, sc, 16, LIM)) != 0) return rc; }
      *told = 1;
      if (w != curw || hh != curh) printf("!rect FAIL ExtendedDesktopSize %dx%d, framebuffer is %dx%d\n", w, hh, curw, curh);
      snprintf(t, sizeof t, "ext(%d,%d,%d,%d)", x, y, w, hh);
    } else if (enc == (int32_t)0xFFFFFF10 || enc == (int32_t)0xFFFFFF11) {
      printf("!thr FAIL cursor rectangle although not requested\n"); return -1;
    } else { printf("!thr FAIL unexpected encoding %d\n", enc); return -1; }
    if (strlen(out) + strlen(t) + 2 < outsz) { if (*out) strcat(out, ";"); strcat(out, t); }
  }
  return 0;
}

static int scenario(int W, int H, int B, int caps, int W2, int H2, int B2, int mx, int my) {
  rfbScreenInfoPtr scr; static vh_conn c; rfbClientPtr cl; unsigned char buf[256]; char out[512] = "";
  int told = 0, cb = B, i, rc; char *old, *nb;
  armed = 0;
  scr = vh_screen(W, H, B);
  if (!scr) { printf("!thr FAIL no screen\n"); return 1; }
  fill(scr->frameBuffer, W, H, B, 1);
  scr->deferUpdateTime = DEFER_MS;
  rfbRunEventLoop(scr, 40000, TRUE);
  if (vh_connect_pre(scr, &c, "RFB 003.008\n", 12) != 0 || !c.cl) { printf("!thr FAIL no client\n"); return 1; }
  cl = c.cl;
  rfbStartOnHoldClient(cl);
  /* handshake, done by the viewer side on this thread */
  if (rd(c.peer, buf, 12, LIM)) { printf("!thr FAIL no server version\n"); return 1; }
  if (rd(c.peer, buf, 2, LIM)) { printf("!thr FAIL no security types\n"); return 1; }      /* count=1, type None */
  buf[0] = 1; wr(c.peer, buf, 1);
  if (rd(c.peer, buf, 4, LIM)) { printf("!thr FAIL no security result\n"); return 1; }
  buf[0] = 1; wr(c.peer, buf, 1);
  if (rd(c.peer, buf, 24, LIM)) { printf("!thr FAIL no ServerInit\n"); return 1; }
  { uint32_t nl = be32(buf + 20); unsigned char *nm = (unsigned char *)malloc(nl + 1); rd(c.peer, nm, nl, LIM); free(nm); }
  /* SetEncodings: Raw [+ NewFBSize | ExtendedDesktopSize] */
  { unsigned char m[12] = { 2, 0, 0, (unsigned char)(caps ? 2 : 1), 0, 0, 0, 0, 0xFF, 0xFF, 0xFF, 0x21 };
    if (caps == 2) { m[10] = 0xFE; m[11] = 0xCC; }
    wr(c.peer, m, caps ? 12 : 8); }
  /* full update of the old geometry */
  { unsigned char m[10] = { 3, 0, 0, 0, 0, 0, (unsigned char)(W >> 8), (unsigned char)W, (unsigned char)(H >> 8), (unsigned char)H };
    wr(c.peer, m, 10); }
  if (caps == 2) { if (read_fbu(c.peer, cb, W, H, 0, &told, out, sizeof out)) { printf("!thr FAIL no initial ExtendedDesktopSize\n"); return 1; } }
  if (read_fbu(c.peer, cb, W, H, 0, &told, out, sizeof out)) { printf("!thr FAIL no initial update\n"); return 1; }
  out[0] = 0; told = 0;
  /* an incremental request for the whole OLD area stays outstanding */
  { unsigned char m[10] = { 3, 1, 0, 0, 0, 0, (unsigned char)(W >> 8), (unsigned char)W, (unsigned char)(H >> 8), (unsigned char)H };
    wr(c.peer, m, 10); }
  for (i = 0; i < LIM / 10; i++) {          /* until the input thread has recorded it */
    int e; LOCK(cl->updateMutex); e = sraRgnEmpty(cl->requestedRegion); UNLOCK(cl->updateMutex);
    if (!e) break;
    real_usleep(10000);
  }
  /* the application draws; the output thread notices and starts its deferral */
  armed = 1;
  { int x, y; for (y = my; y < my + 2 && y < H; y++) for (x = mx; x < mx + 2 && x < W; x++) memset(scr->frameBuffer + ((size_t)y * W + x) * B, 0x5A, (size_t)B); }
  rfbMarkRectAsModified(scr, mx, my, mx + 2, my + 2);
  if (sem_wait_ms(&sem_sleeping, LIM) != 0) { printf("!thr FAIL the output thread never reached its deferral\n"); armed = 0; return 1; }
  /* ... and INSIDE the deferral the framebuffer is replaced and the old one freed */
  old = scr->frameBuffer; nb = (char *)malloc((size_t)W2 * H2 * B2 + 1); fill(nb, W2, H2, B2, 2);
  rfbNewFramebuffer(scr, nb, W2, H2, B2 == 2 ? 5 : 8, B2 == 1 ? 1 : 3, B2);
  free(old);
  /* "Rich cursor data should be converted to new pixel format by the caller" (the output thread is parked) */
  if (B2 != B && scr->cursor && scr->cursor->richSource) rfbMakeRichCursorFromXCursor(scr, scr->cursor);
  sem_post(&sem_go);
  /* what the viewer receives now: (size message,) then rectangles of the NEW geometry only */
  rc = read_fbu(c.peer, cb, W2, H2, caps, &told, out, sizeof out);
  /* a resize-capable viewer got the size message first; the request that is still outstanding then brings
     pixel data of the new geometry */
  if (rc == 0 && caps) rc = read_fbu(c.peer, cb, W2, H2, caps, &told, out, sizeof out);
  if (rc != 0) printf("!thr FAIL no update after the replacement (rc %d)\n", rc);
  if (caps && !told) printf("!order FAIL no size message at all\n");
  printf("thr msgs=[%s] cur=%d,%d\n", out, W2, H2);
  fflush(stdout);
  close(c.peer);
  rfbShutdownServer(scr, TRUE);
  { char *fbm = scr->frameBuffer; rfbScreenCleanup(scr); free(fbm); }
  return 0;
}

int main(void) {
  char *line, *tok[16];
  main_thread = pthread_self();
  sem_init(&sem_sleeping, 0, 0); sem_init(&sem_go, 0, 0);
  real_usleep = (int (*)(useconds_t))dlsym(RTLD_NEXT, "usleep");
  signal(SIGPIPE, SIG_IGN);
  while ((line = vh_readline())) {
    int n = vh_split(line, tok, 16);
    if (n == 0 || tok[0][0] == '#') continue;
    if (!strcmp(tok[0], "thr") && n == 10) {
      scenario(atoi(tok[1]), atoi(tok[2]), atoi(tok[3]), atoi(tok[4]), atoi(tok[5]), atoi(tok[6]), atoi(tok[7]), atoi(tok[8]), atoi(tok[9]));
    } else puts("bad-op");
    fflush(stdout);
  }
  return 0;
}
