/* C10 harness: pixel-format translation on the real code (translate.c + templates).
 *
 * One real screen, one real client (socketpair, full handshake).  The script sets the server
 * format / colour map / economic switch and the client's requested format, lets the REAL
 * rfbSetTranslateFunction choose the function and build the table (directly or through a real
 * SetPixelFormat message), then calls cl->translateFn on buffers:
 *   - source: an exact-size malloc (ASan reports any read past the last source byte),
 *   - destination: exact size + CAN canary bytes on both sides (reported, not fatal).
 *
 * ops (one observation line each):
 *   host                                   -> le=<rfbEndianTest>
 *   fmt server|client bpp depth be tc rmax gmax bmax rs gs bs   -> ok
 *   cmap is16 count <hex>                  -> ok     (server colour map; 3*count bytes or BE shorts)
 *   recmap is16 count <hex>                -> ok     (palette change + rfbSetClientColourMaps)
 *   econ 0|1                               -> ok
 *   slack n                                -> ok     (n extra readable bytes after the source)
 *   set | setmsg                           -> reject | none fmt=.. | table=<bytes> fmt=.. [bgr233=<hex>]
 *   px <hex> w h stride                    -> <hex> canary=ok|BROKEN
 */
#include "sess.h"
extern size_t __sanitizer_get_allocated_size(const volatile void *p);  /* ASan runtime: exact requested size */

#define CAN 64
static rfbScreenInfoPtr scr;
static vh_conn conn;
static int have_conn = 0;
static rfbPixelFormat cfmt;           /* the format the scripted client asks for */
static uint8_t *cm8 = NULL; static uint16_t *cm16 = NULL;
static int slack = 0;
static int set_ok = 0;
static rfbPixelFormat deffmt;

/* a translate function that does not terminate must become a result, not a stuck check: CPU-time
   watchdog (ITIMER_VIRTUAL, so machine load does not matter) around every translateFn call;
   <= 10^6 pixels take milliseconds. */
#include <signal.h>
#include <sys/time.h>
static void on_hang(int sig) {
  static const char m[] = "\nHANG: translateFn used more than 5 s of CPU time on one area\n";
  (void)sig; if (write(2, m, sizeof m - 1)) {}
  _exit(124);
}
static void watchdog(int on) {
  struct itimerval it; memset(&it, 0, sizeof it);
  if (on) { signal(SIGVTALRM, on_hang); it.it_value.tv_sec = 5; }
  setitimer(ITIMER_VIRTUAL, &it, NULL);
}

static int parse_fmt(char **t, rfbPixelFormat *f) {
  long v[10]; int i;
  for (i = 0; i < 10; i++) { char *e; v[i] = strtol(t[i], &e, 10); if (*e || v[i] < 0) return -1; }
  if (v[0] > 255 || v[1] > 255 || v[2] > 1 || v[3] > 1 || v[4] > 65535 || v[5] > 65535 ||
      v[6] > 65535 || v[7] > 255 || v[8] > 255 || v[9] > 255) return -1;
  memset(f, 0, sizeof *f);
  f->bitsPerPixel = v[0]; f->depth = v[1]; f->bigEndian = v[2] ? TRUE : FALSE; f->trueColour = v[3] ? TRUE : FALSE;   /* the library's own booleans, as SetPixelFormat and rfbGetScreen store them */
  f->redMax = v[4]; f->greenMax = v[5]; f->blueMax = v[6];
  f->redShift = v[7]; f->greenShift = v[8]; f->blueShift = v[9];
  return 0;
}

static void reap(void) {
  if (have_conn && conn.cl && conn.cl->sock == RFB_INVALID_SOCKET) rfbProcessEvents(scr, 0);
  if (have_conn && !conn.cl) { if (conn.peer >= 0) close(conn.peer); free(conn.out.p); have_conn = 0; }
}

static int ensure_client(void) {
  rfbPixelFormat keep;
  reap();
  if (have_conn) return 0;
  /* connect under a plain 32bpp server format so that the handshake itself never depends on the
     scripted formats; the scripted server format is put back afterwards */
  keep = scr->serverFormat;
  scr->serverFormat = deffmt;
  if (vh_connect_pre(scr, &conn, "RFB 003.008\n", 12) < 0 || !conn.cl) return -1;
  have_conn = 1;
  if (vh_handshake_none(scr, &conn, 1) < 0) { scr->serverFormat = keep; return -1; }
  scr->serverFormat = keep;
  return 0;
}

static void print_fmt(const rfbPixelFormat *f) {
  printf(" fmt=%d,%d,%d,%d,%d,%d,%d,%d,%d,%d", f->bitsPerPixel, f->depth, f->bigEndian ? 1 : 0,
         f->trueColour ? 1 : 0, f->redMax, f->greenMax, f->blueMax, f->redShift, f->greenShift,
         f->blueShift);
}

static int ret_known = 0;   /* 1: `ok` is the value rfbSetTranslateFunction returned (direct call) */
static void report_set(rfbBool ok) {
  rfbClientPtr cl = conn.cl;
  vh_drain(&conn);
  set_ok = 0;
  if (!ok || !cl || cl->sock == RFB_INVALID_SOCKET) {
    /* a refused request: FALSE is returned AND the client is closed.  A client that stays
       connected would keep the refused cl->format next to the previous translateFn/table. */
    int open_ = cl && cl->sock != RFB_INVALID_SOCKET;
    printf("reject%s%s\n", (ok && ret_known) ? " returned-TRUE" : "", open_ ? " client-left-open" : "");
    if (open_) rfbCloseClient(cl);      /* so that the script continues on a fresh client */
    vh_buf_reset(&conn.out); return;
  }
  set_ok = 1;
  if (cl->translateFn == rfbTranslateNone) printf("none");
  else printf("table=%lu", (unsigned long)__sanitizer_get_allocated_size(cl->translateLookupTable));
  print_fmt(&cl->format);
  if (conn.out.n) {
    /* the BGR233 SetColourMapEntries message; its pad byte is never initialised by the code */
    if (conn.out.n >= 2) conn.out.p[1] = 0;
    printf(" bgr233="); vh_puthex(stdout, conn.out.p, conn.out.n);
  }
  putchar('\n');
  vh_buf_reset(&conn.out);
}

int main(void) {
  char *line; static char *tok[32];
  scr = vh_screen(8, 4, 4);
  if (!scr) { fprintf(stderr, "no screen\n"); return 2; }
  cfmt = scr->serverFormat; deffmt = scr->serverFormat;
  while ((line = vh_readline())) {
    int n = vh_split(line, tok, 32);
    if (n == 0 || tok[0][0] == '#') continue;
    if (!strcmp(tok[0], "host") && n == 1) {
      printf("le=%d\n", rfbEndianTest ? 1 : 0);
    } else if (!strcmp(tok[0], "fmt") && n == 12) {
      rfbPixelFormat f;
      if (parse_fmt(tok + 2, &f) < 0) { puts("bad-op"); goto next; }
      if (!strcmp(tok[1], "server")) { scr->serverFormat = f; set_ok = 0; puts("ok"); }
      else if (!strcmp(tok[1], "client")) { cfmt = f; set_ok = 0; puts("ok"); }
      else puts("bad-op");
    } else if ((!strcmp(tok[0], "cmap") || !strcmp(tok[0], "recmap")) && n == 4) {
      /* cmap: the application installs a colour map (a later set/setmsg builds the table);
         recmap: the application CHANGES the palette mid-session and calls rfbSetClientColourMaps,
         as it must; the table of a client that has sent SetPixelFormat is rebuilt */
      int re = tok[0][0] == 'r';
      int is16 = atoi(tok[1]); long cnt = atol(tok[2]); size_t hl = strlen(tok[3]);
      unsigned char *raw; long got, i;
      if ((is16 != 0 && is16 != 1) || cnt < 0 || cnt > 65536) { puts("bad-op"); goto next; }
      if (re && (!have_conn || !conn.cl || !set_ok ||
                 (!scr->serverFormat.trueColour && scr->serverFormat.bitsPerPixel > 16))) {
        puts("bad-op"); goto next;
      }
      raw = (unsigned char *)malloc(hl / 2 + 1);
      got = vh_unhex(tok[3], raw, hl / 2 + 1);
      if (got != cnt * 3 * (is16 ? 2 : 1)) { free(raw); puts("bad-op"); goto next; }
      free(cm8); free(cm16); cm8 = NULL; cm16 = NULL;
      scr->colourMap.count = (uint32_t)cnt; scr->colourMap.is16 = is16;
      if (is16) {
        cm16 = (uint16_t *)malloc(cnt * 6 + 2);
        for (i = 0; i < cnt * 3; i++) cm16[i] = (uint16_t)(raw[2 * i] << 8 | raw[2 * i + 1]);
        scr->colourMap.data.shorts = cm16;
      } else {
        cm8 = (uint8_t *)malloc(cnt * 3 + 1);
        memcpy(cm8, raw, cnt * 3);
        scr->colourMap.data.bytes = cm8;
      }
      free(raw);
      if (re) { rfbSetClientColourMaps(scr, 0, 0); vh_drain(&conn); vh_buf_reset(&conn.out); }
      else set_ok = 0;
      puts("ok");
    } else if (!strcmp(tok[0], "econ") && n == 2) {
      rfbEconomicTranslate = atoi(tok[1]) ? TRUE : FALSE; set_ok = 0; puts("ok");
    } else if (!strcmp(tok[0], "slack") && n == 2) {
      slack = atoi(tok[1]); if (slack < 0 || slack > 64) slack = 0; puts("ok");
    } else if (!strcmp(tok[0], "set") && n == 1) {
      rfbBool ok;
      if (ensure_client() < 0) { puts("harness-error"); goto next; }
      vh_buf_reset(&conn.out);
      conn.cl->format = cfmt;
      ok = rfbSetTranslateFunction(conn.cl);
      ret_known = 1; report_set(ok);
    } else if (!strcmp(tok[0], "setmsg") && n == 1) {
      unsigned char m[20];
      if (ensure_client() < 0) { puts("harness-error"); goto next; }
      vh_buf_reset(&conn.out);
      memset(m, 0, sizeof m);
      m[0] = rfbSetPixelFormat;
      m[4] = cfmt.bitsPerPixel; m[5] = cfmt.depth; m[6] = cfmt.bigEndian ? 1 : 0; m[7] = cfmt.trueColour ? 1 : 0;
      m[8] = cfmt.redMax >> 8; m[9] = cfmt.redMax & 255;
      m[10] = cfmt.greenMax >> 8; m[11] = cfmt.greenMax & 255;
      m[12] = cfmt.blueMax >> 8; m[13] = cfmt.blueMax & 255;
      m[14] = cfmt.redShift; m[15] = cfmt.greenShift; m[16] = cfmt.blueShift;
      vh_send(&conn, m, 20);
      rfbProcessClientMessage(conn.cl);
      ret_known = 0; report_set(TRUE);
    } else if (!strcmp(tok[0], "px") && n == 5) {
      size_t hl = strlen(tok[1]); long slen; int w = atoi(tok[2]), h = atoi(tok[3]), stride = atoi(tok[4]);
      unsigned char *raw, *src, *dst; size_t inB, outB, need, outlen, i; int canok = 1; size_t step;
      rfbClientPtr cl = conn.cl;
      if (!have_conn || !cl || !set_ok || cl->sock == RFB_INVALID_SOCKET || w < 0 || h < 0 ||
          stride < 0 || w > 1000000 || h > 1000000) { puts("bad-op"); goto next; }
      inB = scr->serverFormat.bitsPerPixel / 8; outB = cl->format.bitsPerPixel / 8;
      if ((uint64_t)w * h > 1000000) { puts("bad-op"); goto next; }
      /* bytes the area occupies in the source: rows at the stride the code really uses */
      if (cl->translateFn == rfbTranslateNone) { step = stride; inB = outB; }
      else if (inB == 3) step = stride;
      else step = ((size_t)stride / inB) * inB;
      need = (w > 0 && h > 0) ? (size_t)(h - 1) * step + (size_t)w * inB : 0;
      raw = (unsigned char *)malloc(hl / 2 + 1);
      slen = vh_unhex(tok[1], raw, hl / 2 + 1);
      if (slen < 0 || (size_t)slen < need) { free(raw); puts("bad-op"); goto next; }
      src = (unsigned char *)malloc((size_t)slen + slack + (slen + slack == 0));
      memcpy(src, raw, slen); memset(src + slen, 0xEE, slack); free(raw);
      outlen = (size_t)w * h * outB;
      dst = (unsigned char *)malloc(outlen + 2 * CAN);
      memset(dst, 0xA5, outlen + 2 * CAN);
      for (i = 0; i < outlen; i++) dst[CAN + i] = 0x5A;
      watchdog(1);
      cl->translateFn(cl->translateLookupTable, &scr->serverFormat, &cl->format,
                      (char *)src, (char *)dst + CAN, stride, w, h);
      watchdog(0);
      for (i = 0; i < CAN; i++) if (dst[i] != 0xA5 || dst[CAN + outlen + i] != 0xA5) canok = 0;
      vh_puthex(stdout, dst + CAN, outlen);
      printf(" canary=%s\n", canok ? "ok" : "BROKEN");
      free(src); free(dst);
    } else puts("bad-op");
  next:
    fflush(stdout);
  }
  return 0;
}
