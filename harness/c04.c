/* C04 harness: hostile byte streams against the REAL server (rfbNewClient / rfbCheckFds /
 * rfbProcessEvents over AF_UNIX socketpairs) with
 *   - virtual time: select() is interposed; a wait on a silent peer costs no real time, it is
 *     counted (read waits / write waits / virtual ms) instead,
 *   - deterministic segmentation: a `send` is cut into segments, the next segment is delivered
 *     exactly when the server has consumed the previous one (inside its select()),
 *   - an allocation recorder (__sanitizer_install_malloc_and_free_hooks) that records the largest
 *     single request made while client input is being processed,
 *   - a file-system guard (open/creat/mkdir/rmdir/unlink/rename/utime/opendir confined to a
 *     sandbox directory) so that mutated file-transfer messages cannot touch anything else,
 *   - a well-behaved WITNESS client (id 0) whose byte stream is hashed after every `tick`;
 *     `--solo` skips all hostile ops so that the python side can compare the two runs.
 *
 * ops (one per line; one observation line per op; lines starting with '#' are raw measurements
 * for the python oracle and are not part of the model comparison):
 *   cfg k=v ...            before start: w h bpp(1|2|4) pw ft tight xvp utf8 sdh wait wenc view
 *   start                  -> ok
 *   conn  id hexpre        -> r id <st> n=.. rw=.. ww=.. vt=.. a=..
 *   send  id hex [c=i,j,..] [eof]   -> r ...
 *   auth  id ok|bad|short  -> r ...      (VNC-auth response computed from the captured challenge)
 *   reset id               -> r ...      (peer closes)
 *   stopread id            -> ok         (peer never reads again; server->peer direction is filled)
 *   tick  seed             -> ok         (application draws, witness requests an update)
 *   app   copyrects n | cuttext n | bell -> ok   (application behaviour)
 *   end                    -> end <clients-left>
 */
#define _GNU_SOURCE
#include "sess.h"
#include <dlfcn.h>
#include <signal.h>
#include <dirent.h>
#include <pthread.h>
#include <sys/stat.h>
#include <sys/time.h>
#include <utime.h>
#include <stdarg.h>
#include <rfb/rfbregion.h>
#include <sys/un.h>
#include <sys/resource.h>

extern int __sanitizer_install_malloc_and_free_hooks(void (*mh)(const volatile void *, size_t),
                                                     void (*fh)(const volatile void *));
extern int SetFtpRoot(char *path);
extern int __lsan_do_recoverable_leak_check(void);
extern void rfbEncryptBytes(unsigned char *bytes, char *passwd);

/* ------------------------------------------------------------------ state */
#define MAXC 16
#define MAXFLOOD 64
#define MAXSEG 64
typedef struct {
  vh_conn c; int used, stopread, ws;
  unsigned char *seg[MAXSEG]; size_t seglen[MAXSEG]; int nseg, segpos;
  int eof_after;                 /* close the peer after the last segment has been delivered */
  unsigned char chal[16]; int have_chal;
  int fault;                     /* injected once during the next op: F_* */
  long trickle;                  /* >0: every later segment arrives `trickle` ms (virtual) after the wait began */
} hconn;
enum { F_NONE, F_RD_EINTR, F_RD_RESET, F_SEL_ERR, F_WR_EINTR, F_WR_ZERO, F_WSEL_ERR, F_WSEL_EINTR };
static hconn H[MAXC];
static rfbScreenInfoPtr scr;
static int solo = 0, started = 0;
static unsigned watchdog_s = 45;     /* real-time watchdog per op; a HANG is confirmed by a serial retry with 3x */
static char sandbox[256];

/* configuration */
static int cW = 64, cH = 48, cBpp = 4, cPw = 0, cFt = 0, cTight = 0, cXvp = 0, cUtf8 = 0, cSdh = 0,
           cWait = 20000, cWenc = 5, cView = 0, cHttp = 0;
static char lpath[300], hpath[300], wwwdir[300];
static int lsock = -1, lsock6 = -1, hlsock = -1;
static char lpath6[300];
static rfbClientPtr last_new_client;
static char *passwds[] = { (char *)"secret", NULL };

/* measurement */
static volatile int in_server = 0;     /* virtual time active */
static volatile int harness_depth = 0; /* allocations made by the harness itself are not recorded */
static int win = 0;                    /* 0 none, 1 message window, 2 update window */
static size_t amax[3], asum[3];
static long rwaits, wwaits, vtime_ms, longest_call_ms, call_ms, trickles;
static int fs_guard = 0;
static long fs_denied = 0;
static long cb_kbd, cb_ptr, cb_cut, cb_utf8, cb_chat, cb_sw, cb_si, cb_xvp, cb_sds, cb_base;
static long cb_ext;
static long cb_total(void) { return cb_kbd + cb_cut + cb_utf8 + cb_chat + cb_sw + cb_si + cb_xvp + cb_sds + cb_ext; }

static void mhook(const volatile void *p, size_t sz) {
  (void)p;
  if (!win || harness_depth) return;
  if (sz > amax[win]) amax[win] = sz;
  asum[win] += sz;
}
static void fhook(const volatile void *p) { (void)p; }

/* ------------------------------------------------------------------ interposers */
typedef int (*select_fn)(int, fd_set *, fd_set *, fd_set *, struct timeval *);
static select_fn real_select;
static hconn *by_srvfd(int fd) {
  int i;
  for (i = 0; i < MAXC; i++) if (H[i].used && H[i].c.srvfd == fd && H[i].c.cl) return &H[i];
  return NULL;
}
static int one_fd(int nfds, fd_set *s) {
  int i, f = -1;
  for (i = 0; i < nfds; i++) if (FD_ISSET(i, s)) { if (f >= 0) return -1; f = i; }
  return f;
}
static void deliver_next(hconn *h) {
  harness_depth++;
  if (h->segpos < h->nseg) {
    vh_send(&h->c, h->seg[h->segpos], h->seglen[h->segpos]);
    h->segpos++;
    if (h->segpos == h->nseg && h->eof_after && h->c.peer >= 0) { close(h->c.peer); h->c.peer = -1; }
  }
  harness_depth--;
}
static void hdrain(hconn *h) {
  harness_depth++;
  if (h->c.peer >= 0 && !h->stopread) vh_drain(&h->c);
  harness_depth--;
}

int select(int nfds, fd_set *r, fd_set *w, fd_set *e, struct timeval *tv) {
  struct timeval z = {0, 0};
  long ms;
  if (!real_select) real_select = (select_fn)dlsym(RTLD_NEXT, "select");
  if (!in_server || !tv) return real_select(nfds, r, w, e, tv);
  ms = tv->tv_sec * 1000 + tv->tv_usec / 1000;
  if (tv->tv_sec == 0 && tv->tv_usec == 0) return real_select(nfds, r, w, e, tv);
  if (w && !r) {                       /* rfbWriteExact waiting for the peer to drain */
    fd_set ws = *w; int fd = one_fd(nfds, w), n; hconn *h = fd >= 0 ? by_srvfd(fd) : NULL;
    if (h && h->fault == F_WSEL_ERR) { h->fault = F_NONE; errno = EBADF; return -1; }
    if (h && h->fault == F_WSEL_EINTR) { h->fault = F_NONE; errno = EINTR; return -1; }
    if (h) hdrain(h);
    n = real_select(nfds, NULL, &ws, NULL, &z);
    if (n != 0) { *w = ws; return n; }
    wwaits++; vtime_ms += ms; call_ms += ms;
    FD_ZERO(w);
    return 0;
  }
  if (r) {                             /* rfbReadExactTimeout / rfbPeekExactTimeout / ws handshake */
    fd_set rs = *r, es; int fd = one_fd(nfds, r), n; hconn *h = fd >= 0 ? by_srvfd(fd) : NULL;
    if (e) es = *e;
    if (h && h->fault == F_SEL_ERR) { h->fault = F_NONE; errno = EBADF; return -1; }
    n = real_select(nfds, &rs, NULL, e ? &es : NULL, &z);
    if (n == 0 && h && h->segpos < h->nseg && (h->trickle == 0 || h->trickle < ms)) {
      if (h->trickle) { vtime_ms += h->trickle; call_ms += h->trickle; trickles++; }
      deliver_next(h);
      rs = *r; if (e) es = *e; z.tv_sec = 0; z.tv_usec = 0;
      n = real_select(nfds, &rs, NULL, e ? &es : NULL, &z);
    }
    if (n != 0) { *r = rs; if (e) *e = es; return n; }
    rwaits++; vtime_ms += ms; call_ms += ms;
    FD_ZERO(r); if (e) FD_ZERO(e);
    return 0;
  }
  return real_select(nfds, r, w, e, tv);
}

/* fault injection on the server side of one connection -------------- */
/* these definitions replace ASan's own read/write interceptors: keep their buffer check */
extern void *__asan_region_is_poisoned(void *beg, size_t size);
static void asan_check(const void *buf, size_t n, int is_write) {
  void *bad = (buf && n) ? __asan_region_is_poisoned((void *)buf, n) : NULL;
  if (bad) { if (is_write) *(volatile char *)bad = 0; else { volatile char c = *(volatile char *)bad; (void)c; } }
}
ssize_t read(int fd, void *buf, size_t n) {
  static ssize_t (*real)(int, void *, size_t);
  if (!real) real = (ssize_t (*)(int, void *, size_t))dlsym(RTLD_NEXT, "read");
  if (in_server) asan_check(buf, n, 1);
  if (in_server) {
    hconn *h = by_srvfd(fd);
    if (h && h->fault == F_RD_EINTR) { h->fault = F_NONE; errno = EINTR; return -1; }
    if (h && h->fault == F_RD_RESET) { h->fault = F_NONE; errno = ECONNRESET; return -1; }
  }
  return real(fd, buf, n);
}
ssize_t write(int fd, const void *buf, size_t n) {
  static ssize_t (*real)(int, const void *, size_t);
  if (!real) real = (ssize_t (*)(int, const void *, size_t))dlsym(RTLD_NEXT, "write");
  if (in_server) asan_check(buf, n, 0);
  if (in_server) {
    hconn *h = by_srvfd(fd);
    if (h && h->fault == F_WR_EINTR) { h->fault = F_NONE; errno = EINTR; return -1; }
    if (h && h->fault == F_WR_ZERO) { h->fault = F_NONE; return 0; }
  }
  return real(fd, buf, n);
}

/* file-system guard ------------------------------------------------ */
static int path_ok(const char *p) {
  size_t n = strlen(sandbox);
  if (!fs_guard) return 1;
  if (!p || strncmp(p, sandbox, n) != 0 || (p[n] != 0 && p[n] != '/')) { fs_denied++; return 0; }
  if (strstr(p, "/../") || (strlen(p) >= 3 && !strcmp(p + strlen(p) - 3, "/.."))) { fs_denied++; return 0; }
  return 1;
}
int open(const char *path, int flags, ...) {
  static int (*real)(const char *, int, ...);
  mode_t mode = 0;
  if (!real) real = (int (*)(const char *, int, ...))dlsym(RTLD_NEXT, "open");
  if (flags & (O_CREAT | O_TMPFILE)) { va_list ap; va_start(ap, flags); mode = va_arg(ap, mode_t); va_end(ap); }
  if (!path_ok(path)) { errno = EACCES; return -1; }
  return real(path, flags, mode);
}
int creat(const char *path, mode_t mode) {
  static int (*real)(const char *, mode_t);
  if (!real) real = (int (*)(const char *, mode_t))dlsym(RTLD_NEXT, "creat");
  if (!path_ok(path)) { errno = EACCES; return -1; }
  return real(path, mode);
}
int mkdir(const char *path, mode_t mode) {
  static int (*real)(const char *, mode_t);
  if (!real) real = (int (*)(const char *, mode_t))dlsym(RTLD_NEXT, "mkdir");
  if (!path_ok(path)) { errno = EACCES; return -1; }
  return real(path, mode);
}
int rmdir(const char *path) {
  static int (*real)(const char *);
  if (!real) real = (int (*)(const char *))dlsym(RTLD_NEXT, "rmdir");
  if (!path_ok(path)) { errno = EACCES; return -1; }
  return real(path);
}
int unlink(const char *path) {
  static int (*real)(const char *);
  if (!real) real = (int (*)(const char *))dlsym(RTLD_NEXT, "unlink");
  if (!path_ok(path)) { errno = EACCES; return -1; }
  return real(path);
}
int rename(const char *a, const char *b) {
  static int (*real)(const char *, const char *);
  if (!real) real = (int (*)(const char *, const char *))dlsym(RTLD_NEXT, "rename");
  if (!path_ok(a) || !path_ok(b)) { errno = EACCES; return -1; }
  return real(a, b);
}
int utime(const char *path, const struct utimbuf *t) {
  static int (*real)(const char *, const struct utimbuf *);
  if (!real) real = (int (*)(const char *, const struct utimbuf *))dlsym(RTLD_NEXT, "utime");
  if (!path_ok(path)) { errno = EACCES; return -1; }
  return real(path, t);
}
DIR *opendir(const char *path) {
  static DIR *(*real)(const char *);
  if (!real) real = (DIR *(*)(const char *))dlsym(RTLD_NEXT, "opendir");
  if (!path_ok(path)) { errno = EACCES; return NULL; }
  return real(path);
}
/* the TightVNC file-transfer extension starts a download thread; run it inline (deterministic) */
#define INLINE_THREAD ((pthread_t)0x5A5A5A5A)
int pthread_create(pthread_t *t, const pthread_attr_t *a, void *(*fn)(void *), void *arg) {
  static int (*real)(pthread_t *, const pthread_attr_t *, void *(*)(void *), void *);
  if (!real) real = (int (*)(pthread_t *, const pthread_attr_t *, void *(*)(void *), void *))dlsym(RTLD_NEXT, "pthread_create");
  if (!in_server) return real(t, a, fn, arg);
  *t = INLINE_THREAD;
  fn(arg);
  return 0;
}
int pthread_join(pthread_t t, void **ret) {
  static int (*real)(pthread_t, void **);
  if (!real) real = (int (*)(pthread_t, void **))dlsym(RTLD_NEXT, "pthread_join");
  if (t == INLINE_THREAD) { if (ret) *ret = NULL; return 0; }
  return real(t, ret);
}

/* ------------------------------------------------------------------ application callbacks */
static void app_kbd(rfbBool d, rfbKeySym k, rfbClientPtr cl) { (void)d; (void)k; (void)cl; cb_kbd++; }
static void app_ptr(int b, int x, int y, rfbClientPtr cl) { (void)b; (void)x; (void)y; (void)cl; cb_ptr++; }
static void app_cut(char *s, int l, rfbClientPtr cl) {
  volatile char sink = 0; int i; (void)cl;
  for (i = 0; i < l; i++) sink ^= s[i];      /* touch every byte: ASan checks the buffer */
  cb_cut++;
}
static void app_utf8(char *s, int l, rfbClientPtr cl) { (void)s; (void)l; (void)cl; cb_utf8++; }
static void app_chat(rfbClientPtr cl, int len, char *s) {
  volatile char sink = 0; int i; (void)cl;
  if (s && len > 0 && (unsigned)len < rfbTextMaxSize) for (i = 0; i < len; i++) sink ^= s[i];
  cb_chat++;
}
static void app_sw(rfbClientPtr cl, int x, int y) { (void)cl; (void)x; (void)y; cb_sw++; }
static void app_si(rfbClientPtr cl, int st) { (void)cl; (void)st; cb_si++; }
static rfbBool app_xvp(rfbClientPtr cl, uint8_t v, uint8_t c) { (void)cl; (void)v; cb_xvp++; return (c & 1) ? TRUE : FALSE; }
static int app_sds(int w, int h, int n, rfbExtDesktopScreen *s, rfbClientPtr cl) {
  volatile uint32_t sink = 0; int i; (void)cl; (void)w; (void)h;
  for (i = 0; i < n; i++) sink ^= s[i].id ^ s[i].flags ^ s[i].width;   /* touch the array */
  cb_sds++;
  return cSdh == 2 ? 0 : rfbExtDesktopSize_ResizeProhibited;
}

/* a protocol extension of the application: one pseudo-encoding, every enable call is counted
   (an enable call after a failed read would show as an extra callback) */
#define C04_PSEUDO_ENC 0x43303400
static int c04_pseudo[] = { C04_PSEUDO_ENC, 0 };
static rfbBool c04_enable(rfbClientPtr cl, void **data, int enc) {
  (void)cl; (void)data;
  if (enc != C04_PSEUDO_ENC) return FALSE;
  cb_ext++;
  return TRUE;
}
static rfbProtocolExtension c04_ext = { NULL, NULL, c04_pseudo, c04_enable, NULL, NULL, NULL, NULL, NULL };

/* ------------------------------------------------------------------ helpers */
static int alive(hconn *h) { return h->used && h->c.cl && h->c.cl->sock != RFB_INVALID_SOCKET; }
static int srv_readable(hconn *h) {
  struct pollfd p; int n;
  if (!alive(h)) return 0;
  p.fd = h->c.cl->sock; p.events = POLLIN; p.revents = 0;
  n = poll(&p, 1, 0);
  return n > 0 && (p.revents & (POLLIN | POLLHUP | POLLERR));
}
static void hang(int sig) {
  static const char m[] = "HANG\n";
  (void)sig; if (write(1, m, sizeof m - 1) < 0) {}
  _exit(97);
}
static void win_begin(int w) { win = w; call_ms = 0; in_server = 1; fs_guard = 1; }
static void win_end(void) { if (call_ms > longest_call_ms) longest_call_ms = call_ms; win = 0; in_server = 0; fs_guard = 0; }

static int any_readable(void) {
  int i; for (i = 0; i < MAXC; i++) if (H[i].used && srv_readable(&H[i])) return 1;
  return 0;
}
static int any_readable_all(void) {
  rfbClientIteratorPtr it = rfbGetClientIterator(scr); rfbClientPtr cl; int r = 0;
  while ((cl = rfbClientIteratorNext(it))) {
    struct pollfd p; p.fd = cl->sock; p.events = POLLIN; p.revents = 0;
    if (cl->sock >= 0 && poll(&p, 1, 0) > 0) r = 1;
  }
  rfbReleaseClientIterator(it);
  return r;
}
/* update window: the application's event loop runs until nothing is left to do */
static void pump_updates(void) {
  int it, idle = 0, i;
  for (it = 0; it < 2000 && idle < 2; it++) {
    int busy;
    win_begin(2);
    busy = rfbProcessEvents(scr, 0) ? 1 : 0;
    win_end();
    for (i = 0; i < MAXC; i++) if (H[i].used) hdrain(&H[i]);
    if (any_readable()) busy = 1;
    idle = busy ? 0 : idle + 1;
  }
}
/* message window: one rfbCheckFds round per pending client message of connection h */
static int pump_conn(hconn *h) {
  int n = 0, it;
  for (it = 0; it < 200000; it++) {
    if (!alive(h)) break;
    if (!srv_readable(h)) {
      if (h->segpos < h->nseg) { deliver_next(h); continue; }
      break;
    }
    win_begin(1);
    rfbCheckFds(scr, 0);
    win_end();
    n++;
    hdrain(h);
  }
  return n;
}
static const char *aclass(size_t n) {
  if (n <= 65536) return "s";
  if (n <= (1u << 20) + 65536) return "m";
  if (n <= (1ull << 31) + 65536) return "l";
  return "x";
}
static void meas_reset(void) {
  amax[1] = amax[2] = asum[1] = asum[2] = 0; rwaits = wwaits = vtime_ms = 0; longest_call_ms = 0; trickles = 0;
  cb_base = cb_total();
}
static void capture_challenge(hconn *h) {
  if (h->c.out.n >= 16) { memcpy(h->chal, h->c.out.p + h->c.out.n - 16, 16); h->have_chal = 1; }
}
static void report(int id, hconn *h, int n) {
  const char *st = alive(h) ? "open" : "closed";
  int state = alive(h) ? (int)h->c.cl->state : -1;
  printf("r %d %s:%d n=%d rw=%ld ww=%ld vt=%ld cb=%ld a=%s\n", id, st, state, n, rwaits, wwaits, vtime_ms,
         cb_total() - cb_base, aclass(amax[1]));
  printf("#raw id=%d tr=%ld amax=%zu asum=%zu umax=%zu usum=%zu call=%ld fsden=%ld cb=%ld,%ld,%ld,%ld,%ld,%ld,%ld,%ld,%ld\n",
         id, trickles, amax[1], asum[1], amax[2], asum[2], longest_call_ms, fs_denied,
         cb_kbd, cb_ptr, cb_cut, cb_utf8, cb_chat, cb_sw, cb_si, cb_xvp, cb_sds);
}
static void free_segs(hconn *h) {
  int i; for (i = 0; i < h->nseg; i++) free(h->seg[i]);
  h->nseg = h->segpos = 0; h->eof_after = 0;
}
static void after_op(int id, hconn *h, int n) {
  capture_challenge(h);
  pump_updates();
  report(id, h, n);
  vh_buf_reset(&h->c.out);
  free_segs(h);
  h->fault = F_NONE; h->trickle = 0;
}

static int new_conn(hconn *h, const unsigned char *pre, size_t prelen) {
  int rc;
  h->used = 1;
  win_begin(1);
  rc = vh_connect_pre(scr, &h->c, pre, prelen);
  win_end();
  if (h->c.cl && cView) h->c.cl->viewOnly = TRUE;
  return rc;
}

/* witness ---------------------------------------------------------- */
static void wit_send(const unsigned char *p, size_t n) { harness_depth++; vh_send(&H[0].c, p, n); harness_depth--; }
static void put16(unsigned char *p, unsigned v) { p[0] = v >> 8; p[1] = v & 255; }
static void put32(unsigned char *p, uint32_t v) { p[0] = v >> 24; p[1] = v >> 16; p[2] = v >> 8; p[3] = v; }
static void wit_request(int incr) {
  unsigned char m[10] = {3};
  m[1] = (unsigned char)incr; put16(m + 2, 0); put16(m + 4, 0); put16(m + 6, cW); put16(m + 8, cH);
  wit_send(m, 10);
}
static uint64_t wit_hash = 1469598103934665603ull; static size_t wit_len = 0; static int wit_tick = 0;
static void wit_account(void) {
  vh_buf *o = &H[0].c.out; size_t i;
  for (i = 0; i < o->n; i++) { wit_hash ^= o->p[i]; wit_hash *= 1099511628211ull; }
  wit_len += o->n; vh_buf_reset(o);
}
static int wit_start(void) {
  hconn *h = &H[0]; unsigned char b[64]; int ok;
  new_conn(h, (const unsigned char *)"RFB 003.008\n", 12);
  pump_conn(h); pump_updates();
  if (cPw) {
    b[0] = 2; wit_send(b, 1); pump_conn(h); pump_updates(); hdrain(h);
    capture_challenge(h);
    memcpy(b, h->chal, 16); rfbEncryptBytes(b, passwds[0]);
    wit_send(b, 16); pump_conn(h); pump_updates();
  } else {
    b[0] = 1; wit_send(b, 1); pump_conn(h); pump_updates();
  }
  b[0] = 1; wit_send(b, 1); pump_conn(h); pump_updates();          /* ClientInit shared */
  ok = alive(h) && h->c.cl->state == RFB_NORMAL;
  { /* SetEncodings: preferred encoding + CopyRect */
    unsigned char m[12] = {2, 0, 0, 2};
    put32(m + 4, (uint32_t)cWenc); put32(m + 8, 1);
    wit_send(m, 12); pump_conn(h);
  }
  wit_request(0); pump_conn(h); pump_updates();
  hdrain(h); vh_buf_reset(&h->c.out);          /* handshake bytes contain the random challenge */
  return ok;
}
static void draw(uint64_t seed) {
  int k, n;
  vh_srand(seed);
  n = 1 + (int)(vh_rand() % 3);
  for (k = 0; k < n; k++) {
    int x = (int)(vh_rand() % cW), y = (int)(vh_rand() % cH);
    int w = 1 + (int)(vh_rand() % (cW - x)), hh = 1 + (int)(vh_rand() % (cH - y)), i, j, b;
    for (j = y; j < y + hh; j++) for (i = x; i < x + w; i++) for (b = 0; b < cBpp; b++)
      scr->frameBuffer[(size_t)j * scr->paddedWidthInBytes + (size_t)i * cBpp + b] = (char)vh_rand();
    rfbMarkRectAsModified(scr, x, y, x + w, y + hh);
  }
}

/* listening sockets (AF_UNIX inside the sandbox): hostile peers arrive through
   rfbCheckFds -> rfbProcessNewConnection -> accept -> rfbNewConnectionFromSock -> rfbNewClient */
static int listen_unix(const char *path) {
  struct sockaddr_un a; int s = socket(AF_UNIX, SOCK_STREAM, 0);
  if (s < 0) return -1;
  memset(&a, 0, sizeof a); a.sun_family = AF_UNIX;
  if (strlen(path) >= sizeof a.sun_path) { close(s); return -1; }
  strcpy(a.sun_path, path);
  if (bind(s, (struct sockaddr *)&a, sizeof a) < 0 || listen(s, 128) < 0) { close(s); return -1; }
  return s;
}
static int connect_unix(const char *path) {
  struct sockaddr_un a; int s = socket(AF_UNIX, SOCK_STREAM, 0); int sz = 4 << 20;
  if (s < 0) return -1;
  memset(&a, 0, sizeof a); a.sun_family = AF_UNIX; strcpy(a.sun_path, path);
  setsockopt(s, SOL_SOCKET, SO_SNDBUF, &sz, sizeof sz); setsockopt(s, SOL_SOCKET, SO_RCVBUF, &sz, sizeof sz);
  if (connect(s, (struct sockaddr *)&a, sizeof a) < 0) { close(s); return -1; }
  fcntl(s, F_SETFL, fcntl(s, F_GETFL) | O_NONBLOCK);
  return s;
}
static long accepted_count;
static enum rfbNewClientAction app_new_client(rfbClientPtr cl) { last_new_client = cl; accepted_count++; return RFB_CLIENT_ACCEPT; }
static int listener_pending(void) {
  struct pollfd p; p.fd = lsock; p.events = POLLIN; p.revents = 0;
  return lsock >= 0 && poll(&p, 1, 0) > 0 && (p.revents & POLLIN);
}
/* connect through the listening socket; returns with h->c.cl set iff the server accepted */
static void listen_conn(hconn *h, const unsigned char *pre, size_t prelen, int close_first) {
  memset(&h->c, 0, sizeof h->c);
  h->used = 1;
  h->c.peer = connect_unix(((h - H) & 1) && lsock6 >= 0 ? lpath6 : lpath); h->c.srvfd = -1;   /* odd ids: second listener */
  if (h->c.peer < 0) { fprintf(stderr, "c04 harness: cannot connect to the listening socket: %s\n", strerror(errno)); exit(3); }
  if (prelen && write(h->c.peer, pre, prelen) < 0) {}
  if (close_first) { close(h->c.peer); h->c.peer = -1; }
  last_new_client = NULL;
  win_begin(1);
  rfbCheckFds(scr, 0);
  win_end();
  if (last_new_client) {
    h->c.cl = last_new_client; h->c.srvfd = last_new_client->sock;
    h->c.cl->clientData = &h->c; h->c.cl->clientGoneHook = vh_gone_hook;
    if (cView) h->c.cl->viewOnly = TRUE;
    if (h->c.cl->sock == RFB_INVALID_SOCKET) { /* closed inside rfbNewClient is reported as NULL by the library */ }
  }
}

/* ------------------------------------------------------------------ main */
static int kv(const char *tok, const char *key, int *out) {
  size_t n = strlen(key);
  if (strncmp(tok, key, n) == 0 && tok[n] == '=') { *out = atoi(tok + n + 1); return 1; }
  return 0;
}

int main(int argc, char **argv) {
  char *line; static char *tok[64];
  int i;
  for (i = 1; i < argc; i++) if (!strcmp(argv[i], "--solo")) solo = 1;
  if (getenv("C04_WATCHDOG") && atoi(getenv("C04_WATCHDOG")) > 0) watchdog_s = (unsigned)atoi(getenv("C04_WATCHDOG"));
  signal(SIGALRM, hang);
  snprintf(sandbox, sizeof sandbox, "/tmp/c04sbx-%07d", (int)getpid());
  { /* a stale sandbox of a dead process with the same pid (its socket files would make bind fail) */
    char cmd[400]; snprintf(cmd, sizeof cmd, "rm -rf '%s'", sandbox); if (system(cmd)) {}
  }
  mkdir(sandbox, 0700);
  setenv("HOME", sandbox, 1);
  __sanitizer_install_malloc_and_free_hooks(mhook, fhook);
  while ((line = vh_readline())) {
    int n = vh_split(line, tok, 64);
    if (n == 0 || tok[0][0] == '#') continue;
    alarm(watchdog_s);
    if (!strcmp(tok[0], "cfg")) {
      for (i = 1; i < n; i++) {
        if (kv(tok[i], "w", &cW) || kv(tok[i], "h", &cH) || kv(tok[i], "bpp", &cBpp) || kv(tok[i], "pw", &cPw) ||
            kv(tok[i], "ft", &cFt) || kv(tok[i], "tight", &cTight) || kv(tok[i], "xvp", &cXvp) ||
            kv(tok[i], "utf8", &cUtf8) || kv(tok[i], "sdh", &cSdh) || kv(tok[i], "wait", &cWait) ||
            kv(tok[i], "wenc", &cWenc) || kv(tok[i], "view", &cView) || kv(tok[i], "http", &cHttp)) continue;
        puts("bad-op"); goto next;
      }
      puts("ok");
    } else if (!strcmp(tok[0], "start") && !started) {
      char f[300]; int fd;
      if (cTight) { rfbRegisterTightVNCFileTransferExtension(); SetFtpRoot(sandbox); }
      rfbRegisterProtocolExtension(&c04_ext);
      scr = vh_screen(cW, cH, cBpp);
      if (!scr) { puts("no-screen"); return 2; }
      scr->alwaysShared = TRUE;
      scr->maxClientWait = cWait;
      if (cPw) { scr->authPasswdData = (void *)passwds; scr->passwordCheck = rfbCheckPasswordByList; }
      scr->permitFileTransfer = cFt ? TRUE : FALSE;
      scr->kbdAddEvent = app_kbd; scr->ptrAddEvent = app_ptr; scr->setXCutText = app_cut;
      if (cUtf8) scr->setXCutTextUTF8 = app_utf8;
      scr->setTextChat = app_chat; scr->setSingleWindow = app_sw; scr->setServerInput = app_si;
      if (cXvp) scr->xvpHook = app_xvp;
      if (cSdh) scr->setDesktopSizeHook = app_sds;
      /* sandbox content for the file-transfer code */
      snprintf(f, sizeof f, "%s/a.txt", sandbox); fd = open(f, O_CREAT | O_WRONLY, 0600);
      if (fd >= 0) { if (write(fd, "hello world\n", 12) < 0) {} close(fd); }
      snprintf(f, sizeof f, "%s/d", sandbox); mkdir(f, 0700);
      scr->newClientHook = app_new_client;
      snprintf(lpath, sizeof lpath, "%s/.rfb.sock", sandbox);
      lsock = listen_unix(lpath);
      if (lsock >= 0) { scr->listenSock = lsock; FD_SET(lsock, &scr->allFds); if (lsock > scr->maxFd) scr->maxFd = lsock; }
      snprintf(lpath6, sizeof lpath6, "%s/.rfb6.sock", sandbox);
      lsock6 = listen_unix(lpath6);
      if (lsock6 >= 0) { scr->listen6Sock = lsock6; FD_SET(lsock6, &scr->allFds); if (lsock6 > scr->maxFd) scr->maxFd = lsock6; }
      if (cHttp) {
        snprintf(wwwdir, sizeof wwwdir, "%s/www", sandbox); mkdir(wwwdir, 0700);
        snprintf(f, sizeof f, "%s/index.vnc", wwwdir); fd = open(f, O_CREAT | O_WRONLY, 0600);
        if (fd >= 0) { if (write(fd, "<html>$WIDTH x $HEIGHT $PORT $USER</html>\n", 42) < 0) {} close(fd); }
        snprintf(f, sizeof f, "%s/a.txt", wwwdir); fd = open(f, O_CREAT | O_WRONLY, 0600);
        if (fd >= 0) { if (write(fd, "plain\n", 6) < 0) {} close(fd); }
        snprintf(hpath, sizeof hpath, "%s/.http.sock", sandbox);
        hlsock = listen_unix(hpath);
        if (hlsock >= 0) { scr->httpDir = wwwdir; scr->httpListenSock = hlsock; scr->httpInitDone = TRUE; }
      }
      started = 1;
      puts(wit_start() ? "ok" : "witness-failed");
    } else if (!started) {
      puts("bad-op");
    } else if ((!strcmp(tok[0], "conn") && n == 3) || (!strcmp(tok[0], "lconn") && (n == 3 || (n == 4 && !strcmp(tok[3], "eof"))))) {
      int id = atoi(tok[1]); static unsigned char pre[8192]; long pl; hconn *h; int via_listener = tok[0][0] == 'l';
      if (solo) { goto next; }
      if (id <= 0 || id >= MAXC) { puts("bad-op"); goto next; }
      if (H[id].used && alive(&H[id])) {     /* the old peer of this slot hangs up first */
        if (H[id].c.peer >= 0) { close(H[id].c.peer); H[id].c.peer = -1; }
        pump_conn(&H[id]); pump_updates();
        if (alive(&H[id])) { rfbCloseClient(H[id].c.cl); pump_updates(); }
      }
      if (H[id].used) {            /* recycle the slot of a connection that is gone */
        if (H[id].c.peer >= 0) close(H[id].c.peer);
        free(H[id].c.out.p); free_segs(&H[id]); memset(&H[id], 0, sizeof H[id]);
      }
      pl = vh_unhex(tok[2], pre, sizeof pre);
      if (pl < 0) { puts("bad-op"); goto next; }
      h = &H[id]; meas_reset();
      if (via_listener) listen_conn(h, pre, (size_t)pl, n == 4);
      else new_conn(h, pre, (size_t)pl);
      if (h->c.cl && h->c.cl->wsctx) h->ws = 1;
      after_op(id, h, pump_conn(h));
    } else if (!strcmp(tok[0], "send") && n >= 3) {
      int id = atoi(tok[1]); hconn *h; unsigned char *buf; long bl; size_t L = strlen(tok[2]) / 2 + 1;
      size_t cuts[MAXSEG]; int nc = 0, k; size_t prev = 0;
      if (solo) goto next;
      if (id <= 0 || id >= MAXC || !H[id].used) { puts("bad-op"); goto next; }
      h = &H[id];
      buf = (unsigned char *)malloc(L);
      bl = vh_unhex(tok[2], buf, L);
      if (bl < 0) { free(buf); puts("bad-op"); goto next; }
      for (k = 3; k < n; k++) {
        if (!strncmp(tok[k], "c=", 2)) {
          char *p = tok[k] + 2;
          while (*p && nc < MAXSEG - 2) { size_t v = strtoul(p, &p, 10); if (v > prev && v < (size_t)bl) { cuts[nc++] = v; prev = v; } if (*p == ',') p++; }
        } else if (!strcmp(tok[k], "eof")) h->eof_after = 1;
        else if (!strncmp(tok[k], "trickle=", 8)) {      /* one byte per segment, each `ms` after the wait began */
          h->trickle = atol(tok[k] + 8); nc = 0;
          for (prev = 1; prev < (size_t)bl && nc < MAXSEG - 2; prev++) cuts[nc++] = prev;
          prev = 0;
        }
      }
      prev = 0;
      for (k = 0; k <= nc; k++) {
        size_t endp = k < nc ? cuts[k] : (size_t)bl;
        h->seg[h->nseg] = (unsigned char *)malloc(endp - prev + 1);
        memcpy(h->seg[h->nseg], buf + prev, endp - prev);
        h->seglen[h->nseg] = endp - prev; h->nseg++; prev = endp;
      }
      free(buf);
      meas_reset();
      if (!alive(h) || h->c.peer < 0) { free_segs(h); report(id, h, 0); goto next; }
      after_op(id, h, pump_conn(h));
    } else if (!strcmp(tok[0], "auth") && n == 3) {
      int id = atoi(tok[1]); hconn *h; unsigned char r[16];
      if (solo) goto next;
      if (id <= 0 || id >= MAXC || !H[id].used) { puts("bad-op"); goto next; }
      h = &H[id]; meas_reset();
      if (!alive(h) || h->c.peer < 0) { report(id, h, 0); goto next; }
      memcpy(r, h->chal, 16); rfbEncryptBytes(r, passwds[0]);
      if (!strcmp(tok[2], "bad")) r[3] ^= 0x40;
      h->seg[0] = (unsigned char *)malloc(16); memcpy(h->seg[0], r, 16);
      h->seglen[0] = !strcmp(tok[2], "short") ? 9 : 16; h->nseg = 1;
      after_op(id, h, pump_conn(h));
    } else if (!strcmp(tok[0], "reset") && n == 2) {
      int id = atoi(tok[1]); hconn *h;
      if (solo) goto next;
      if (id <= 0 || id >= MAXC || !H[id].used) { puts("bad-op"); goto next; }
      h = &H[id]; meas_reset();
      if (h->c.peer >= 0) { close(h->c.peer); h->c.peer = -1; }
      after_op(id, h, pump_conn(h));
    } else if (!strcmp(tok[0], "fault") && n == 3) {
      int id = atoi(tok[1]); int k = F_NONE;
      if (solo) goto next;
      if (id <= 0 || id >= MAXC || !H[id].used) { puts("bad-op"); goto next; }
      if (!strcmp(tok[2], "rd_eintr")) k = F_RD_EINTR; else if (!strcmp(tok[2], "rd_reset")) k = F_RD_RESET;
      else if (!strcmp(tok[2], "sel_err")) k = F_SEL_ERR; else if (!strcmp(tok[2], "wr_eintr")) k = F_WR_EINTR;
      else if (!strcmp(tok[2], "wr_zero")) k = F_WR_ZERO; else if (!strcmp(tok[2], "wsel_err")) k = F_WSEL_ERR;
      else if (!strcmp(tok[2], "wsel_eintr")) k = F_WSEL_EINTR; else { puts("bad-op"); goto next; }
      H[id].fault = k;
      puts("ok");
    } else if (!strcmp(tok[0], "lflood") && n == 2) {
      /* many simultaneous connects through the listening socket with a low RLIMIT_NOFILE: the
         fd-quota logic of rfbProcessNewConnection must refuse some, and none may wedge the server */
      int want = atoi(tok[1]), k, peers[MAXFLOOD], refused = 0, it; long acc0; struct rlimit old, low;
      if (solo) goto next;
      if (want < 1 || want > MAXFLOOD || lsock < 0) { puts("bad-op"); goto next; }
      { /* quota = half the limit: choose the limit so that about half of the connects fit */
        int base = 0, fdn; for (fdn = 0; fdn < 1024; fdn++) if (fcntl(fdn, F_GETFD) != -1) base++;
        getrlimit(RLIMIT_NOFILE, &old); low = old; low.rlim_cur = (rlim_t)(2 * (base + want + want / 2)); }
      for (k = 0; k < want; k++) peers[k] = connect_unix(lpath);
      setrlimit(RLIMIT_NOFILE, &low);
      acc0 = accepted_count; meas_reset();
      for (it = 0; it < 4 * want && listener_pending(); it++) { win_begin(1); rfbCheckFds(scr, 0); win_end(); }
      for (k = 0; k < want; k++) if (peers[k] >= 0) {
        char b; ssize_t r = read(peers[k], &b, 1);
        if (r == 0) refused++;                       /* closed by the server without a version string */
        close(peers[k]);
      }
      setrlimit(RLIMIT_NOFILE, &old);
      for (it = 0; it < 4 * want && any_readable_all(); it++) { win_begin(1); rfbCheckFds(scr, 0); win_end(); }
      pump_updates();
      puts("ok");
      printf("#flood want=%d accepted=%ld refused=%d rw=%ld vt=%ld\n", want, accepted_count - acc0, refused, rwaits, vtime_ms);
    } else if (!strcmp(tok[0], "http") && n >= 2) {
      /* smoke stream for the HTTP listener (deep coverage: C20) */
      static unsigned char rq[70000]; long rl; int fd, it; size_t got = 0; char tmp[4096];
      if (solo) goto next;
      rl = vh_unhex(tok[1], rq, sizeof rq);
      if (rl < 0 || hlsock < 0) { puts("bad-op"); goto next; }
      fd = connect_unix(hpath);
      if (fd < 0) { puts("bad-op"); goto next; }
      if (rl && write(fd, rq, (size_t)rl) < 0) {}
      if (n == 3 && !strcmp(tok[2], "eof")) shutdown(fd, SHUT_WR);
      meas_reset();
      for (it = 0; it < 50; it++) {
        ssize_t r;
        win_begin(2); rfbProcessEvents(scr, 0); win_end();
        while ((r = read(fd, tmp, sizeof tmp)) > 0) got += (size_t)r;
      }
      close(fd);
      win_begin(2); rfbProcessEvents(scr, 0); win_end();
      puts("ok");
      printf("#http sent=%ld got=%zu vt=%ld\n", rl, got, vtime_ms);
    } else if (!strcmp(tok[0], "stopread") && n == 2) {
      int id = atoi(tok[1]); hconn *h;
      if (solo) goto next;
      if (id <= 0 || id >= MAXC || !H[id].used) { puts("bad-op"); goto next; }
      h = &H[id];
      if (alive(h)) {
        static char junk[4096]; int sz = 2048, guard = 0;
        h->stopread = 1;
        setsockopt(h->c.cl->sock, SOL_SOCKET, SO_SNDBUF, &sz, sizeof sz);
        while (write(h->c.cl->sock, junk, sizeof junk) > 0 && guard++ < 100000) {}
      }
      puts("ok");
    } else if (!strcmp(tok[0], "tick") && n == 2) {
      draw(strtoull(tok[1], NULL, 10));
      if (alive(&H[0])) { wit_request(1); pump_conn(&H[0]); }
      pump_updates();
      hdrain(&H[0]); wit_account(); wit_tick++;
      puts("ok");
      printf("#wit %d %d %zu %016llx\n", wit_tick, alive(&H[0]), wit_len, (unsigned long long)wit_hash);
    } else if (!strcmp(tok[0], "app") && n >= 2) {
      if (!strcmp(tok[1], "copyrects") && n == 3) {
        /* application behaviour: schedule a copy of a checkerboard of 1x1 rectangles */
        int want = atoi(tok[2]), cnt = 0, x, y; sraRegionPtr rg = sraRgnCreate();
        for (y = 1; y < cH && cnt < want; y++) for (x = 1 + (y & 1); x < cW && cnt < want; x += 2) {
          sraRegionPtr one = sraRgnCreateRect(x, y, x + 1, y + 1); sraRgnOr(rg, one); sraRgnDestroy(one); cnt++;
        }
        rfbScheduleCopyRegion(scr, rg, 1, 1);
        sraRgnDestroy(rg);
      } else if (!strcmp(tok[1], "copy") && n == 8) {
        /* ordinary application behaviour: a window is moved / scrolled (rfbDoCopyRect) */
        in_server = 1;
        rfbDoCopyRect(scr, atoi(tok[2]), atoi(tok[3]), atoi(tok[4]), atoi(tok[5]), atoi(tok[6]), atoi(tok[7]));
        in_server = 0;
      } else if (!strcmp(tok[1], "cuttext") && n == 3) {
        int len = atoi(tok[2]); char *s = (char *)calloc((size_t)len + 1, 1);
        memset(s, 'x', (size_t)len);
        in_server = 1; rfbSendServerCutText(scr, s, len); in_server = 0;
        free(s);
      } else if (!strcmp(tok[1], "cututf8") && n == 3) {
        int len = atoi(tok[2]); char *s8 = (char *)calloc((size_t)len + 1, 1);
        memset(s8, 'u', (size_t)len);
        in_server = 1; rfbSendServerCutTextUTF8(scr, s8, len, s8, len); in_server = 0;
        free(s8);
      } else if (!strcmp(tok[1], "cursor") && n == 4) {
        /* application behaviour: a (large) cursor shape; X cursor source + mask, the rich source is
           derived by the library in the server's pixel format when a client asks for RichCursor */
        int cw = atoi(tok[2]), ch = atoi(tok[3]), x, y; char *src, *msk; rfbCursorPtr c;
        if (cw < 1 || ch < 1 || cw > 1024 || ch > 1024) { puts("bad-op"); goto next; }
        src = (char *)malloc((size_t)cw * ch + 1); msk = (char *)malloc((size_t)cw * ch + 1);
        for (y = 0; y < ch; y++) for (x = 0; x < cw; x++) {
          src[y * cw + x] = ((x ^ y) & 1) ? 'x' : ' ';
          msk[y * cw + x] = ((x + y) % 7) ? 'x' : ' ';
        }
        src[cw * ch] = msk[cw * ch] = 0;
        c = rfbMakeXCursor(cw, ch, src, msk);
        free(src); free(msk);
        if (c) { c->xhot = cw / 2; c->yhot = ch / 2; in_server = 1; rfbSetCursor(scr, c); in_server = 0; }
      } else if (!strcmp(tok[1], "bell")) {
        in_server = 1; rfbSendBell(scr); in_server = 0;
      } else { puts("bad-op"); goto next; }
      pump_updates();
      for (i = 0; i < MAXC; i++) if (H[i].used) { hdrain(&H[i]); if (i) vh_buf_reset(&H[i].c.out); }
      puts("ok");
    } else if (!strcmp(tok[0], "end")) {
      int left = 0; rfbClientIteratorPtr it; rfbClientPtr cl;
      it = rfbGetClientIterator(scr);
      while ((cl = rfbClientIteratorNext(it))) left++;
      rfbReleaseClientIterator(it);
      printf("end %d\n", solo ? -1 : left);
      printf("#wit end %d %zu %016llx\n", alive(&H[0]), wit_len, (unsigned long long)wit_hash);
      fflush(stdout);
      /* memory that nothing points to any more after all hostile peers are gone = leaked on behalf of
         client input (the screen, the witness and the harness tables are still reachable) */
      printf("#leak %d\n", solo ? 0 : __lsan_do_recoverable_leak_check());
      fflush(stdout);
      break;
    } else puts("bad-op");
  next:
    alarm(0);
    fflush(stdout);
  }
  /* leave without running the library's shutdown path (C12's subject); remove the sandbox */
  { char cmd[400]; snprintf(cmd, sizeof cmd, "rm -rf '%s'", sandbox); if (system(cmd)) {} }
  fflush(stdout);
  _exit(0);
}
